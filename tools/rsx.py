"""rsx - a small lexical scanner for Rust source, enough to cut items out of real files
by item path and to address loops by ordinal.  No parsing beyond brace matching.

Everything here is mechanical: it never invents text, it only returns spans of the
original source (start, end byte offsets) so that callers can copy the text verbatim.
"""
import re


class LostAnchor(Exception):
    """An item / loop / text anchor named by a contract file is not in the source."""


def code_mask(src):
    """Return a bytearray m with m[i]==1 iff src[i] is code (not in comment / string / char literal)."""
    n = len(src)
    m = bytearray(b"\x01") * n
    i = 0
    while i < n:
        c = src[i]
        if c == '/' and i + 1 < n and src[i + 1] == '/':
            j = src.find('\n', i)
            if j < 0:
                j = n
            for k in range(i, j):
                m[k] = 0
            i = j
        elif c == '/' and i + 1 < n and src[i + 1] == '*':
            depth = 1
            j = i + 2
            while j < n and depth > 0:
                if src.startswith('/*', j):
                    depth += 1
                    j += 2
                elif src.startswith('*/', j):
                    depth -= 1
                    j += 2
                else:
                    j += 1
            for k in range(i, j):
                m[k] = 0
            i = j
        elif c == '"' or (c in 'br' and _raw_or_byte_string_start(src, i)):
            j = _skip_string(src, i)
            for k in range(i, j):
                m[k] = 0
            # keep the delimiters masked too
            i = j
        elif c == "'":
            j = _skip_char_or_lifetime(src, i)
            if j is not None:
                for k in range(i, j):
                    m[k] = 0
                i = j
            else:
                i += 1
        else:
            i += 1
    return m


def _raw_or_byte_string_start(src, i):
    # b"..."  r"..."  r#"..."#  br"..."  br#"..."#
    if i > 0 and (src[i - 1].isalnum() or src[i - 1] == '_'):
        return False
    mm = re.match(r'(b?r#*"|b")', src[i:i + 12])
    return mm is not None


def _skip_string(src, i):
    n = len(src)
    mm = re.match(r'(b?)(r?)(#*)"', src[i:i + 12])
    if mm and mm.group(2) == 'r':
        hashes = mm.group(3)
        end = src.find('"' + hashes, i + len(mm.group(0)))
        return n if end < 0 else end + 1 + len(hashes)
    j = i + (len(mm.group(0)) if mm else 1)
    while j < n:
        if src[j] == '\\':
            j += 2
        elif src[j] == '"':
            return j + 1
        else:
            j += 1
    return n


def _skip_char_or_lifetime(src, i):
    # char literal: 'x'  '\n'  '\u{1F600}'  '\''  ; lifetime: 'a  'static
    n = len(src)
    if i + 1 >= n:
        return None
    if src[i + 1] == '\\':
        j = src.find("'", i + 3) if src[i + 2] != "'" else src.find("'", i + 3)
        if src[i + 2] == "'":  # '\''
            return i + 4
        return None if j < 0 else j + 1
    if i + 2 < n and src[i + 2] == "'":
        return i + 3
    # multi-byte char literal cannot occur: python str is unicode code points
    return None  # lifetime


OPEN = {'{': '}', '(': ')', '[': ']'}
CLOSE = {'}', ')', ']'}


def match_brace(src, mask, i):
    """src[i] is an opening bracket in code; return the index of its partner."""
    stack = []
    n = len(src)
    j = i
    while j < n:
        if mask[j]:
            c = src[j]
            if c in OPEN:
                stack.append(OPEN[c])
            elif c in CLOSE:
                if not stack or stack[-1] != c:
                    raise LostAnchor("unbalanced bracket at offset %d" % j)
                stack.pop()
                if not stack:
                    return j
        j += 1
    raise LostAnchor("unterminated bracket at offset %d" % i)


def find_code(src, mask, pat, start=0, end=None):
    """Iterate regex matches of pat whose first char is in code."""
    end = len(src) if end is None else end
    for mm in re.compile(pat).finditer(src, start, end):
        if mask[mm.start()]:
            yield mm


def _strip_generics(s):
    out = []
    depth = 0
    for ch in s:
        if ch == '<':
            depth += 1
        elif ch == '>':
            depth -= 1
        elif depth == 0:
            out.append(ch)
    return ''.join(out)


def _norm_header(h):
    h = re.sub(r'\bwhere\b.*$', '', h, flags=re.S)
    h = _strip_generics(h)
    h = re.sub(r"\s+", ' ', h).strip()
    return h


class Source:
    def __init__(self, path, text):
        self.path = path
        self.text = text
        self.mask = code_mask(text)

    # ---- block-level navigation -------------------------------------------------
    def _children(self, start, end):
        """Yield (kind, name, item_start, header_end(open brace or ';'), item_end) for items
        directly inside text[start:end] (depth 0 relative)."""
        src, mask = self.text, self.mask
        i = start
        item_re = re.compile(
            r'\b(?:(impl)\b|(trait)\s+(\w+)|(fn)\s+(\w+)|(struct)\s+(\w+)|(enum)\s+(\w+)|(mod)\s+(\w+)|(const)\s+(\w+)|(static)\s+(?:ref\s+)?(\w+)|(type)\s+(\w+)|(macro_rules)!\s*(\w+))')
        while i < end:
            mm = item_re.search(src, i, end)
            if not mm:
                return
            if not mask[mm.start()]:
                i = mm.start() + 1
                continue
            kind = next(g for g in (mm.group(1), mm.group(2), mm.group(4), mm.group(6), mm.group(8), mm.group(10),
                                    mm.group(12), mm.group(14), mm.group(16), mm.group(18)) if g)
            # find header end: first '{' or ';' at bracket depth 0 (generics may contain neither)
            j = mm.end()
            depth = 0
            while j < end:
                if mask[j]:
                    c = src[j]
                    if c in '([':
                        depth += 1
                    elif c in ')]':
                        depth -= 1
                    elif depth == 0 and c in '{;':
                        break
                    elif depth == 0 and c == '=' and kind in ('const', 'static', 'type'):
                        # value expression: run to ';' honouring brackets
                        k = j
                        d2 = 0
                        while k < end:
                            if mask[k]:
                                if src[k] in OPEN:
                                    d2 += 1
                                elif src[k] in CLOSE:
                                    d2 -= 1
                                elif src[k] == ';' and d2 == 0:
                                    break
                            k += 1
                        j = k
                        break
                j += 1
            if j >= end:
                return
            if src[j] == '{':
                close = match_brace(src, mask, j)
                item_end = close + 1
            else:
                item_end = j + 1
            if kind == 'impl':
                name = _norm_header(src[mm.end():j])
            else:
                name = next(g for g in (mm.group(3), mm.group(5), mm.group(7), mm.group(9), mm.group(11),
                                        mm.group(13), mm.group(15), mm.group(17), mm.group(19)) if g)
            # item start: include visibility / qualifiers before the keyword on the same statement
            s = mm.start()
            pre = re.search(r'((?:pub(?:\([^)]*\))?\s+)?(?:default\s+)?(?:const\s+)?(?:async\s+)?(?:unsafe\s+)?(?:extern\s+"[^"]*"\s+)?)$',
                            src[max(start, s - 60):s])
            if pre:
                s -= len(pre.group(1))
            yield (kind, name, s, j, item_end)
            i = item_end

    def find(self, path):
        """path: list like ['impl Fsm', 'fn isDescendant'] or ['struct List'] ->
        (item_start, header_end, item_end)."""
        start, end = 0, len(self.text)
        found = None
        for depth, elem in enumerate(path):
            kind, _, name = elem.partition(' ')
            name = name.strip()
            hits = []
            for (k, nm, s, h, e) in self._children(start, end):
                if k == kind and nm == name:
                    hits.append((s, h, e))
            if not hits:
                raise LostAnchor("%s: item '%s' not found (path %s)" % (self.path, elem, ' :: '.join(path)))
            if len(hits) > 1 and kind != 'impl':
                raise LostAnchor("%s: item '%s' is ambiguous" % (self.path, elem))
            if len(hits) > 1 and depth + 1 < len(path):
                # several impl blocks with the same header: pick the one containing the next element
                nk, _, nn = path[depth + 1].partition(' ')
                sel = []
                for (s, h, e) in hits:
                    for (k2, n2, _, _, _) in self._children(h + 1, e - 1):
                        if k2 == nk and n2 == nn.strip():
                            sel.append((s, h, e))
                            break
                if len(sel) != 1:
                    raise LostAnchor("%s: cannot disambiguate '%s' for '%s'" % (self.path, elem, path[depth + 1]))
                hits = sel
            found = hits[0]
            start, end = found[1] + 1, found[2] - 1
        return found

    def attrs_before(self, item_start):
        """Return list of attribute texts (#[...]) directly preceding item_start (doc comments skipped)."""
        src = self.text
        attrs = []
        i = item_start
        while True:
            # skip whitespace and comments backwards
            j = i
            while j > 0 and (src[j - 1].isspace() or not self.mask[j - 1]):
                j -= 1
            if j > 0 and src[j - 1] == ']':
                # find the matching '#['
                depth = 0
                k = j - 1
                while k >= 0:
                    if self.mask[k]:
                        if src[k] == ']':
                            depth += 1
                        elif src[k] == '[':
                            depth -= 1
                            if depth == 0:
                                break
                    k -= 1
                if k > 0 and src[k - 1] == '#':
                    attrs.append(src[k - 1:j])
                    i = k - 1
                    continue
            break
        return list(reversed(attrs))

    def loops(self, body_start, body_end):
        """Loops in textual order inside text[body_start:body_end]:
        list of (kw_start, open_brace, close_brace, kind, label_start)."""
        src, mask = self.text, self.mask
        res = []
        for mm in find_code(src, mask, r'\b(for|while|loop)\b', body_start, body_end):
            kw = mm.group(1)
            # 'for' in `impl X for Y` / HRTB cannot occur inside a fn body except `for<'a>`; skip that
            j = mm.end()
            if kw == 'for' and src[j:j + 1] == '<':
                continue
            depth = 0
            while j < body_end:
                if mask[j]:
                    c = src[j]
                    if c in '([':
                        depth += 1
                    elif c in ')]':
                        depth -= 1
                    elif c == '{' and depth == 0:
                        # `while let Some(x) = S { a: 1 }.f() {` is not handled (does not occur)
                        break
                j += 1
            if j >= body_end:
                raise LostAnchor("loop header without body at %d" % mm.start())
            close = match_brace(src, mask, j)
            res.append((mm.start(), j, close, kw))
        return res
