"""kani_runner - placeholder until Kani harnesses are registered (returns no obligations)."""


def run_for(pid, pc, tier, workdir, repo, seed):
    return []
