"""kani_runner - run registered Kani harnesses against the REAL crate.

Harness modules (kani/<file>.rs, `#[cfg(kani)] mod ... { use super::*; ... }`) are appended to source files in a
scratch copy of /repo; the functions they call are the bytes of /repo.  Results become obligations
`<unit>.kani.<harness>`; a FAILED harness with a concrete playback is decoded into a replay `#[test]` that is run
with cargo test against the same scratch copy (failing input replayed on the real code).

A harness marked `complete: true` is loop-free or fully unwound over full-domain inputs (counts as proved);
otherwise it is a bounded stand-in (reported under `bounded`, never counted as proved).
"""
import json
import os
import re
import shutil
import subprocess
import tempfile
import time

FEATURES_DEFAULT = 'serializer,RfsmExpressionModel'


def registry(verif):
    with open(os.path.join(verif, 'kani', 'registry.json')) as f:
        return json.load(f)['harnesses']


def _scratch(repo):
    d = tempfile.mkdtemp(prefix='verif-kani-')
    subprocess.run(['rsync', '-a', '--exclude', 'target', '--exclude', '.git', repo.rstrip('/') + '/', d + '/'], check=True)
    lock = os.path.join(repo, 'Cargo.lock')
    if os.path.exists(lock):
        shutil.copy(lock, os.path.join(d, 'Cargo.lock'))
    return d


def parse_playback(out, harness):
    """-> list of byte-vectors (one per kani::any()) or None"""
    mm = re.search(r'fn kani_concrete_playback_%s_\d+\(\) \{(.*?)kani::concrete_playback_run' % re.escape(harness), out, re.S)
    if not mm:
        return None
    vals = []
    for vm in re.finditer(r'vec!\[([0-9, ]*)\],?\s*\n', mm.group(1)):
        s = vm.group(1).strip()
        vals.append([int(x) for x in s.split(',') if x.strip()] if s else [])
    return vals


def decode(vals, spec):
    """spec: [[name, type, count]] -> dict name -> python value (int or list of ints)"""
    res = {}
    i = 0
    size = {'u8': 1, 'i8': 1, 'bool': 1, 'u16': 2, 'i16': 2, 'u32': 4, 'i32': 4, 'u64': 8, 'i64': 8, 'usize': 8, 'f64': 8}
    for (name, ty, count) in spec:
        items = []
        for _ in range(count):
            if i >= len(vals):
                return None
            b = vals[i]
            i += 1
            v = int.from_bytes(bytes(b), 'little', signed=False)
            if ty.startswith('i'):
                bits = 8 * size[ty]
                if v >= 1 << (bits - 1):
                    v -= 1 << bits
            items.append(v)
        res[name] = items if count > 1 else items[0]
    return res


def render(template, values):
    def lit(v):
        if isinstance(v, list):
            return 'vec![' + ', '.join(str(x) for x in v) + ']'
        return str(v)
    out = template
    for k, v in values.items():
        out = out.replace('{' + k + '}', lit(v))
    return out


def _run_one(h, scratch, verif, feat):
    env = dict(os.environ, CARGO_NET_OFFLINE='true', CARGO_TARGET_DIR=os.path.join(verif, '.cache', 'kani-target'))
    cmd = ['cargo', 'kani', '--lib', '--no-default-features', '--features', feat, '--output-format', 'terse',
           '-Z', 'concrete-playback', '--concrete-playback=print', '--harness', h['harness']]
    for z in h.get('zflags', []):
        cmd += ['-Z', z]
    timeout = h.get('timeout', 600)
    t0 = time.time()
    timed_out = False
    try:
        p = subprocess.run(cmd, cwd=scratch, env=env, stdout=subprocess.PIPE, stderr=subprocess.STDOUT, text=True, timeout=timeout)
        out = p.stdout
    except subprocess.TimeoutExpired as e:
        out = (e.stdout or b'').decode('utf-8', 'replace') if isinstance(e.stdout, bytes) else (e.stdout or '')
        timed_out = True
        subprocess.run(['pkill', '-f', 'cbmc.*%s' % os.path.basename(scratch)], stdout=subprocess.DEVNULL, stderr=subprocess.DEVNULL)
    wall = time.time() - t0
    r = dict(h=h, wall=wall, cmd=' '.join(cmd), status='undecided', detail='', cex=None, replay=None)
    name = h['harness']
    if timed_out:
        r['detail'] = 'timeout after %ds' % timeout
        return r
    vm = re.search(r'VERIFICATION:- (\w+)', out)
    tm = re.search(r'Verification Time: ([0-9.]+)s', out)
    r['verify_s'] = float(tm.group(1)) if tm else None
    checks = re.search(r'\*\* (\d+) of (\d+) failed', out)
    r['checks'] = (int(checks.group(1)), int(checks.group(2))) if checks else None
    if not vm:
        r['detail'] = 'no verdict (compile error / out of memory?)\n' + out[-2000:]
    elif vm.group(1) == 'SUCCESSFUL':
        r['status'] = 'ok'
    else:
        fails = re.findall(r'Failed Checks: ([^\n]*)\n\s*File: "([^"]*)", line (\d+)', out)
        unw = [f for f in fails if 'unwinding assertion' in f[0]]
        real = [f for f in fails if 'unwinding assertion' not in f[0]]
        if real:
            r['status'] = 'failed'
            r['detail'] = '; '.join('%s (%s:%s)' % (f[0], os.path.basename(f[1]), f[2]) for f in real[:5])
            vals = parse_playback(out, name)
            if vals is not None and h.get('decode'):
                dv = decode(vals, h['decode'])
                if dv is not None:
                    r['cex'] = dv
        elif unw:
            r['detail'] = 'unwinding bound too small: ' + unw[0][0]
        else:
            r['detail'] = 'FAILED without failed-check list\n' + out[-1500:]
    return r


def run_harnesses(hs, repo, verif, jobs=4):
    """one `cargo kani --harness H` per harness (own timeout each), up to `jobs` at a time, all in one scratch copy"""
    import concurrent.futures as cf
    results = []
    by_feat = {}
    for h in hs:
        by_feat.setdefault(h.get('features', FEATURES_DEFAULT), []).append(h)
    import fcntl
    os.makedirs(os.path.join(verif, '.cache'), exist_ok=True)
    # one check at a time in the shared Kani target directory (harness runs inside this check still go in parallel)
    kani_lock = open(os.path.join(verif, '.cache', 'kani.lock'), 'w')
    fcntl.flock(kani_lock, fcntl.LOCK_EX)
    for feat, group in by_feat.items():
        scratch = _scratch(repo)
        try:
            appended = set()
            for h in group:
                key = (h['file'], h['append_to'])
                if key in appended:
                    continue
                appended.add(key)
                with open(os.path.join(verif, 'kani', h['file'])) as f:
                    text = f.read()
                with open(os.path.join(scratch, h['append_to']), 'a') as f:
                    f.write('\n' + text)
            # same reason as in replay.run_module: stamp the crate sources after the lock so that cargo rebuilds this
            # scratch copy instead of trusting artifacts another check left in the shared target directory
            _now = time.time()
            for _root, _dirs, _files in os.walk(os.path.join(scratch, 'src')):
                for _fn in _files:
                    try:
                        os.utime(os.path.join(_root, _fn), (_now, _now))
                    except OSError:
                        pass
            # compile once (first harness) before fanning out, so that the parallel runs only verify
            first = _run_one(group[0], scratch, verif, feat)
            rs = [first]
            if len(group) > 1:
                with cf.ThreadPoolExecutor(jobs) as ex:
                    rs += list(ex.map(lambda hh: _run_one(hh, scratch, verif, feat), group[1:]))
            # replay counterexamples on the real code
            for r in rs:
                h = r['h']
                if r['cex'] is not None and h.get('replay_template'):
                    with open(os.path.join(verif, 'kani', h['replay_template'])) as f:
                        tmpl = f.read()
                    code = render(tmpl, r['cex'])
                    with open(os.path.join(scratch, h['append_to']), 'a') as f:
                        f.write('\n' + code)
                    env2 = dict(os.environ, CARGO_NET_OFFLINE='true', CARGO_TARGET_DIR=os.path.join(verif, '.cache', 'target'), RUST_BACKTRACE='0')
                    import fcntl
                    with open(os.path.join(verif, '.cache', 'cargo-test.lock'), 'w') as lk:
                        fcntl.flock(lk, fcntl.LOCK_EX)
                        _now = time.time()
                        for _root, _dirs, _files in os.walk(os.path.join(scratch, 'src')):
                            for _fn in _files:
                                try:
                                    os.utime(os.path.join(_root, _fn), (_now, _now))
                                except OSError:
                                    pass
                        rc = subprocess.run(['cargo', 'test', '--offline', '--lib', '--no-default-features', '--features',
                                             'serializer,xml,RfsmExpressionModel', h.get('replay_filter', 'verif_replay_cex'), '--', '--test-threads', '1'],
                                            cwd=scratch, env=env2, stdout=subprocess.PIPE, stderr=subprocess.STDOUT, text=True, timeout=900)
                    pm = re.search(r"panicked at [^\n]*:\n([^\n]*)", rc.stdout)
                    r['replay'] = dict(test_code=code, failed=('test result: FAILED' in rc.stdout),
                                       message=pm.group(1)[:500] if pm else None,
                                       ran='test result:' in rc.stdout, tail=rc.stdout[-800:])
            results += rs
        finally:
            shutil.rmtree(scratch, ignore_errors=True)
    kani_lock.close()
    return results


def run_for(pid, pc, tier, workdir, repo, seed, force=None):
    """-> list of extras dicts for the driver"""
    verif = os.path.dirname(os.path.dirname(os.path.abspath(__file__)))
    if not os.path.exists(os.path.join(verif, 'kani', 'registry.json')):
        return []
    hs = []
    for h in registry(verif):
        if pid not in h['properties']:
            continue
        if force and h['harness'] in force:
            hs.append(h)
            continue
        tiers = h.get('tiers', ['thorough'])
        if tier in tiers:
            hs.append(h)
    if not hs:
        return []
    res = run_harnesses(hs, repo, verif)
    extras = []
    for r in res:
        h = r['h']
        ob = h['obligation']
        e = dict(obligations={}, failed=[], undecided=[], bounded=[], trusted=[],
                 backend=dict(unit='kani:' + h['harness'], backend='kani 0.68 / cbmc 6.11', wall_s=round(r['wall'], 1),
                              verify_s=r.get('verify_s'), checks=r.get('checks'), cmd=r['cmd'].replace(os.path.join(verif, '.cache'), '<cache>'),
                              complete=bool(h.get('complete')), bound=h.get('bound')))
        kind = 'kani' if h.get('complete') else 'kani-bounded'
        if h.get('complete'):
            e['obligations'][ob] = dict(kind=kind, fn=h.get('function', h['harness']), text=h.get('claim', ''), serves=h['properties'],
                                        unit='kani', backend='kani/cbmc (complete: %s)' % h.get('bound', 'loop-free, full domain'))
        else:
            e['bounded'].append(dict(harness=h['harness'], bound=h.get('bound'), status=r['status'], claim=h.get('claim', '')))
        if r['status'] == 'failed':
            fl = dict(ob=ob, fn=h.get('function', h['harness']), kind=kind, message='Kani: ' + r['detail'], text=h.get('claim', ''),
                      serves=h['properties'], rendered=r['detail'], unit='kani')
            if r['replay'] and r['replay'].get('failed'):
                fl['cex'] = dict(kani_values=r['cex'], replay_test=r['replay']['test_code'], replay_message=r['replay']['message'])
            elif r['cex'] is not None:
                fl['cex_unconfirmed'] = r['cex']
            e['failed'].append(fl)
        elif r['status'] == 'undecided':
            e['undecided'].append('kani %s: %s' % (h['harness'], r['detail'][:600]))
        extras.append(e)
    return extras
