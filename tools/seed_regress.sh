#!/bin/bash
# re-runs ./check <ID> against every kept seeded change (scratch copies; /repo is not touched) and prints one line each;
# every line must say exit=1 (violation reported): exit=0 is a miss, exit=2 undecided
cd "$(dirname "$0")/.." || exit 2
for d in seeded/*/; do
  id=$(basename "$d"); pid=${id:0:3}
  SEED_SKIP_CONFIRM=1 python3 tools/seedcheck.py "$pid" "$PWD/$d" > /tmp/seedreg_$id.log 2>&1
  ex=$(python3 -c "import json,sys; r=json.load(open('$d/result.json')); print(r['checks']['quick']['exit'])" 2>/dev/null)
  first=$(python3 -c "import json,sys; r=json.load(open('$d/result.json')); l=[x for x in r['checks']['quick']['lines'] if x.startswith(('VIOLATION','UNDECIDED'))]; print(l[0][:150] if l else '')" 2>/dev/null)
  echo "$id exit=$ex $first"
done
