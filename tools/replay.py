"""replay - turn a failed obligation into a replay file and, where a replay test module is registered
for the obligation, run that module against the REAL code (scratch copy of /repo + cargo test) to look
for a concrete failing input.

The replay file always names the obligation and carries the verifier output. `found` is True only when a
test of the registered module fails on the real code (its panic message is the failing input).
"""
import fnmatch
import json
import os
import re
import shutil
import subprocess
import tempfile
import time

FEATURES = 'serializer,xml,RfsmExpressionModel'


def _registry(verif):
    with open(os.path.join(verif, 'replay_tests', 'registry.json')) as f:
        return json.load(f)['modules']


_RUN_CACHE = {}


def run_module(mod, repo, verif, timeout=3000):
    """memoised per process: one check never runs the same module twice on the same tree (a module that hangs on a
    changed tree costs its timeout once, not once per use)"""
    key = (mod.get('file'), mod.get('filter'), mod.get('features'), repo)
    if key not in _RUN_CACHE:
        _RUN_CACHE[key] = _run_module(mod, repo, verif, timeout)
    return _RUN_CACHE[key]


def _run_module(mod, repo, verif, timeout=3000):
    """append the test module to its target file in a scratch copy and run it.
    returns (ran: bool, failures: [(test, message)], log_tail)"""
    scratch = tempfile.mkdtemp(prefix='verif-replay-')
    try:
        subprocess.run(['rsync', '-a', '--exclude', 'target', '--exclude', '.git', repo.rstrip('/') + '/', scratch + '/'], check=True)
        with open(os.path.join(verif, 'replay_tests', mod['file'])) as f:
            text = f.read()
        tgt = os.path.join(scratch, mod['append_to'])
        with open(tgt, 'a') as f:
            f.write('\n' + text)
        env = dict(os.environ, CARGO_TARGET_DIR=os.path.join(verif, '.cache', 'target'), CARGO_NET_OFFLINE='true',
                   RUST_BACKTRACE='0')
        cmd = ['cargo', 'test', '--offline', '--lib', '--no-default-features', '--features', mod.get('features', FEATURES),
               mod['filter'], '--', '--test-threads', '4']
        # one cargo build+run at a time in the shared target directory: the test binary's name does not depend on
        # the scratch path, so a concurrent check could otherwise replace it between build and run
        import fcntl
        os.makedirs(os.path.join(verif, '.cache'), exist_ok=True)
        with open(os.path.join(verif, '.cache', 'cargo-test.lock'), 'w') as lk:
            fcntl.flock(lk, fcntl.LOCK_EX)
            # cargo decides freshness by mtime and the artifact name does not depend on the scratch path: stamp every
            # source of the crate now (after the lock), so that this scratch copy is always rebuilt and never mistaken
            # for the tree another check compiled a moment ago
            now = time.time()
            for root, _dirs, files in os.walk(os.path.join(scratch, 'src')):
                for fn in files:
                    try:
                        os.utime(os.path.join(root, fn), (now, now))
                    except OSError:
                        pass
            # address-space cap for cargo and the test binary: a test that observes a non-terminating evaluation leaves a
            # thread behind that may allocate without bound (seen: 25 GB in three minutes); the binary then dies instead of
            # taking the machine down, and the module counts as 'did not run'
            def _cap():
                import resource
                resource.setrlimit(resource.RLIMIT_AS, (24 << 30, 24 << 30))
            p = subprocess.run(cmd, cwd=scratch, env=env, stdout=subprocess.PIPE, stderr=subprocess.STDOUT, text=True, timeout=timeout, preexec_fn=_cap)
            out = p.stdout
            # the session tests are timing based (delays, worker threads): a test that fails is run once more on its own;
            # only a failure that repeats is reported (a defect in the code fails every time), a non-repeating one is
            # noted in the log as flaky.  Observed once in ~25 runs of one invoke test on the unchanged tree.
            first_failed = [t.split('::')[-1] for t in re.findall(r'^test (\S+) \.\.\. FAILED', out, re.M)]
            flaky = []
            for t in first_failed[:4]:
                cmd2 = [t if c == mod['filter'] else c for c in cmd]
                try:
                    p2 = subprocess.run(cmd2, cwd=scratch, env=env, stdout=subprocess.PIPE, stderr=subprocess.STDOUT, text=True, timeout=min(timeout, 900), preexec_fn=_cap)
                except Exception:  # noqa
                    continue
                if re.search(r'^test \S*%s \.\.\. ok' % re.escape(t), p2.stdout, re.M) and not re.search(r'^test \S+ \.\.\. FAILED', p2.stdout, re.M):
                    flaky.append(t)
            for t in flaky:
                out = re.sub(r'^(test \S*%s) \.\.\. FAILED' % re.escape(t), r'\1 ... ok', out, flags=re.M)
                out += '\nNOTE: replay test %s failed once and passed when re-run on its own (timing): not reported\n' % t
        if 'test result:' not in out:
            return False, [], out[-3000:]
        # the binary that ran must be the one built from this scratch copy: every registered test has to show up
        ran_tests = set(t.split('::')[-1] for t in re.findall(r'^test (\S+) \.\.\. (?:ok|FAILED)', out, re.M))
        missing = [t for t in mod.get('tests', {}) if t not in ran_tests]
        if missing or not ran_tests:
            return False, [], 'registered tests did not run: %s\n' % ', '.join(missing) + out[-2500:]
        # one entry per FAILED test: its own panic message (thread named after the test) and, when the test only
        # observed the damage (e.g. a session thread that died), the first panic of another thread as context
        panics = [(mm.group(1).split('::')[-1], mm.group(3).strip()[:600], mm.group(2))
                  for mm in re.finditer(r"thread '([^']+)'[^\n]*panicked at ([^\n]*):\n([^\n]*)", out)]
        failed_tests = [t.split('::')[-1] for t in re.findall(r'^test (\S+) \.\.\. FAILED', out, re.M)]
        fails = []
        for t in failed_tests:
            own = [p for p in panics if p[0] == t]
            other = [p for p in panics if p[0] not in failed_tests and p[0] not in ran_tests]
            if own:
                msg, at = own[-1][1], own[-1][2]
                if other and len(failed_tests) == 1:
                    msg += ' [thread %s: %s at %s]' % (other[0][0], other[0][1][:200], other[0][2])
            elif other:
                msg, at = other[0][1], other[0][2]
            else:
                msg, at = 'failed (no panic message captured)', ''
            fails.append((t, msg, at))
        return True, fails, out[-3000:]
    finally:
        shutil.rmtree(scratch, ignore_errors=True)


def make_replay(pid, v, workdir, repo, verif):
    os.makedirs(os.path.join(verif, 'replays'), exist_ok=True)
    safe = re.sub(r'[^A-Za-z0-9_.-]+', '_', v['ob'])[:120]
    path = os.path.join(verif, 'replays', '%s-%s.json' % (pid, safe))
    rec = dict(property=pid, obligation=v['ob'], function=v.get('fn'), unit=v.get('unit'), verdict=v['message'],
               clause=v.get('text'), verifier_output=v.get('rendered'), created=time.strftime('%Y-%m-%dT%H:%M:%S'),
               failing_input=None, replay_module=None)
    found = False
    if v.get('cex'):
        rec['failing_input'] = v['cex']
        found = True
    mods = [m for m in _registry(verif) if any(fnmatch.fnmatch(v['ob'], pat) for pat in m['obligations'])]
    if not found and os.environ.get('VERIF_NO_REPLAY') != '1':
        for m in mods:
            try:
                ran, fails, tail = run_module(m, repo, verif)
            except Exception as e:  # noqa
                ran, fails, tail = False, [], str(e)
            rec['replay_module'] = m['file']
            rec['replay_ran'] = ran
            if fails:
                rec['failing_input'] = [dict(test=t, message=msg, at=at) for (t, msg, at) in fails]
                found = True
                break
            rec['replay_log_tail'] = tail[-1500:]
    elif mods:
        rec['replay_module'] = mods[0]['file']
    rec['how_to_replay'] = './check replay %s' % path
    with open(path, 'w') as f:
        json.dump(rec, f, indent=1)
    return path, found


def run_replay(path, repo, verif):
    with open(path) as f:
        rec = json.load(f)
    print('obligation: %s (%s)' % (rec['obligation'], rec['verdict']))
    print(rec.get('verifier_output') or '')
    if not rec.get('replay_module'):
        print('no replay test module registered for this obligation; re-run ./check %s to re-verify' % rec['property'])
        return 0
    m = [x for x in _registry(verif) if x['file'] == rec['replay_module']][0]
    ran, fails, tail = run_module(m, repo, verif)
    if not ran:
        print('replay module did not build/run:\n' + tail)
        return 2
    for (t, msg, at) in fails:
        print('FAILING INPUT on real code: %s: %s (%s)' % (t, msg, at))
    if not fails:
        print('replay tests pass on the current tree')
    return 1 if fails else 0
