#!/bin/bash
# runs the thorough command of every claimed property (used to make sure none of them ends undecided on the unchanged tree)
cd "$(dirname "$0")/.." || exit 2
for p in C01 C02 C03 C05 C06 C07 C08 C09 C10 C11 C12 C14 C15 C16 C18 C19; do
  ./check $p --tier thorough > /tmp/th_$p.log 2>&1; echo "$p exit=$? $(tail -1 /tmp/th_$p.log)"
done
