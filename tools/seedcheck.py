#!/usr/bin/env python3
"""seedcheck <ID> [srcdir]  -- confirm a seeded change in a scratch copy of /repo, then run ./check <ID> against it.
srcdir (default /verif/seeded/<ID>) holds patch.diff, demo.rs, meta.json.  Nothing is committed to /repo:
the patch is applied with `git -C /repo apply`, the check runs, and `git -C /repo checkout -- .` undoes it."""
import json, os, re, shutil, subprocess, sys, tempfile, time

VERIF = os.path.dirname(os.path.dirname(os.path.abspath(__file__)))
REPO = '/repo'


def sh(cmd, cwd=None, env=None, timeout=3600):
    p = subprocess.run(cmd, cwd=cwd, env=env, shell=isinstance(cmd, str), stdout=subprocess.PIPE, stderr=subprocess.STDOUT, text=True, timeout=timeout)
    return p.returncode, p.stdout


def confirm(pid, d):
    meta = json.load(open(os.path.join(d, 'meta.json')))
    scratch = tempfile.mkdtemp(prefix='verif-seed-')
    env = dict(os.environ, CARGO_TARGET_DIR=os.path.join(VERIF, '.cache', 'target-tests'), CARGO_NET_OFFLINE='true', RUST_BACKTRACE='0')
    res = {}
    try:
        sh(['rsync', '-a', '--exclude', 'target', '--exclude', '.git', REPO + '/', scratch + '/'])
        sh(['git', 'init', '-q'], cwd=scratch)
        rc, out = sh(['git', 'apply', os.path.join(d, 'patch.diff')], cwd=scratch)
        res['applies'] = rc == 0
        if rc != 0:
            res['apply_log'] = out[-800:]
            return res
        rc, out = sh('cargo test --workspace --no-fail-fast --offline 2>&1', cwd=scratch, env=env)
        m = re.search(r'test result: (\w+)\. (\d+) passed; (\d+) failed', out)
        res['tests_with_patch'] = m.group(0) if m else out[-500:]
        res['tests_pass'] = bool(m and m.group(1) == 'ok' and int(m.group(2)) >= 57)
        demo = meta.get('demo', {})
        tgt = demo.get('append_to')
        flt = demo.get('filter', 'seeded_demo')
        if tgt and os.path.exists(os.path.join(d, 'demo.rs')):
            with open(os.path.join(scratch, tgt), 'a') as f:
                f.write('\n' + open(os.path.join(d, 'demo.rs')).read())
            rc, out = sh('cargo test --lib --offline %s -- --test-threads=1 2>&1' % flt, cwd=scratch, env=env)
            res['demo_on_patched'] = 'FAILED' if 'test result: FAILED' in out else ('ok' if 'test result: ok' in out else 'did not run: ' + out[-600:])
            pm = re.search(r"panicked at [^\n]*:\n([^\n]*)", out)
            res['demo_message'] = pm.group(1)[:300] if pm else None
            # revert the patch only (keep the demo)
            sh(['git', 'apply', '-R', os.path.join(d, 'patch.diff')], cwd=scratch)
            rc, out = sh('cargo test --lib --offline %s -- --test-threads=1 2>&1' % flt, cwd=scratch, env=env)
            res['demo_on_clean'] = 'FAILED' if 'test result: FAILED' in out else ('ok' if 'test result: ok' in out else 'did not run: ' + out[-600:])
        return res
    finally:
        shutil.rmtree(scratch, ignore_errors=True)


def run_checks(pid, d, tiers=('quick',)):
    """runs the registered check against a scratch copy of /repo with the patch applied (VERIF_REPO); the same result is
    obtained with `git -C /repo apply <patch>; ./check <ID>; git -C /repo checkout -- .` (the scratch copy keeps /repo
    free for other work)"""
    out = {}
    scratch = tempfile.mkdtemp(prefix='verif-seedrun-')
    try:
        sh(['rsync', '-a', '--exclude', 'target', '--exclude', '.git', REPO + '/', scratch + '/'])
        sh(['git', 'init', '-q'], cwd=scratch)
        rc, o = sh(['git', 'apply', os.path.join(d, 'patch.diff')], cwd=scratch)
        if rc != 0:
            return dict(error='patch does not apply: ' + o[-400:])
        env = dict(os.environ, VERIF_REPO=scratch, VERIF_EVIDENCE_DIR=os.path.join(scratch, '.verif-evidence'))
        for tier in tiers:
            t0 = time.time()
            rc, o = sh([os.path.join(VERIF, 'check'), pid, '--tier', tier], cwd=VERIF, env=env, timeout=7200)
            lines = [l for l in o.split('\n') if l.startswith(('VIOLATION', 'UNDECIDED', 'KNOWN-FINDING', 'NOTE', '  obligation')) or re.match(r'C\d\d (quick|thorough):', l)]
            out[tier] = dict(exit=rc, wall_s=round(time.time() - t0, 1), lines=[l[:400] for l in lines][:12])
    finally:
        shutil.rmtree(scratch, ignore_errors=True)
    return out


if __name__ == '__main__':
    pid = sys.argv[1]
    d = sys.argv[2] if len(sys.argv) > 2 else os.path.join(VERIF, 'seeded', pid)
    tiers = tuple(os.environ.get('SEED_TIERS', 'quick').split(','))
    r = dict(property=pid)
    if os.environ.get('SEED_SKIP_CONFIRM') != '1':
        r['confirm'] = confirm(pid, d)
    else:
        try:
            r['confirm'] = json.load(open(os.path.join(d, 'result.json'))).get('confirm')
        except (OSError, ValueError):
            pass
    r['checks'] = run_checks(pid, d, tiers)
    print(json.dumps(r, indent=1))
    with open(os.path.join(d, 'result.json'), 'w') as f:
        json.dump(r, f, indent=1)
