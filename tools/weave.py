"""weave - cut real functions out of /repo sources and insert contract clauses.

Input : unit directory (unit.json, prelude*.rs, spec*.rs, *.vc), repo root.
Output: generated Verus file text + obligation map (byte spans -> obligation names)
        + log of every rewrite applied (goes into the evidence).

The executable text is copied verbatim from the repo except for the rewrite rules
documented in DESIGN.md section 3.2; every application is logged.
"""
import json
import os
import re
import hashlib

from rsx import Source, LostAnchor, match_brace, code_mask, find_code


class Unsupported(Exception):
    """Construct outside the supported subset (-> exit 2, never an alarm)."""


LOG_MACROS = ('error', 'warn', 'info', 'debug', 'println', 'eprintln', 'print', 'trace')
DROP_FEATURES = ('Trace_Method', 'Trace_State', 'Trace_Event', 'Trace', 'Debug', 'Debug_Reader',
                 'Debug_Serializer', 'TraceServer', 'EnvLog')
# calls allowed inside deleted log statements (R2): pure accessors / formatting only
PURE_CALLS = {'as_str', 'len', 'to_string', 'format', 'get_name', 'name', 'clone', 'size', 'display', 'unwrap',
              'as_ref', 'iter', 'join', 'vec_to_string', 'optional_to_string', 'is_empty', 'get', 'state_id_to_name',
              'elapsed', 'as_millis', 'duration_since', 'get_state_by_id', 'lock', 'deref', 'borrow',
              'to_str', 'get_type', 'type_name', 'is_some', 'is_none', 'data_arc_to_string', 'fmt', 'Some',
              'str', 'as_bytes', 'get_copy', 'id', 'type_id', 'from_ordinal', 'ordinal', 'get_session_id'}


# ------------------------------------------------------------------------------------------
# contract files
# ------------------------------------------------------------------------------------------
class Contract:
    def __init__(self, vcfile):
        self.vcfile = vcfile
        self.file = None
        self.path = None
        self.result = None
        self.clauses = []      # (kind, label, expr)  kind in requires|ensures|decreases
        self.loops = {}        # k -> dict(inv=[(label, expr)], dec=expr|None, iter=name|None, ens=[...])
        self.hints = []        # (anchor, label|None, text, is_obligation)
        self.rewrites = []     # (rule, count, old, new)
        self.prerewrites = []  # same, applied before the generic rules
        self.closures = []     # (ordinal, new header): R13 by closure ordinal
        self.attrs = []
        self.serves = None
        self.mode = 'exec'
        self.no_reach = False
        self.cex = []          # (kind, spec)
        self.notes = []

    @property
    def fn_name(self):
        return self.path[-1].split(' ', 1)[1]


def _parse_quoted(s):
    """parse  'old' => 'new'  with ' or ` or ''' delimiters (no escapes)."""
    mm = re.match(r"\s*(`{1,3}|'{1,3})(.*?)\1\s*=>\s*(`{1,3}|'{1,3})(.*?)\3\s*$", s, re.S)
    if not mm:
        raise Unsupported("bad @rewrite syntax: %r" % s[:80])
    return mm.group(2), mm.group(4)


def _split_anchor(rest):
    """'<anchor>: <text>' where the anchor may contain a quoted needle with ':' inside"""
    mm = re.match(r"(.*?\b(?:before|after|wrap|block_end)\s+\d+\s+(`{1,3}|'{1,3}).*?\2)\s*:(.*)$", rest, re.S)
    if mm:
        return mm.group(1), mm.group(3)
    a, _, t = rest.partition(':')
    return a, t


def parse_vc(path):
    """A .vc file holds one or more contracts, each starting with an @fn line."""
    contracts = []
    cur = None
    directives = []
    with open(path) as f:
        lines = f.read().split('\n')
    buf = None
    for ln in lines:
        if ln.startswith('#'):
            continue
        if ln.startswith('@'):
            if buf is not None:
                directives.append(buf)
            buf = ln
        else:
            if buf is not None:
                buf += '\n' + ln
    if buf is not None:
        directives.append(buf)
    for d in directives:
        d = d.rstrip()
        head, _, rest = d.partition(' ')
        rest = rest.strip('\n')
        if head == '@fn':
            cur = Contract(path)
            parts = [p.strip() for p in rest.split('::')]
            cur.file = parts[0]
            cur.path = parts[1:]
            contracts.append(cur)
            continue
        if cur is None:
            raise Unsupported("%s: directive before @fn" % path)
        if head == '@result':
            cur.result = rest.strip()
        elif head in ('@requires', '@ensures'):
            label, _, expr = rest.partition(':')
            cur.clauses.append((head[1:], label.strip(), expr.strip()))
        elif head == '@decreases':
            cur.clauses.append(('decreases', 'decreases', rest.strip()))
        elif head == '@loop':
            mm = re.match(r'(\d+)\s+(invariant_except_break|invariant|decreases|iter|ensures)\s*(.*)$', rest, re.S)
            if not mm:
                raise Unsupported("%s: bad @loop: %s" % (path, rest[:60]))
            k = int(mm.group(1))
            L = cur.loops.setdefault(k, dict(inv=[], dec=None, iter=None, ens=[], ieb=[]))
            what, arg = mm.group(2), mm.group(3)
            if what == 'invariant':
                label, _, expr = arg.partition(':')
                L['inv'].append((label.strip(), expr.strip()))
            elif what == 'invariant_except_break':
                label, _, expr = arg.partition(':')
                L['ieb'].append((label.strip(), expr.strip()))
            elif what == 'ensures':
                label, _, expr = arg.partition(':')
                L['ens'].append((label.strip(), expr.strip()))
            elif what == 'decreases':
                L['dec'] = arg.strip()
            else:
                L['iter'] = arg.strip()
        elif head == '@ghost':
            anchor, text = _split_anchor(rest)
            cur.hints.append((anchor.strip(), '__raw__', text.strip('\n'), False))
        elif head == '@assume':
            # @assume <label> @ <anchor>: expr   -- an INPUT-DOMAIN assumption (never a proof step): listed in the
            # evidence under trusted_base / assumptions; the text after `//` on the same line is the stated reason
            anchor, text = _split_anchor(rest)
            label, _, anchor = anchor.partition('@')
            expr, _, reason = text.partition(' // ')
            cur.hints.append((anchor.strip(), '__raw__', 'proof { assume(%s); /* verif-domain-assumption %s: %s */ }' % (expr.strip(), label.strip(), ' '.join(reason.split())), False))
        elif head in ('@hint', '@assert'):
            anchor, text = _split_anchor(rest)
            label = None
            if head == '@assert':
                # @assert <label> @ <anchor>: expr
                label, _, anchor = anchor.partition('@')
                label = label.strip()
                text = 'assert(%s);' % text.strip()
            cur.hints.append((anchor.strip(), label, text.strip('\n'), head == '@assert'))
        elif head == '@closure':
            mm = re.match(r'(\d+)\s*:\s*(.*)$', rest, re.S)
            if not mm:
                raise Unsupported("%s: bad @closure" % path)
            cur.closures.append((int(mm.group(1)), mm.group(2).strip()))
        elif head == '@prerewrite':
            mm = re.match(r'(\S+)\s+(\d+)\s+(.*)$', rest, re.S)
            old, new = _parse_quoted(mm.group(3))
            cur.prerewrites.append((mm.group(1), int(mm.group(2)), old, new))
        elif head == '@rewrite':
            mm = re.match(r'(\S+)\s+(\d+)\s+(.*)$', rest, re.S)
            if not mm:
                raise Unsupported("%s: bad @rewrite" % path)
            old, new = _parse_quoted(mm.group(3))
            cur.rewrites.append((mm.group(1), int(mm.group(2)), old, new))
        elif head == '@attr':
            cur.attrs.append(rest.strip())
        elif head == '@serves':
            cur.serves = rest.split()
        elif head == '@mode':
            cur.mode = rest.strip()
        elif head == '@noreach':
            cur.no_reach = True
        elif head == '@cex':
            kind, _, spec = rest.partition(' ')
            cur.cex.append((kind, spec.strip()))
        elif head == '@note':
            cur.notes.append(rest.strip())
        else:
            raise Unsupported("%s: unknown directive %s" % (path, head))
    return contracts


# ------------------------------------------------------------------------------------------
# generic rewrite rules on a function's text
# ------------------------------------------------------------------------------------------
def _stmt_end(src, mask, i, limit):
    """i is at the first char of a statement (after attributes); return the offset just past it."""
    # skip leading whitespace
    while i < limit and src[i].isspace():
        i += 1
    start = i
    block_like = re.match(r'(if|match|for|while|loop|unsafe|\{)\b|\{', src[i:i + 8]) is not None
    depth = 0
    j = i
    while j < limit:
        if mask[j]:
            c = src[j]
            if c in '([{':
                depth += 1
            elif c in ')]}':
                depth -= 1
                if depth < 0:
                    return j  # end of enclosing block: statement without ';' (tail expression)
                if depth == 0 and c == '}' and block_like:
                    # block statement ends here unless followed by else
                    k = j + 1
                    while k < limit and src[k].isspace():
                        k += 1
                    if src.startswith('else', k):
                        j = k + 4
                        continue
                    if k < limit and src[k] == ';':
                        return k + 1
                    return j + 1
            elif c == ';' and depth == 0:
                return j + 1
            elif c == ',' and depth == 0 and False:
                return j + 1
        j += 1
    return limit


def _calls_in(text):
    mask = code_mask(text)
    names = set()
    for mm in re.finditer(r'(\w+)\s*(!?)\s*\(', text):
        if mask[mm.start()]:
            names.add(mm.group(1) + ('!' if mm.group(2) else ''))
    return names


def rule_R1_R2(text, log, fn_name, features_on):
    """R1: delete statements under #[cfg(feature = "<tracing/debug feature>")].
       R10: resolve #[cfg(feature = "...")] statically for configured features.
       R2: delete statement-level log macros."""
    changed = True
    while changed:
        changed = False
        mask = code_mask(text)
        # attributes: masks mark the string literal as non-code, so match the prefix and read the string
        for mm in find_code(text, mask, r'#\[cfg\('):
            close = match_brace(text, mask, mm.start() + 1)
            attr = text[mm.start():close + 1]
            am = re.match(r'#\[cfg\(\s*(not\(\s*)?feature\s*=\s*"([^"]+)"\s*\)?\s*\)\]$', attr)
            if not am:
                raise Unsupported("%s: cfg attribute not understood: %s" % (fn_name, attr))
            negated, feat = bool(am.group(1)), am.group(2)
            if feat in DROP_FEATURES:
                on = False
            elif feat in features_on:
                on = features_on[feat]
            else:
                raise Unsupported("%s: feature '%s' has no configured value in this unit" % (fn_name, feat))
            keep = on != negated
            end = _stmt_end(text, mask, close + 1, len(text))
            if keep:
                log.append(dict(rule='R10', fn=fn_name, what='resolved %s as enabled' % attr))
                text = text[:mm.start()] + text[close + 1:]
            else:
                rule = 'R1' if feat in DROP_FEATURES else 'R10'
                dropped = text[mm.start():end]
                if rule == 'R1':
                    _check_pure(dropped, fn_name, allow_tracer=True)
                log.append(dict(rule=rule, fn=fn_name, what='deleted: ' + ' '.join(dropped.split())[:160]))
                text = text[:mm.start()] + text[end:]
            changed = True
            break
    # R2
    changed = True
    while changed:
        changed = False
        mask = code_mask(text)
        for mm in find_code(text, mask, r'\b(%s)!\s*\(' % '|'.join(LOG_MACROS)):
            # statement-level only: previous code char must be one of ; { } or start
            k = mm.start() - 1
            while k >= 0 and (text[k].isspace() or not mask[k]):
                k -= 1
            if k >= 0 and text[k] not in ';{}':
                if text[k] == '>' and text[k - 1] == '=':
                    # match arm `=> error!(...)` : replace the macro by ()
                    close = match_brace(text, mask, mm.end() - 1)
                    _check_pure(text[mm.end():close], fn_name)
                    log.append(dict(rule='R2', fn=fn_name, what='arm -> (): ' + ' '.join(text[mm.start():close + 1].split())[:120]))
                    text = text[:mm.start()] + '()' + text[close + 1:]
                    changed = True
                    break
                continue
            close = match_brace(text, mask, mm.end() - 1)
            end = close + 1
            k2 = end
            while k2 < len(text) and text[k2].isspace():
                k2 += 1
            if k2 < len(text) and text[k2] == ';':
                end = k2 + 1
            _check_pure(text[mm.end():close], fn_name)
            log.append(dict(rule='R2', fn=fn_name, what='deleted: ' + ' '.join(text[mm.start():end].split())[:120]))
            text = text[:mm.start()] + text[end:]
            changed = True
            break
    return text


def _check_pure(args, fn_name, allow_tracer=False):
    for c in _calls_in(args):
        base = c.rstrip('!')
        if base in PURE_CALLS or c in ('format!', 'vec!'):
            continue
        if allow_tracer:
            continue
        raise Unsupported("%s: R2: call '%s' in deleted log statement is not on the pure-call list" % (fn_name, c))


def rule_R4(text, log, fn_name):
    """format!(…) -> verif_format()"""
    while True:
        mask = code_mask(text)
        mm = next(find_code(text, mask, r'\bformat!\s*\('), None)
        if not mm:
            return text
        close = match_brace(text, mask, mm.end() - 1)
        _check_pure(text[mm.end():close], fn_name)
        log.append(dict(rule='R4', fn=fn_name, what=' '.join(text[mm.start():close + 1].split())[:120]))
        text = text[:mm.start()] + 'verif_format()' + text[close + 1:]


def find_closures(text):
    """closure literals in textual order: (start, body_start, body_end, body_is_block)"""
    mask = code_mask(text)
    res = []
    i = 0
    n = len(text)
    while i < n:
        if mask[i] and text[i] == '|' and not (i + 1 < n and text[i + 1] == '|' and False):
            # closure start: previous significant char is one of ( , & = { ; or keyword move / return
            k = i - 1
            while k >= 0 and text[k].isspace():
                k -= 1
            prev = text[k] if k >= 0 else ''
            prevword = re.search(r'(\w+)\s*$', text[:i])
            starts = prev in '(,&={;' or (prevword and prevword.group(1) in ('move', 'return'))
            if text[i:i + 2] == '||' and starts:
                pe = i + 1  # no parameters
            elif starts:
                pe = text.find('|', i + 1)
                while pe >= 0 and not mask[pe]:
                    pe = text.find('|', pe + 1)
            else:
                pe = -1
            if pe < 0:
                i += 1
                continue
            j = pe + 1
            while j < n and text[j].isspace():
                j += 1
            if text.startswith('->', j):
                # return type up to the opening brace
                b = text.find('{', j)
                if b < 0:
                    i = pe + 1
                    continue
                close = match_brace(text, mask, b)
                res.append((i, b, close + 1, True))
                i = close + 1
                continue
            if j < n and text[j] == '{':
                close = match_brace(text, mask, j)
                res.append((i, j, close + 1, True))
                i = close + 1
                continue
            # expression body: up to the first depth-0 ',' or closing bracket
            d = 0
            e = j
            while e < n:
                if mask[e]:
                    c = text[e]
                    if c in '([{':
                        d += 1
                    elif c in ')]}':
                        if d == 0:
                            break
                        d -= 1
                    elif c in ',;' and d == 0:
                        break
                e += 1
            res.append((i, j, e, False))
            i = e
            continue
        i += 1
    return res


# ------------------------------------------------------------------------------------------
# weaving one function
# ------------------------------------------------------------------------------------------
class Piece:
    """text segment with an optional obligation tag"""
    __slots__ = ('text', 'tag')

    def __init__(self, text, tag=None):
        self.text = text
        self.tag = tag


def weave_fn(fn_text, contract, unit, log, features_on, in_trait_impl=False, reach=False, has_body=True, type_args=None):
    """Return list[Piece] for one function."""
    name = contract.fn_name if contract else re.search(r'\bfn\s+(\w+)', fn_text).group(1)
    qual = '%s.%s' % (unit, name)
    text = fn_text
    if contract:
        for (rule, count, old, new) in contract.prerewrites:
            n = text.count(old)
            if n != count:
                raise LostAnchor("%s: @prerewrite %s expects %d occurrence(s) of %r, found %d" % (name, rule, count, old, n))
            text = text.replace(old, new)
            log.append(dict(rule=rule, fn=name, what='%r => %r (x%d)' % (old, new, count)))
    text = rule_R1_R2(text, log, name, features_on)
    text = rule_R4(text, log, name)
    if contract:
        for (rule, count, old, new) in contract.rewrites:
            n = text.count(old)
            if n != count:
                raise LostAnchor("%s: @rewrite %s expects %d occurrence(s) of %r, found %d" % (name, rule, count, old, n))
            text = text.replace(old, new)
            log.append(dict(rule=rule, fn=name, what='%r => %r (x%d)' % (old, new, count)))
    # R13 by ordinal: the k-th closure literal of the function gets the given header; an expression body is wrapped in a block
    if contract and contract.closures:
        for (k, hdr) in sorted(contract.closures, reverse=True):
            cl = find_closures(text)
            if k < 1 or k > len(cl):
                raise LostAnchor("%s: closure %d not found (function has %d closure literals)" % (name, k, len(cl)))
            (cs, body_s, body_e, is_block) = cl[k - 1]
            body = text[body_s:body_e]
            new = hdr + ' ' + (body if is_block else '{ ' + body.strip() + ' }')
            log.append(dict(rule='R13', fn=name, what='closure %d header: %s' % (k, ' '.join(hdr.split())[:120])))
            text = text[:cs] + new + text[body_e:]
    # R23: constructor calls get an explicit type argument (the verified file has one impl per instance, the source one
    # generic impl, so `List::new()` would be ambiguous); a contract's @rewrite may pick a non-default instance first
    for tyname, targs in (type_args or {}).items():
        n23 = len(re.findall(r'\b%s::new\(\)' % tyname, text))
        if n23:
            text = re.sub(r'\b%s::new\(\)' % tyname, '%s::<%s>::new()' % (tyname, targs), text)
            log.append(dict(rule='R23', fn=name, what='%s::new() -> %s::<%s>::new() (x%d)' % (tyname, tyname, targs, n23)))
    # R6: `&dyn Fn(A) -> B` parameters become a generic `&F` (static instead of dynamic dispatch of the same closure)
    k6 = 0
    while True:
        m6 = re.search(r'(\w+)\s*:\s*&dyn\s+(Fn(?:Mut)?\([^)]*\)\s*->\s*[\w:]+)', text[:text.find('{') if '{' in text else len(text)])
        if not m6:
            break
        gname = 'FDyn%d' % k6
        k6 += 1
        bound = m6.group(2)
        text = text[:m6.start()] + '%s: &%s' % (m6.group(1), gname) + text[m6.end():]
        fm6 = re.search(r'\bfn\s+\w+\s*(<)?', text)
        if fm6.group(1):
            text = text[:fm6.end()] + '%s: %s, ' % (gname, bound) + text[fm6.end():]
        else:
            text = text[:fm6.end()] + '<%s: %s>' % (gname, bound) + text[fm6.end():]
        log.append(dict(rule='R6', fn=name, what='&dyn %s -> generic &%s' % (bound, gname)))
    # R22: `for x in <call chain>.data.iter() {` -> `let verif_tmpK = <call chain>; for x in verif_tmpK.data.iter() {`
    # (Verus' for-loop expansion drops the temporary too early; rustc keeps it alive for the whole loop)
    k22 = 0
    while True:
        src22 = Source(name, text)
        bo = text.find('{')
        if bo < 0:
            break
        done = True
        for (kw_start, lopen, lclose, kw) in src22.loops(bo + 1, match_brace(text, src22.mask, bo)):
            if kw != 'for':
                continue
            im = None
            for mm in re.finditer(r'\bin\b', text[kw_start:lopen]):
                if src22.mask[kw_start + mm.start()]:
                    im = mm
                    break
            if not im:
                continue
            es = kw_start + im.end()
            expr = text[es:lopen]
            em = re.match(r'^(\s*)(.*?)\.data\.iter\(\)\s*$', expr, re.S)
            if em and '(' in em.group(2) and not em.group(2).strip().startswith('verif_tmp'):
                tmp = 'verif_tmp%d' % k22
                k22 += 1
                lm = re.search(r"'\w+\s*:\s*$", text[:kw_start])
                ins_at = lm.start() if lm else kw_start
                text = (text[:ins_at] + 'let %s = &%s;\n' % (tmp, em.group(2).strip()) + text[ins_at:es] + ' ' + tmp + '.data.iter() ' + text[lopen:])
                log.append(dict(rule='R22', fn=name, what='iterated temporary bound to %s: %s' % (tmp, ' '.join(em.group(2).split())[:100])))
                done = False
                break
        if done:
            break
    mask = code_mask(text)
    # header end
    depth = 0
    j = text.index('fn ')
    hdr_end = None
    while j < len(text):
        if mask[j]:
            c = text[j]
            if c in '([':
                depth += 1
            elif c in ')]':
                depth -= 1
            elif depth == 0 and c in '{;':
                hdr_end = j
                break
        j += 1
    if hdr_end is None:
        raise LostAnchor("%s: no body" % name)
    header = text[:hdr_end]
    body = text[hdr_end:]
    body_is_decl = body.startswith(';')
    inserts = []  # (offset in text, seq, [Piece])
    seq = [0]

    def ins(off, pieces):
        seq[0] += 1
        inserts.append((off, seq[0], pieces))

    # R8 result binder
    if contract and contract.result:
        hm = code_mask(header)
        fm8 = re.search(r'\bfn\s+\w+', header)
        k = fm8.end()
        # skip generics
        while k < len(header) and header[k].isspace():
            k += 1
        if k < len(header) and header[k] == '<':
            d = 0
            while k < len(header):
                if hm[k]:
                    if header[k] == '<':
                        d += 1
                    elif header[k] == '>' and header[k - 1] != '-':
                        d -= 1
                        if d == 0:
                            k += 1
                            break
                k += 1
        while k < len(header) and header[k] != '(':
            k += 1
        close = match_brace(header, hm, k)
        am = re.match(r'\s*->', header[close + 1:])
        if not am:
            raise LostAnchor("%s: @result but no return type" % name)
        pos = close + 1 + am.end() - 2
        rt_end = len(header)
        wm = re.search(r'\bwhere\b', header[pos:])
        if wm:
            rt_end = pos + wm.start()
        rt = header[pos + 2:rt_end].strip()
        header = header[:pos] + '-> (%s: %s)' % (contract.result, rt) + ('\n' + header[rt_end:] if wm else ' ')
        log.append(dict(rule='R8', fn=name, what='result binder %s' % contract.result))
        text = header + body
        hdr_end = len(header)
        mask = code_mask(text)

    pieces_after_header = []
    if contract:
        for a in contract.attrs:
            pass
        groups = {'requires': [], 'ensures': [], 'decreases': []}
        for (kind, label, expr) in contract.clauses:
            groups[kind].append((label, expr))
        for kind in ('requires', 'ensures', 'decreases'):
            if not groups[kind]:
                continue
            if kind == 'requires' and in_trait_impl:
                raise Unsupported("%s: requires on a trait impl method (put it on the trait)" % name)
            pieces_after_header.append(Piece('\n    %s\n' % kind))
            for (label, expr) in groups[kind]:
                tag = None if kind == 'requires' else dict(ob='%s.%s' % (qual, label), kind=kind, fn=name, text=expr)
                if kind == 'requires':
                    tag = dict(req='%s.%s' % (qual, label), kind=kind, fn=name, text=expr)
                pieces_after_header.append(Piece('        '))
                pieces_after_header.append(Piece(expr, tag))
                pieces_after_header.append(Piece(',\n'))
    if pieces_after_header:
        ins(hdr_end, pieces_after_header)

    if not body_is_decl:
        body_open = hdr_end
        body_close = match_brace(text, mask, body_open)
        src = Source(name, text)
        loops = src.loops(body_open + 1, body_close)
        if reach:
            ins(body_open + 1, [Piece(' '), Piece('assert(false);', dict(reach=qual, fn=name)), Piece(' ')])
        if contract:
            for k, L in sorted(contract.loops.items()):
                if k < 1 or k > len(loops):
                    raise LostAnchor("%s: loop %d not found (function has %d loops)" % (name, k, len(loops)))
                (kw_start, lopen, lclose, kw) = loops[k - 1]
                if L['iter']:
                    if kw != 'for':
                        raise LostAnchor("%s: loop %d is not a for loop" % (name, k))
                    mm = re.compile(r'\bin\b').search(text, kw_start, lopen)
                    while mm and not mask[mm.start()]:
                        mm = re.compile(r'\bin\b').search(text, mm.end(), lopen)
                    if not mm:
                        raise LostAnchor("%s: loop %d: no 'in'" % (name, k))
                    ins(mm.end(), [Piece(' %s:' % L['iter'])])
                ps = []
                if L['ieb']:
                    ps.append(Piece('\n        invariant_except_break\n'))
                    for (label, expr) in L['ieb']:
                        ps += [Piece('            '), Piece(expr, dict(ob='%s.loop%d.%s' % (qual, k, label), kind='invariant', fn=name, text=expr)), Piece(',\n')]
                if L['inv']:
                    ps.append(Piece('\n        invariant\n'))
                    for (label, expr) in L['inv']:
                        ps += [Piece('            '), Piece(expr, dict(ob='%s.loop%d.%s' % (qual, k, label), kind='invariant', fn=name, text=expr)), Piece(',\n')]
                if L['ens']:
                    ps.append(Piece('\n        ensures\n'))
                    for (label, expr) in L['ens']:
                        ps += [Piece('            '), Piece(expr, dict(ob='%s.loop%d.%s' % (qual, k, label), kind='loop_ensures', fn=name, text=expr)), Piece(',\n')]
                if L['dec']:
                    ps += [Piece('        decreases '), Piece(L['dec'], dict(ob='%s.loop%d.decreases' % (qual, k), kind='decreases', fn=name, text=L['dec'])), Piece('\n    ')]
                if ps:
                    ins(lopen, ps)
            hn = 0
            for (anchor, label, htext, is_ob) in contract.hints:
                hn += 1
                wm = re.match(r"wrap\s+(\d+)\s+(`{1,3}|'{1,3})(.*?)\2$", anchor.strip(), re.S)
                if wm:
                    # R17: a brace-less match-arm expression `=> match X { .. }` is wrapped into a block so that a
                    # proof block can precede it: `=> { proof {..} match X { .. } }`
                    n, needle = int(wm.group(1)), wm.group(3)
                    if not needle.rstrip().endswith('{'):
                        raise Unsupported("%s: wrap anchor must end with '{'" % name)
                    pos, st = -1, body_open
                    for _ in range(n):
                        pos = text.find(needle, st)
                        if pos < 0 or pos > body_close:
                            raise LostAnchor("%s: wrap anchor %r (occurrence %d) not found" % (name, needle, n))
                        st = pos + 1
                    ob_ = pos + len(needle.rstrip()) - 1
                    cl_ = match_brace(text, mask, ob_)
                    tag = dict(ob='%s.hint%d' % (qual, hn), kind='hint', fn=name, text=htext)
                    ins(pos, [Piece('{\nproof { '), Piece(htext, tag), Piece(' }\n')])
                    ins(cl_ + 1, [Piece(' }')])
                    log.append(dict(rule='R17', fn=name, what='arm expression wrapped in a block: ' + needle[:60]))
                    continue
                off = _anchor_offset(anchor, text, mask, body_open, body_close, loops, name)
                if label == '__raw__':
                    ins(off, [Piece('\n' + htext + '\n')])
                    continue
                lab = label if label else 'hint%d' % hn
                tag = dict(ob='%s.%s' % (qual, lab), kind='assert' if is_ob else 'hint', fn=name, text=htext)
                if is_ob:
                    ins(off, [Piece('\n'), Piece(htext, tag), Piece('\n')])
                else:
                    ins(off, [Piece('\nproof { '), Piece(htext, tag), Piece(' }\n')])
    # apply inserts
    inserts.sort(key=lambda t: (t[0], t[1]))
    out = []
    last = 0
    for (off, _, ps) in inserts:
        out.append(Piece(text[last:off]))
        out.extend(ps)
        last = off
    out.append(Piece(text[last:]))
    pre = []
    if contract:
        for a in contract.attrs:
            pre.append(Piece(a + '\n'))
    return pre + out


def _anchor_offset(anchor, text, mask, body_open, body_close, loops, name):
    a = anchor.strip()
    if a == 'start':
        return body_open + 1
    if a == 'end':
        return body_close
    mm = re.match(r'loop\s+(\d+)\s+(before|body_start|body_end|after)$', a)
    if mm:
        k = int(mm.group(1))
        if k < 1 or k > len(loops):
            raise LostAnchor("%s: hint anchor loop %d not found" % (name, k))
        (kw_start, lopen, lclose, kw) = loops[k - 1]
        w = mm.group(2)
        if w == 'before':
            # include a loop label  'x:
            lm = re.search(r"'\w+\s*:\s*$", text[:kw_start])
            return lm.start() if lm else kw_start
        if w == 'body_start':
            return lopen + 1
        if w == 'body_end':
            return lclose
        return lclose + 1
    mm = re.match(r"(before|after)\s+(\d+)\s+(`{1,3}|'{1,3})(.*?)\3$", a, re.S)
    if mm:
        which, n, needle = mm.group(1), int(mm.group(2)), mm.group(4)
        pos = -1
        start = body_open
        for _ in range(n):
            pos = text.find(needle, start)
            if pos < 0 or pos > body_close:
                raise LostAnchor("%s: hint anchor text %r (occurrence %d) not found" % (name, needle, n))
            start = pos + 1
        return pos if which == 'before' else pos + len(needle)
    # block_end n `text`: just before the closing brace of the innermost `{..}` block that contains the n-th occurrence
    # of the text (robust against edits of the statements that follow the text inside that block)
    mm = re.match(r"block_end\s+(\d+)\s+(`{1,3}|'{1,3})(.*?)\2$", a, re.S)
    if mm:
        n, needle = int(mm.group(1)), mm.group(3)
        pos = -1
        start = body_open
        for _ in range(n):
            pos = text.find(needle, start)
            if pos < 0 or pos > body_close:
                raise LostAnchor("%s: hint anchor text %r (occurrence %d) not found" % (name, needle, n))
            start = pos + 1
        depth = 0
        j = pos + len(needle)
        while j <= body_close:
            if mask[j]:
                c = text[j]
                if c == '{':
                    depth += 1
                elif c == '}':
                    if depth == 0:
                        return j
                    depth -= 1
            j += 1
        raise LostAnchor("%s: no enclosing block end after %r" % (name, needle))
    raise Unsupported("%s: bad hint anchor %r" % (name, anchor))


# ------------------------------------------------------------------------------------------
# unit assembly
# ------------------------------------------------------------------------------------------
class Generated:
    def __init__(self):
        self.pieces = []
        self.log = []
        self.functions = []      # dict(name, file, path, sha256, contract(bool), serves)
        self.fn_spans = []       # (start_byte, end_byte, fn name, serves)
        self.obligations = {}    # name -> dict
        self.text = None
        self.tags = []           # (start_byte, end_byte, tag)
        self.section_spans = {}  # 'prelude'|'spec'|'extracted' -> (start,end)

    def finish(self):
        off = 0
        chunks = []
        for p in self.pieces:
            b = p.text.encode('utf-8')
            if p.tag is not None:
                self.tags.append((off, off + len(b), p.tag))
            chunks.append(p.text)
            off += len(b)
        self.text = ''.join(chunks)


def load_sources(repo, cache, rel):
    if rel not in cache:
        p = os.path.join(repo, rel)
        if not os.path.exists(p):
            raise LostAnchor("source file %s not found" % rel)
        with open(p, encoding='utf-8') as f:
            cache[rel] = Source(rel, f.read())
    return cache[rel]


def build_unit(unit_dir, repo, reach=False):
    with open(os.path.join(unit_dir, 'unit.json')) as f:
        U = json.load(f)
    unit = U['unit']
    features_on = U.get('features', {})
    contracts = {}
    for fn in sorted(os.listdir(unit_dir)):
        if fn.endswith('.vc'):
            for c in parse_vc(os.path.join(unit_dir, fn)):
                key = (c.file, tuple(c.path))
                if key in contracts:
                    raise Unsupported("duplicate contract for %s" % (key,))
                contracts[key] = c
    included = set()
    for rel in U.get('vc_include', []):
        # contracts shared with another unit: only those whose function is extracted here are used
        for c in parse_vc(os.path.join(unit_dir, rel)):
            key = (c.file, tuple(c.path))
            if key in contracts:
                raise Unsupported("duplicate contract for %s" % (key,))
            contracts[key] = c
            included.add(key)
    used = set()
    G = Generated()
    G.unit = unit
    G.serves = U['serves']
    srcs = {}
    P = G.pieces
    P.append(Piece(U.get('file_header', '#![allow(unused_imports, unused_variables, unused_mut, unused_assignments, dead_code, non_snake_case, unused_parens, unused_braces, non_camel_case_types, non_upper_case_globals)]\n')))
    P.append(Piece('use vstd::prelude::*;\n'))
    for u in U.get('uses', []):
        P.append(Piece(u + '\n'))
    P.append(Piece('verus! {\n'))

    def mark(section, fn):
        start = sum(len(p.text.encode()) for p in P)
        fn()
        end = sum(len(p.text.encode()) for p in P)
        G.section_spans.setdefault(section, []).append((start, end))

    def add_file(section, rel):
        with open(os.path.join(unit_dir, rel)) as f:
            t = f.read()
        mark(section, lambda: P.append(Piece('\n// ===== %s: %s =====\n%s\n' % (section, rel, t))))

    for rel in U.get('prelude', []):
        add_file('prelude', rel)
    if U.get('broadcast_use'):
        mark('prelude', lambda: P.append(Piece('\nbroadcast use {%s};\n' % ', '.join(U['broadcast_use']))))
    for rel in U.get('spec', []):
        add_file('spec', rel)
    if U.get('lemmas'):
        for rel in U['lemmas']:
            add_file('spec', rel)

    # R7: one-line accessors inlined at call sites, after checking that the accessor still has exactly that body
    inline_acc = []
    for acc in U.get('inline_accessors', []):
        for chk in acc['check']:
            csrc = load_sources(repo, srcs, chk['file'])
            (cs, ch, ce) = csrc.find(chk['path'])
            body = ' '.join(csrc.text[ch + 1:ce - 1].split())
            if body != acc['body']:
                raise Unsupported("R7: accessor %s no longer has body `%s` (found `%s`)" % (' :: '.join(chk['path']), acc['body'], body[:80]))
        inline_acc.append(acc)

    def emit_fn(src, path, s, h, e, group_serves, in_trait_impl, mono=None, instance=None):
        key = (src.path, tuple(path))
        if instance:
            key = (src.path, tuple(path[:-2] + [path[-2] + '#' + instance, path[-1]]))
        c = contracts.get(key)
        if c:
            used.add(key)
        fn_text = src.text[s:e]
        if mono:
            # R18: the generic body instantiated at the type the interpreter uses (what rustc's monomorphisation does)
            fm = code_mask(fn_text)
            for tp, ty in mono.items():
                out = []
                last = 0
                n = 0
                for mm in re.finditer(r'\b%s\b' % re.escape(tp), fn_text):
                    if fm[mm.start()]:
                        out.append(fn_text[last:mm.start()])
                        out.append(ty)
                        last = mm.end()
                        n += 1
                out.append(fn_text[last:])
                fn_text = ''.join(out)
                fm = code_mask(fn_text)
                if n:
                    G.log.append(dict(rule='R18', fn=path[-1], what='type parameter %s instantiated at %s (%d occurrences)' % (tp, ty, n)))
        attrs = src.attrs_before(s)
        for a in attrs:
            am = re.match(r'#\[cfg\(\s*(not\(\s*)?feature\s*=\s*"([^"]+)"', a)
            if am:
                feat = am.group(2)
                on = features_on.get(feat, None)
                if feat in DROP_FEATURES:
                    on = False
                if on is None:
                    raise Unsupported("%s: cfg feature %s not configured" % (path[-1], feat))
                if on == bool(am.group(1)):
                    raise Unsupported("%s: function is compiled out in the verified configuration" % path[-1])
        for (rx, repl, rule, why) in U.get('regex_rewrites', []):
            n = len(re.findall(rx, fn_text))
            if n:
                fn_text = re.sub(rx, repl, fn_text)
                G.log.append(dict(rule=rule, fn=path[-1], what='%s (x%d)' % (why, n)))
        for acc in inline_acc:
            n = fn_text.count(acc['call'])
            if n:
                fn_text = fn_text.replace(acc['call'], acc['replacement'])
                G.log.append(dict(rule='R7', fn=path[-1], what='%s -> %s (x%d; callee body checked to be `%s`)' % (acc['call'], acc['replacement'], n, acc['body'])))
        sha = hashlib.sha256(fn_text.encode()).hexdigest()
        name = path[-1].split(' ', 1)[1]
        if instance:
            name = name + '#' + instance
        serves = (c.serves if c and c.serves else group_serves) or U['serves']
        if c and c.mode == 'external_body':
            # keep signature + contract only; body is NOT verified (listed as assumed)
            hdr = fn_text[:fn_text.index('{')] if '{' in fn_text else fn_text.rstrip(';')
            cc = c
            pcs = weave_fn(hdr.rstrip() + ' { unimplemented!() }', cc, unit, G.log, features_on, in_trait_impl, False)
            start = sum(len(p.text.encode()) for p in P)
            P.append(Piece('#[verifier::external_body]\n'))
            P.extend(pcs)
            P.append(Piece('\n\n'))
            end = sum(len(p.text.encode()) for p in P)
            G.functions.append(dict(name=name, file=src.path, path=' :: '.join(path), sha256=sha, mode='assumed (external_body)', serves=serves))
            G.fn_spans.append((start, end, name, serves, 'assumed'))
            return
        start = sum(len(p.text.encode()) for p in P)
        pcs = weave_fn(fn_text, c, unit if not instance else '%s.%s' % (unit, instance), G.log, features_on, in_trait_impl, reach and not (c and c.no_reach),
                       type_args=U.get('default_type_args'))
        P.extend(pcs)
        P.append(Piece('\n\n'))
        end = sum(len(p.text.encode()) for p in P)
        has_body = '{' in fn_text
        G.functions.append(dict(name=name, file=src.path, path=' :: '.join(path), sha256=sha,
                                mode='verified' if has_body else 'trait declaration (contract only)',
                                contract=bool(c), serves=serves))
        G.fn_spans.append((start, end, name, serves, 'verified' if has_body else 'decl'))

    def extracted():
        for item in U['items']:
            kind = item['kind']
            if kind == 'raw':
                # hand-written glue allowed only for ghost members; scanned like spec -- unless marked "trusted":
                # then it is a piece of the trusted prelude that has to come after extracted items (listed in the evidence)
                with open(os.path.join(unit_dir, item['file'])) as f:
                    rt = f.read()
                if item.get('trusted'):
                    st0 = sum(len(p.text.encode()) for p in P)
                    P.append(Piece('\n// ===== prelude (trusted, placed after the traits it refers to): %s =====\n%s\n' % (item['file'], rt)))
                    G.section_spans.setdefault('prelude', []).append((st0, sum(len(p.text.encode()) for p in P)))
                else:
                    P.append(Piece('\n' + rt + '\n'))
                continue
            src = load_sources(repo, srcs, item['file'])
            if kind == 'consts':
                # all top-level consts of the file (optionally filtered)
                names = item.get('names')
                for (k, nm, s, h, e) in src._children(0, len(src.text)):
                    if k == 'const' and (names is None or nm in names):
                        ct = src.text[s:e]
                        if re.search(r':\s*&str\s*=', ct):
                            ct = re.sub(r':\s*&str\s*=', ": &'static str =", ct)
                            G.log.append(dict(rule='R16', fn=nm, what="const &str -> &'static str (elided lifetime spelled out for the verus! macro)"))
                        P.append(Piece(ct + '\n'))
                continue
            path = item['path']
            (s, h, e) = src.find(path)
            if kind in ('struct', 'enum'):
                t = src.text[s:e]
                for a in item.get('attrs', []):
                    P.append(Piece(a + '\n'))
                drops = item.get('drop_fields', [])
                for d in drops:
                    # a field line:  [pub] name: Type,
                    mm = re.search(r'^[ \t]*(?:#\[[^\]]*\]\s*)*(?:pub(?:\([^)]*\))?\s+)?%s\s*:[^\n]*?,[ \t]*(?://[^\n]*)?\n' % re.escape(d), t, re.M)
                    if not mm:
                        raise LostAnchor("%s: field %s to drop not found" % (path[-1], d))
                    t = t[:mm.start()] + t[mm.end():]
                    G.log.append(dict(rule='field-filter', fn=path[-1], what='dropped field %s' % d))
                for (old, new) in item.get('rewrites', []):
                    if t.count(old) != 1:
                        raise LostAnchor("%s: struct rewrite %r not found once" % (path[-1], old))
                    t = t.replace(old, new)
                    G.log.append(dict(rule='type-rewrite', fn=path[-1], what='%r => %r' % (old, new)))
                t = rule_R1_R2(t, G.log, path[-1], features_on) if '#[cfg' in t else t
                if drops:
                    # doc comments of dropped fields would dangle: remove `///` comment lines (comments only)
                    t = re.sub(r'^[ \t]*///[^\n]*\n', '', t, flags=re.M)
                P.append(Piece(t + '\n\n'))
                G.struct_texts = getattr(G, 'struct_texts', {})
                G.struct_texts[path[-1]] = src.text[s:e]
                continue
            if kind in ('impl', 'trait'):
                header = src.text[s:h + 1]
                for (old, new) in item.get('header_rewrites', []):
                    if header.count(old) != 1:
                        raise LostAnchor("%s: header rewrite %r not found once" % (path[-1], old))
                    header = header.replace(old, new)
                for a in item.get('attrs', []):
                    P.append(Piece(a + '\n'))
                P.append(Piece(header + '\n'))
                if item.get('extra'):
                    with open(os.path.join(unit_dir, item['extra'])) as f:
                        P.append(Piece(f.read() + '\n'))
                wanted = item.get('fns', '*')
                mono = item.get('mono')
                in_trait_impl = kind == 'impl' and ' for ' in path[-1]
                seen = set()
                for (k, nm, fs, fh, fe) in src._children(h + 1, e - 1):
                    if k == 'type' and kind == 'impl':
                        P.append(Piece('    ' + src.text[fs:fe] + '\n'))
                    if k != 'fn':
                        continue
                    if wanted != '*' and nm not in wanted:
                        continue
                    if nm in item.get('skip', []):
                        continue
                    seen.add(nm)
                    emit_fn(src, path + ['fn ' + nm], fs, fh, fe, item.get('serves'), in_trait_impl, mono, item.get('instance'))
                if wanted != '*':
                    missing = [w for w in wanted if w not in seen]
                    if missing:
                        raise LostAnchor("%s: functions not found: %s" % (' :: '.join(path), ', '.join(missing)))
                P.append(Piece('}\n\n'))
                continue
            if kind == 'fn':
                emit_fn(src, path, s, h, e, item.get('serves'), False, None, item.get('instance'))
                continue
            if kind == 'closure_fn':
                # R29 (lifting, standalone form): the body of the k-th closure literal of the named function becomes a free
                # function with the header given in unit.json; the body text is copied verbatim.  What is dropped: the
                # whole enclosing function (not claimed).  The closure must not capture anything: every free name of the
                # body has to be a parameter of the new header, otherwise rustc rejects the generated file (-> undecided).
                ftext = src.text[s:e]
                cl = find_closures(ftext)
                k = item['ordinal']
                if k < 1 or k > len(cl):
                    raise LostAnchor("%s: closure %d not found (function has %d closure literals)" % (' :: '.join(path), k, len(cl)))
                (cs, bs, be, is_block) = cl[k - 1]
                chdr = ' '.join(ftext[cs:bs].split())
                if item.get('closure_header') and chdr != item['closure_header']:
                    raise LostAnchor("%s: closure %d has header `%s`, expected `%s`" % (' :: '.join(path), k, chdr, item['closure_header']))
                body = ftext[bs:be]
                if not is_block:
                    body = '{ ' + body + ' }'
                new_name = item['as'].split('(')[0].split()[-1]
                lifted = item['as'] + ' ' + body
                G.log.append(dict(rule='R29', fn=new_name, what='closure %d (`%s`) of %s lifted to `%s`; body verbatim; the enclosing function is not extracted' % (k, chdr, ' :: '.join(path), item['as'])))
                lsrc = Source(src.path, lifted)
                emit_fn(lsrc, path + ['fn ' + new_name], 0, lifted.index('{'), len(lifted), item.get('serves'), False, None, None)
                continue
            raise Unsupported("unit.json: unknown item kind %s" % kind)

    mark('extracted', extracted)

    def claims():
        # property-level lemmas over the contracts: every `proof fn` here is an obligation of its own
        for rel in U.get('claims', []):
            with open(os.path.join(unit_dir, rel)) as f:
                ct = f.read()
            cs = Source(rel, ct)
            P.append(Piece('\n// ===== claims: %s =====\n' % rel))
            last = 0
            for (k, nm, s, h, e) in cs._children(0, len(ct)):
                if k != 'fn':
                    continue
                P.append(Piece(ct[last:s]))
                start = sum(len(p.text.encode()) for p in P)
                sm = re.search(r'//\s*serves:\s*([C0-9 ]+)', ct[max(0, s - 300):s])
                serves = sm.group(1).split() if sm else U['serves']
                P.append(Piece(ct[s:e], dict(ob='%s.%s' % (unit, nm), kind='lemma', fn=nm,
                                             text=' '.join(ct[s:h].split())[:300])))
                end = sum(len(p.text.encode()) for p in P)
                G.fn_spans.append((start, end, nm, serves, 'claim'))
                last = e
            P.append(Piece(ct[last:] + '\n'))

    mark('claims', claims)
    P.append(Piece('\n} // verus!\nfn main() {}\n'))
    unused = [k for k in contracts if k not in used and k not in included]
    if unused:
        raise LostAnchor("contracts without an extracted function: %s" % unused)
    G.finish()
    return G
