#!/bin/sh
# Offline setup: nothing to download or compile for the checks themselves (python3 + verus are pre-installed).
# Warm the replay build cache so that a violation replay (cargo test in a scratch copy of /repo) is fast.
cd "$(dirname "$0")/.." || exit 1
mkdir -p .cache build replays evidence
S=$(mktemp -d)
trap 'rm -rf "$S"' EXIT
rsync -a --exclude target --exclude .git /repo/ "$S"/ || exit 0
( cd "$S" && CARGO_NET_OFFLINE=true CARGO_TARGET_DIR="$(pwd -P)/../dummy" true )
( cd "$S" && CARGO_NET_OFFLINE=true CARGO_TARGET_DIR=/verif/.cache/target cargo test --offline --lib --no-default-features \
    --features serializer,xml,RfsmExpressionModel --no-run >/dev/null 2>&1 ) || true
exit 0
