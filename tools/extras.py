"""extras - non-Verus deciders (Kani harnesses) attached to a property. Filled in per property."""


def run_extras(pid, pc, tier, workdir, repo, seed):
    import kani_runner
    return kani_runner.run_for(pid, pc, tier, workdir, repo, seed)
