"""driver - run the verification units that serve a property, classify the outcome, write evidence.

exit 0: every obligation generated from /repo's current tree was discharged (known findings listed)
exit 1: an obligation failed with a verification verdict  -> VIOLATION line + replay file
exit 2: undecided (front-end error, lost anchor, unsupported construct, resource limit) - never an alarm
"""
import concurrent.futures as cf
import hashlib
import json
import os
import re
import shutil
import subprocess
import sys
import tempfile
import time

HERE = os.path.dirname(os.path.abspath(__file__))
VERIF = os.path.dirname(HERE)
sys.path.insert(0, HERE)
import weave  # noqa: E402
from rsx import LostAnchor  # noqa: E402
from weave import Unsupported  # noqa: E402

REPO = os.environ.get('VERIF_REPO', '/repo')
# evidence of runs against a scratch copy (seeded changes) goes elsewhere: /verif/evidence always describes /repo
EVIDENCE_DIR = os.environ.get('VERIF_EVIDENCE_DIR') or os.path.join(os.path.dirname(os.path.dirname(os.path.abspath(__file__))), 'evidence')
VERUS = shutil.which('verus') or '/opt/veriftools/verus/verus'

VERDICTS = (
    'postcondition not satisfied', 'precondition not satisfied', 'invariant not satisfied',
    'assertion failed', 'possible arithmetic underflow/overflow', 'possible division by zero',
    'possible bit shift underflow/overflow', 'decreases not satisfied', 'loop invariant',
    'cannot show invariant', 'unreachable', 'possible', 'might not', 'recommendation not met',
    'could not prove termination', 'failed to satisfy', 'fails to satisfy', 'not satisfied', 'unable to prove',
)
UNDECIDED = ('rlimit', 'resource limit', 'timed out', 'timeout', 'while verifying', 'z3')


class Undecided(Exception):
    pass


def load_config():
    with open(os.path.join(VERIF, 'properties.json')) as f:
        return json.load(f)


def load_known():
    p = os.path.join(VERIF, 'KNOWN_FINDINGS.json')
    if not os.path.exists(p):
        return []
    with open(p) as f:
        return json.load(f).get('findings', [])


# ------------------------------------------------------------------------------------------
def run_verus(path, workdir, rlimit=None, extra=()):
    cmd = [VERUS, path, '--error-format=json', '--multiple-errors', '20', '--time', '--output-json',
           '--num-threads', '8'] + list(extra)
    if rlimit:
        cmd += ['--rlimit', str(rlimit)]
    t0 = time.time()
    p = subprocess.run(cmd, cwd=workdir, stdout=subprocess.PIPE, stderr=subprocess.PIPE, text=True)
    wall = time.time() - t0
    diags = []
    other = []
    for ln in p.stderr.split('\n'):
        ln = ln.strip()
        if ln.startswith('{') and '"$message_type"' in ln:
            try:
                diags.append(json.loads(ln))
            except ValueError:
                other.append(ln)
        elif ln:
            other.append(ln)
    try:
        out = json.loads(p.stdout) if p.stdout.strip() else {}
    except ValueError:
        out = {}
    return dict(rc=p.returncode, diags=diags, other=other, out=out, wall=wall, cmd=' '.join(cmd), path=path)


def classify(G, res, reach=False):
    """Map diagnostics to obligations.
    returns dict(failed=[{ob, fn, kind, message, rendered, serves}], undecided=[str], verified=int, errors=int)"""
    failed = []
    undecided = []
    reach_hit = set()
    for d in res['diags']:
        lvl = d.get('level')
        msg = d.get('message', '')
        if lvl not in ('error',):
            # notes: "function body check: not all errors may have been reported", recommendations, warnings
            if lvl == 'warning' or lvl == 'note' or lvl == 'help' or lvl == 'failure-note':
                continue
        if msg.startswith('aborting due to') or msg.startswith('For more information'):
            continue
        mine = os.path.basename(res.get('path', ''))
        def _resolve(sp):
            # a span inside a macro expansion (panic!, assert!, ...) is attributed to the macro's call site in this file
            hops = 0
            while sp and mine and os.path.basename(sp.get('file_name', '')) != mine and sp.get('expansion') and hops < 8:
                prim_flag = sp.get('is_primary')
                sp = dict(sp['expansion']['span'], is_primary=prim_flag)
                hops += 1
            return sp
        spans_here = [_resolve(s) for s in d.get('spans', [])]
        spans_here = [s for s in spans_here if s and (not mine or os.path.basename(s.get('file_name', '')) == mine)]
        prim = [s for s in spans_here if s.get('is_primary')]
        allspans = spans_here
        low = msg.lower()
        is_verdict = any(v in low for v in VERDICTS) and not d.get('code')
        if any(u in low for u in UNDECIDED) and not is_verdict:
            undecided.append(msg + ' ' + _where(G, prim))
            continue
        if not is_verdict:
            undecided.append('front-end: ' + msg + ' ' + _where(G, prim) + '\n' + (d.get('rendered') or '')[:1500])
            continue
        # find tagged span
        tag = None
        for s in prim + [x for x in allspans if not x.get('is_primary')]:
            t = _tag_at(G, s['byte_start'], s['byte_end'])
            if t and ('ob' in t or 'reach' in t):
                tag = t
                break
        fn = None
        serves = None
        status = None
        for s in prim + allspans:
            f = _fn_at(G, s['byte_start'])
            if f:
                fn, serves, status = f[2], f[3], f[4]
                break
        if tag and 'reach' in tag:
            reach_hit.add(tag['reach'])
            continue
        if reach:
            continue
        if tag and tag.get('kind') == 'lemma' and status != 'claim':
            tag = None
        if status == 'claim':
            ob = '%s.%s' % (G.unit, fn)
            kind = 'lemma'
            text = msg
        elif tag:
            ob = tag['ob']
            kind = tag['kind']
            text = tag.get('text')
        else:
            # implicit obligation inside a function body: call precondition, overflow, index, ...
            callee_req = None
            for s in allspans:
                t = _tag_at(G, s['byte_start'], s['byte_end'])
                if t and 'req' in t:
                    callee_req = t['req']
            snippet = ''
            if prim:
                snippet = ' '.join((prim[0].get('text') or [{}])[0].get('text', '').split())[:80]
            kind = 'body'
            where = _section_at(G, prim[0]['byte_start']) if prim else None
            if fn is None:
                # failure inside spec / prelude text: a lemma of mine failed -> undecided, not an alarm
                undecided.append('proof-library: %s %s' % (msg, _where(G, prim)))
                continue
            ob = '%s.%s.body[%s%s]' % (G.unit, fn, msg, (' <- ' + callee_req) if callee_req else '')
            text = snippet
        failed.append(dict(ob=ob, fn=fn, kind=kind, message=msg, text=text, serves=serves or G.serves,
                           rendered=(d.get('rendered') or '')[:3000]))
    vr = res['out'].get('verification-results', {})
    return dict(failed=failed, undecided=undecided, reach_hit=reach_hit,
                verified=vr.get('verified'), errors=vr.get('errors'), encountered=vr.get('encountered-vir-error'))


def _tag_at(G, a, b):
    best = None
    for (s, e, t) in G.tags:
        if a >= s and b <= e:
            if best is None or (e - s) < (best[1] - best[0]):
                best = (s, e, t)
    return best[2] if best else None


def _fn_at(G, a):
    for f in G.fn_spans:
        if f[0] <= a < f[1]:
            return f
    return None


def _section_at(G, a):
    # the innermost (shortest) section span containing the offset: a trusted raw item inside the extracted section
    # is a 'prelude' span nested in the 'extracted' span
    best = None
    for sec, spans in G.section_spans.items():
        for (s, e) in spans:
            if s <= a < e and (best is None or (e - s) < best[0]):
                best = (e - s, sec)
    return best[1] if best else None


def _where(G, prim):
    if not prim:
        return ''
    f = _fn_at(G, prim[0]['byte_start'])
    return '(in %s, generated line %d)' % (f[2] if f else _section_at(G, prim[0]['byte_start']), prim[0]['line_start'])


SCAN = re.compile(r'assume\s*\(|admit\s*\(|external_body|assume_specification|verifier::external|\baxiom\b|exec_allows_no_decreases_clause|external_type_specification|external_trait_specification')


def scan_assumptions(G):
    """every assumption marker must sit in a prelude section; returns the trusted-base list"""
    trusted = []
    bad = []
    text = G.text
    for mm in SCAN.finditer(text):
        off = len(text[:mm.start()].encode('utf-8'))
        sec = _section_at(G, off)
        line_start = text.rfind('\n', 0, mm.start()) + 1
        line_end = text.find('\n', mm.end())
        line = text[line_start:line_end].strip()
        if line.startswith('//'):
            continue
        if sec == 'prelude':
            what = mm.group(0).strip('( ')
            if what == 'assume_specification':
                pm = re.search(r'\[\s*(.*?)\s*\]\s*\(', text[mm.end():mm.end() + 300], re.S)
                trusted.append('assume_specification %s' % (' '.join(pm.group(1).split()) if pm else line[:80]))
            elif 'external' in what:
                nxt = re.search(r'\b(fn|struct|trait|enum|type)\s+(\w+)', text[mm.end():mm.end() + 400])
                # enclosing impl header, if any
                im = None
                for x in re.finditer(r'^impl[^\n{]*\{', text[:mm.start()], re.M):
                    im = x
                ctx = ''
                if im:
                    # still inside that impl?  (brace balance between impl start and here)
                    seg = text[im.end():mm.start()]
                    if seg.count('{') - seg.count('}') >= 0:
                        ctx = ' in `%s`' % ' '.join(im.group(0).rstrip('{').split())
                trusted.append('%s %s %s%s' % (what, nxt.group(1) if nxt else '', nxt.group(2) if nxt else line[:60], ctx))
            else:
                trusted.append('%s: %s' % (what, line[:80]))
        else:
            f = _fn_at(G, off)
            if 'verif-domain-assumption' in line:
                dm = re.search(r'assume\((.*)\); /\* verif-domain-assumption (\S+): (.*?) \*/', line)
                trusted.append('input-domain assumption %s in %s: %s -- %s' % (dm.group(2) if dm else '?', f[2] if f else '?', dm.group(1) if dm else line[:80], dm.group(3) if dm else ''))
                continue
            if f and f[4] == 'assumed':
                trusted.append('assumed contract (external_body) on real function %s' % f[2])
                continue
            if 'exec_allows_no_decreases_clause' in mm.group(0) and f:
                trusted.append('termination not checked for %s' % f[2])
                continue
            bad.append('%s in %s section: %s' % (mm.group(0), sec, line[:100]))
    # stand-in traits of the prelude: every method declared without a body carries an assumed contract
    for sec, spans in G.section_spans.items():
        if sec != 'prelude':
            continue
        data = text.encode('utf-8')
        for (s, e) in spans:
            ptxt = data[s:e].decode('utf-8')
            for tm in re.finditer(r'\bpub trait (\w+)[^{]*\{', ptxt):
                depth = 1
                k = tm.end()
                while k < len(ptxt) and depth > 0:
                    if ptxt[k] == '{':
                        depth += 1
                    elif ptxt[k] == '}':
                        depth -= 1
                    k += 1
                body = ptxt[tm.end():k]
                meths = re.findall(r'\n\s*fn (\w+)', body)
                trusted.append('stand-in trait %s with assumed method contracts: %s' % (tm.group(1), ', '.join(meths)))
    return sorted(set(trusted)), bad


def run_unit(unit, workdir, tier):
    """returns dict with everything the evidence needs; raises Undecided"""
    udir = os.path.join(VERIF, 'units', unit)
    out = dict(unit=unit)
    try:
        G = weave.build_unit(udir, REPO, reach=False)
        GR = weave.build_unit(udir, REPO, reach=True)
    except (LostAnchor, Unsupported) as e:
        raise Undecided('%s: %s: %s' % (unit, type(e).__name__, e))
    trusted, bad = scan_assumptions(G)
    if bad:
        raise Undecided('%s: assumption marker outside the trusted prelude: %s' % (unit, bad))
    p = os.path.join(workdir, unit + '.rs')
    pr = os.path.join(workdir, unit + '__reach.rs')
    with open(p, 'w') as f:
        f.write(G.text)
    with open(pr, 'w') as f:
        f.write(GR.text)
    gen_dir = os.path.join(VERIF, 'build')
    os.makedirs(gen_dir, exist_ok=True)
    shutil.copy(p, os.path.join(gen_dir, unit + '.rs'))
    # verdict cache: keyed by the generated text (always rebuilt from /repo first), so a hit means the very same
    # obligations were already decided for this tree state.  Optimisation only; VERIF_NO_CACHE=1 disables it.
    ckey = hashlib.sha256((G.text + '\0' + GR.text + '\0verus-0.2026.09.13\0' + tier + '\0' + json.dumps(sorted(p.tag['ob'] for p in G.pieces if p.tag and 'ob' in p.tag)) + '\0' + json.dumps(sorted([f[2], sorted(f[3] or [])] for f in G.fn_spans))).encode()).hexdigest()
    cpath = os.path.join(VERIF, '.cache', 'units', ckey + '.json')
    if os.environ.get('VERIF_NO_CACHE') != '1' and os.path.exists(cpath):
        try:
            with open(cpath) as f:
                cached = json.load(f)
            cached.update(G=G, cache_hit=True)
            cached['verus']['wall_cached'] = cached['verus'].get('wall')
            return cached
        except (OSError, ValueError, KeyError):
            pass
    rlimit = 60 if tier == 'thorough' else 30
    try:
        with open(os.path.join(udir, 'unit.json')) as f:
            rlimit = max(rlimit, json.load(f).get('rlimit', 0))
    except (OSError, ValueError):
        pass
    with cf.ThreadPoolExecutor(2) as ex:
        f1 = ex.submit(run_verus, p, workdir, rlimit)
        f2 = ex.submit(run_verus, pr, workdir, rlimit)
        res, resr = f1.result(), f2.result()
    c = classify(G, res)
    cr = classify(GR, resr, reach=True)
    # obligations: explicit clauses + one implicit "body safety" obligation per verified function
    obs = {}
    ob_span_serves = {}
    for (s, e, t) in G.tags:
        if 'ob' in t:
            obs[t['ob']] = dict(kind=t['kind'], fn=t['fn'], text=' '.join(t.get('text', '').split())[:300])
            # the function the clause was woven into (several impls may share a function name)
            for f in G.fn_spans:
                if f[0] <= s < f[1]:
                    ob_span_serves[t['ob']] = f[3]
                    break
    fn_serves = {}
    for f in G.fn_spans:
        fn_serves[f[2]] = f[3]
        if f[4] == 'verified':
            obs['%s.%s.body' % (unit, f[2])] = dict(kind='body', fn=f[2],
                                                   text='panic freedom, arithmetic overflow, index/slice bounds, callee preconditions')
    for name, o in obs.items():
        o['serves'] = ob_span_serves.get(name) or fn_serves.get(o['fn'], G.serves)
    # vacuity: every verified function's sentinel must have failed
    vacuous = []
    for (s, e, t) in GR.tags:
        if 'reach' in t and t['reach'] not in cr['reach_hit']:
            vacuous.append(t['reach'])
    if c['undecided']:
        raise Undecided('%s: %s' % (unit, '\n'.join(c['undecided'][:5])))
    if res['rc'] != 0 and not c['failed']:
        raise Undecided('%s: verus exit %d without a verdict: %s' % (unit, res['rc'], '\n'.join(res['other'][-5:])))
    if vacuous and not cr['undecided']:
        raise Undecided('%s: vacuous precondition (sentinel assert(false) verified) in: %s' % (unit, vacuous))
    if cr['undecided']:
        raise Undecided('%s (reach file): %s' % (unit, '\n'.join(cr['undecided'][:3])))
    # per-function times
    times = {}
    try:
        for m in res['out']['times-ms']['smt']['smt-run-module-times']:
            for fb in m.get('function-breakdown', []):
                times[fb['function'].split('::')[-1]] = times.get(fb['function'].split('::')[-1], 0) + fb['time']
    except (KeyError, TypeError):
        pass
    out.update(G=G, failed=c['failed'], obligations=obs, trusted=trusted, verus=dict(wall=res['wall'], cmd=res['cmd']), times=times,
               reach_count=len([1 for (_, _, t) in GR.tags if 'reach' in t]), smt_ms=_smt_total(res),
               verified=c['verified'], sha=hashlib.sha256(G.text.encode()).hexdigest(), cache_hit=False)
    try:
        os.makedirs(os.path.dirname(cpath), exist_ok=True)
        tmp = cpath + '.%d.tmp' % os.getpid()
        with open(tmp, 'w') as f:
            json.dump(dict((k, v) for k, v in out.items() if k != 'G'), f)
        os.replace(tmp, cpath)
    except OSError:
        pass
    return out


def _smt_total(res):
    try:
        return res['out']['times-ms']['smt']['total']
    except (KeyError, TypeError):
        return None


# ------------------------------------------------------------------------------------------
def check_property(pid, tier):
    cfg = load_config()
    if pid not in cfg['properties']:
        print('unknown or unclaimed property %s' % pid)
        return 2
    pc = cfg['properties'][pid]
    known = [k for k in load_known() if k['property'] == pid and k.get('status') == 'known']
    t0 = time.time()
    seed = int(os.environ.get('VERIF_SEED', '0') or 0)
    workdir = tempfile.mkdtemp(prefix='verif-%s-' % pid)
    results = []
    undecided = []
    try:
        with cf.ThreadPoolExecutor(max(1, min(6, len(pc['units'])))) as ex:
            futs = {ex.submit(run_unit, u, workdir, tier): u for u in pc['units']}
            for fu in cf.as_completed(futs):
                try:
                    results.append(fu.result())
                except Undecided as e:
                    undecided.append(str(e))
        extra = []
        if undecided:
            # last resort for a unit Verus could not decide (lost anchor / front-end error on changed code): the unit's
            # registered replay tests (bounded, concrete inputs on the real code).  A failing test is a violation with a
            # failing input; passing tests decide nothing and the unit stays undecided.
            import replay
            for m in replay._registry(VERIF):
                us = m.get('unit')
                us = [us] if isinstance(us, str) else (us or [])
                hit = [uu for uu in us if any(x.startswith(uu + ':') for x in undecided)]
                if not hit:
                    continue
                u = hit[0]
                tests = m.get('tests', {})
                if tests and not any(pid in ps for ps in tests.values()):
                    continue
                try:
                    ran, fails, tail = replay.run_module(m, REPO, VERIF)
                except Exception as e:  # noqa
                    ran, fails, tail = False, [], str(e)
                fails = [f for f in fails if pid in tests.get(f[0], [pid])]
                # a listed known finding of the module is not the failing input of this unit
                fails = [f for f in fails if not _match_known(known, '%s.replay.%s' % (_unit_name(m), f[0]))]
                if not fails:
                    continue
                fl = dict(ob='%s.replay.%s' % (u, fails[0][0]), fn=fails[0][0], kind='replay-bounded',
                          message='replay test failed on the real code: %s (at %s)' % (fails[0][1], fails[0][2]),
                          text='registered replay test %s of %s' % (fails[0][0], m['file']), serves=[pid],
                          rendered='\n'.join('%s: %s (%s)' % f for f in fails), unit=u,
                          cex=[dict(test=t, message=msg, at=at) for (t, msg, at) in fails])
                extra.append(dict(obligations={}, failed=[fl], undecided=[], trusted=[],
                                  bounded=[dict(harness='replay:' + m['file'], bound='the concrete inputs of the test module', status='failed', claim=fl['text'])],
                                  backend=dict(unit='replay:' + m['file'], backend='cargo test (bounded stand-in)', wall_s=None, cmd='cargo test %s' % m['filter'], complete=False)))
                for x in [x for x in undecided if any(x.startswith(uu + ':') for uu in hit)]:
                    print('NOTE: property=%s Verus could not decide (%s); the replay tests of the unit found a failing input' % (pid, x.split('\n')[0][:200]))
                undecided = [x for x in undecided if not any(x.startswith(uu + ':') for uu in hit)]
        import kani_runner
        if not undecided:
            extra += kani_runner.run_for(pid, pc, tier, workdir, REPO, seed)
        else:
            # a unit outside Verus' reach (front-end error on changed code): let the registered Kani harnesses of the
            # undecided units look for a counterexample; a failing harness is a violation, a passing one decides nothing
            force = []
            for u, hs in pc.get('kani_fallback', {}).items():
                if any(x.startswith(u + ':') for x in undecided):
                    force += hs
            if force:
                fb = kani_runner.run_for(pid, pc, tier, workdir, REPO, seed, force=force)
                fb_failed = [e for e in fb if e['failed']]
                if fb_failed:
                    extra += fb_failed
                    for u in undecided:
                        print('NOTE: property=%s Verus could not decide (%s); Kani fallback found a counterexample' % (pid, u.split('\n')[0][:200]))
                    undecided = []
                else:
                    for e in fb:
                        undecided += e.get('undecided', [])
        # thorough tier: every replay module registered for one of the property's units is run as well (bounded)
        _extra_mods = []
        if tier == 'thorough':
            import replay as _rp
            for _m in _rp._registry(VERIF):
                _us = _m.get('unit')
                _us = [_us] if isinstance(_us, str) else (_us or [])
                if any(_u in pc.get('units', []) for _u in _us) and _m['file'] not in pc.get('bounded_replay', []):
                    _extra_mods.append(_m['file'])
        if not undecided and (pc.get('bounded_replay') or _extra_mods):
            # bounded stand-ins registered for this property: replay test modules run on the real code (concrete inputs);
            # reported under `bounded`, never counted as proved; a failing test is a violation with its failing input
            import replay
            tiers_ok = pc.get('bounded_replay_tiers', ['quick', 'thorough'])
            for m in replay._registry(VERIF):
                if m['file'] not in (pc.get('bounded_replay', []) + _extra_mods) or tier not in tiers_ok:
                    continue
                tests = m.get('tests', {})
                t1 = time.time()
                try:
                    ran, fails, tail = replay.run_module(m, REPO, VERIF)
                except Exception as e:  # noqa
                    ran, fails, tail = False, [], str(e)
                fails = [f for f in fails if pid in tests.get(f[0], [pid])]
                e = dict(obligations={}, failed=[], undecided=[], trusted=[],
                         bounded=[dict(harness='replay:' + m['file'], bound='the concrete inputs of the test module', status='failed' if fails else ('ok' if ran else 'did not run'),
                                       claim='replay tests %s' % m['filter'])],
                         backend=dict(unit='replay:' + m['file'], backend='cargo test (bounded stand-in)', wall_s=round(time.time() - t1, 1), cmd='cargo test %s' % m['filter'], complete=False))
                if not ran:
                    e['undecided'].append('replay module %s did not run: %s' % (m['file'], tail[-300:]))
                for (t, msg, at) in fails[:3]:
                    e['failed'].append(dict(ob='%s.replay.%s' % (_unit_name(m), t), fn=t, kind='replay-bounded',
                                            message='replay test failed on the real code: %s (at %s)' % (msg, at), text='registered replay test %s of %s' % (t, m['file']),
                                            serves=[pid], rendered='%s: %s (%s)' % (t, msg, at), unit=_unit_name(m), cex=[dict(test=t, message=msg, at=at)]))
                extra.append(e)
        violations = []
        known_hits = []
        total_obs = {}
        for r in results:
            for name, o in r['obligations'].items():
                if pid in o['serves']:
                    total_obs[name] = dict(o, unit=r['unit'], backend='verus/z3')
            for fl in r['failed']:
                if pid not in fl['serves']:
                    continue
                k = _match_known(known, fl['ob'])
                if k:
                    known_hits.append((k, fl))
                else:
                    violations.append(dict(fl, unit=r['unit']))
        for e in extra:
            for name, o in e['obligations'].items():
                total_obs[name] = o
            for fl in e['failed']:
                k = _match_known(known, fl['ob'])
                if k:
                    known_hits.append((k, fl))
                else:
                    violations.append(fl)
            undecided += e.get('undecided', [])
        wall = time.time() - t0
        if undecided and violations and all(u.startswith('replay module') for u in undecided):
            # a bounded replay module that did not finish (e.g. it hangs because of the very defect) must not mask an
            # obligation a verifier refuted: the violation is reported, the module is noted as not run
            for u in undecided:
                print('NOTE: property=%s %s' % (pid, u.split('\n')[0][:300]))
            undecided = []
        if undecided:
            for u in undecided:
                print('UNDECIDED: property=%s %s' % (pid, u))
            write_evidence(pid, pc, tier, seed, results, extra, total_obs, violations, known_hits, wall, undecided)
            return 2
        failed_names = set(v['ob'] for v in violations) | set(fl['ob'] for (_, fl) in known_hits)
        # a failed body obligation "unit.fn.body[...]" also marks "unit.fn.body" as not discharged
        for n in list(failed_names):
            mm = re.match(r'(.*\.body)\[', n)
            if mm:
                failed_names.add(mm.group(1))
        seen = set()
        for (k, fl) in known_hits:
            if k['obligation'] in seen:
                continue
            seen.add(k['obligation'])
            print('KNOWN-FINDING: property=%s %s %s' % (pid, k['obligation'], k['what']))
        rc = 0
        if violations:
            rc = 1
            import replay
            for v in violations:
                path, found = replay.make_replay(pid, v, workdir, REPO, VERIF)
                v['replay'] = path
                v['input_found'] = found
                print('VIOLATION property=%s replay=%s%s' % (pid, path, '' if found else ' no-failing-input-found'))
                print('  obligation %s: %s' % (v['ob'], v['message']))
        write_evidence(pid, pc, tier, seed, results, extra, total_obs, violations, known_hits, wall, [], failed_names)
        n = len(total_obs)
        d = n - len([x for x in failed_names if x in total_obs])
        print('%s %s: %d obligations, %d discharged, %d violation(s), %d known finding(s), %.1fs' %
              (pid, tier, n, d, len(violations), len(seen), wall))
        return rc
    finally:
        shutil.rmtree(workdir, ignore_errors=True)


def _unit_name(m):
    u = m.get('unit', 'replay')
    return u if isinstance(u, str) else (u[0] if u else 'replay')


def _match_known(known, ob):
    for k in known:
        if k['obligation'] == ob:
            return k
        if k['obligation'].endswith('*') and ob.startswith(k['obligation'][:-1]):
            return k
    return None


def write_evidence(pid, pc, tier, seed, results, extra, total_obs, violations, known_hits, wall, undecided, failed_names=()):
    os.makedirs(EVIDENCE_DIR, exist_ok=True)
    known_names = set(fl['ob'] for (_, fl) in known_hits)
    claimed = dict((k, v) for k, v in total_obs.items() if k not in known_names)
    n = len(claimed)
    discharged = n - len([x for x in failed_names if x in claimed])
    functions = []
    rewrites = []
    trusted = set()
    backends = []
    cmds = []
    for r in results:
        G = r['G']
        for f in G.functions:
            if pid in f.get('serves', G.serves):
                functions.append(dict(f, unit=r['unit'], smt_ms=r['times'].get(f['name'])))
        rewrites += [dict(x, unit=r['unit']) for x in G.log]
        trusted |= set('%s: %s' % (r['unit'], t) for t in r['trusted'])
        backends.append(dict(unit=r['unit'], backend='verus 0.2026.09.13 / z3', wall_s=round(r['verus']['wall'], 2),
                             smt_ms=r['smt_ms'], verified_items=r['verified'], generated_sha256=r['sha'], cache_hit=r.get('cache_hit', False),
                             vacuity_sentinels=r['reach_count']))
        cmds.append(r['verus']['cmd'].replace(os.path.dirname(r['verus']['cmd'].split()[1]), '<scratch>'))
    bounded = []
    for e in extra:
        backends.append(e['backend'])
        trusted |= set(e.get('trusted', []))
        bounded += e.get('bounded', [])
        cmds.append(e['backend'].get('cmd', ''))
    samples = []
    for name in sorted(total_obs)[:400]:
        o = total_obs[name]
        if o['kind'] in ('ensures', 'assert', 'kani') and len(samples) < 12:
            samples.append(dict(obligation=name, clause=o['text'], function=o['fn']))
    level = pc.get('level', 'proof')
    ev = dict(
        property_id=pid, tier=tier, seed=seed, level=level,
        coverage=dict(
            obligations=n, discharged=discharged,
            checker_cmd=' ; '.join(cmds) if cmds else 'none',
            trusted_base=sorted(trusted),
            samples=samples,
            explanation=pc.get('explanation', ''),
            functions_under_contract=functions,
            obligations_list=[dict(name=k, kind=v['kind'], fn=v['fn'], backend=v.get('backend', 'verus/z3'),
                                   discharged=(k not in failed_names)) for k, v in sorted(total_obs.items())],
            rewrites_applied=rewrites,
            backends=backends,
            bounded=bounded,
            not_covered=pc.get('not_covered', []),
            known_findings=[dict(obligation=k['obligation'], what=k['what']) for (k, _) in known_hits],
            known_finding_obligations_excluded_from_count=len(known_names),
            undecided=undecided,
            exhaustive=False,
        ),
        assumptions=pc.get('assumptions', []),
        wall_s=round(wall, 2),
        violations=len(violations),
    )
    with open(os.path.join(EVIDENCE_DIR, pid + '.json'), 'w') as f:
        json.dump(ev, f, indent=1)


def dev_unit(unit, show=True):
    workdir = tempfile.mkdtemp(prefix='verif-dev-')
    try:
        try:
            r = run_unit(unit, workdir, 'quick')
        except Undecided as e:
            print('UNDECIDED', e)
            return 2
        print('unit %s: verified=%s failed=%d obligations=%d wall=%.1fs smt=%sms' %
              (unit, r['verified'], len(r['failed']), len(r['obligations']), r['verus']['wall'], r['smt_ms']))
        for fl in r['failed']:
            print('FAILED', fl['ob'], '|', fl['message'])
            if show:
                print(fl['rendered'])
        slow = sorted(r['times'].items(), key=lambda kv: -kv[1])[:5]
        print('slowest:', slow)
        return 1 if r['failed'] else 0
    finally:
        shutil.rmtree(workdir, ignore_errors=True)


def main(argv):
    if len(argv) >= 2 and argv[0] == 'unit':
        return dev_unit(argv[1], show='--quiet' not in argv)
    if len(argv) >= 2 and argv[0] == 'replay':
        import replay
        return replay.run_replay(argv[1], REPO, VERIF)
    pid = argv[0]
    tier = os.environ.get('VERIF_TIER', 'quick')
    if '--tier' in argv:
        tier = argv[argv.index('--tier') + 1]
    if tier == 'thorough':
        os.environ['VERIF_THOROUGH'] = '1'   # replay tests widen their bounded-exhaustive enumerations
    else:
        os.environ.pop('VERIF_THOROUGH', None)
    return check_property(pid, tier)


if __name__ == '__main__':
    sys.exit(main(sys.argv[1:]))
