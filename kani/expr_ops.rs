
#[cfg(kani)]
mod verif_kani_ops {
    use super::*;

    /// every scalar Data value (Integer / Double over their full domains, Boolean, Null, None)
    fn any_scalar() -> Data {
        let k: u8 = kani::any();
        if k == 0 {
            Data::Integer(kani::any())
        } else if k == 1 {
            Data::Double(kani::any())
        } else if k == 2 {
            Data::Boolean(kani::any())
        } else if k == 3 {
            Data::Null()
        } else {
            Data::None()
        }
    }

    /// C11: Integer % Integer never panics (all i64 pairs; the counterexample generator for the replay)
    #[kani::proof]
    fn ops_modulus_int() {
        let i1: i64 = kani::any();
        let i2: i64 = kani::any();
        let a = Data::Integer(i1);
        let b = Data::Integer(i2);
        let r = operation_modulus(&a, &b);
        assert!(matches!(r, Data::Integer(_) | Data::Error(_)));
        std::mem::forget(r);
        std::mem::forget(a);
        std::mem::forget(b);
    }

    /// C11: '%' never panics, whatever the scalar operands (loop-free, full domain: complete)
    #[kani::proof]
    fn ops_modulus_total() {
        let a = any_scalar();
        let b = any_scalar();
        let r = operation_modulus(&a, &b);
        // Integer % Integer stays Integer or reports an error value
        if let (Data::Integer(_), Data::Integer(_)) = (&a, &b) {
            assert!(matches!(r, Data::Integer(_) | Data::Error(_)));
        }
        // no drop glue (Vec / HashMap variants) in the verification condition
        std::mem::forget(r);
        std::mem::forget(a);
        std::mem::forget(b);
    }

    fn check_int(r: Data, expect: i64) {
        match &r {
            Data::Integer(v) => assert!(*v == expect),
            _ => assert!(false),
        }
        std::mem::forget(r);
    }

    /// C10: Integer arithmetic stays Integer and saturates
    #[kani::proof]
    fn ops_integer_saturate() {
        let i1: i64 = kani::any();
        let i2: i64 = kani::any();
        let a = Data::Integer(i1);
        let b = Data::Integer(i2);
        check_int(operation_plus(&a, &b), i1.saturating_add(i2));
        check_int(operation_minus(&a, &b), i1.saturating_sub(i2));
        check_int(operation_multiply(&a, &b), i1.saturating_mul(i2));
        std::mem::forget(a);
        std::mem::forget(b);
    }

    /// C10: division yields Double (or the NaN error), for every pair of numeric operands
    #[kani::proof]
    fn ops_divide_is_double() {
        let a = any_scalar();
        let b = any_scalar();
        let r = operation_divide(&a, &b);
        if a.is_numeric() && b.is_numeric() {
            match &r {
                Data::Double(d) => assert!(!d.is_nan()),
                Data::Error(_) => {}
                _ => assert!(false),
            }
        } else {
            assert!(matches!(r, Data::Error(_)));
        }
        std::mem::forget(r);
        std::mem::forget(a);
        std::mem::forget(b);
    }

    fn check_double(r: Data, expect: f64) {
        match &r {
            Data::Double(v) => assert!(*v == expect || (v.is_nan() && expect.is_nan())),
            _ => assert!(false),
        }
        std::mem::forget(r);
    }

    /// C10: Double contagion for + - * with mixed operands
    #[kani::proof]
    fn ops_double_contagion() {
        let i: i64 = kani::any();
        let d: f64 = kani::any();
        let a = Data::Integer(i);
        let b = Data::Double(d);
        check_double(operation_plus(&a, &b), (i as f64) + d);
        check_double(operation_minus(&b, &a), d - (i as f64));
        check_double(operation_multiply(&a, &b), (i as f64) * d);
        // the mirrored arms (operand order matters for '-')
        check_double(operation_plus(&b, &a), d + (i as f64));
        check_double(operation_minus(&a, &b), (i as f64) - d);
        // inf * 0 is NaN by IEEE 754; CBMC's default NaN check flags that product in the Double * Integer arm (a
        // float property of the language, not a defect), so this one case is left to the Integer * Double line above
        if !(d.is_infinite() && i == 0) {
            check_double(operation_multiply(&b, &a), d * (i as f64));
        }
        std::mem::forget(a);
        std::mem::forget(b);
    }

    fn is_bool_or_error(r: Data) -> bool {
        let ok = matches!(r, Data::Boolean(_) | Data::Error(_));
        std::mem::forget(r);
        ok
    }

    /// C10/C11: comparisons and the remaining binary operators are total on scalars and return Boolean / Error
    #[kani::proof]
    fn ops_compare_total() {
        let a = any_scalar();
        let b = any_scalar();
        assert!(is_bool_or_error(operation_less(&a, &b)));
        assert!(is_bool_or_error(operation_less_equal(&a, &b)));
        assert!(is_bool_or_error(operation_greater(&a, &b)));
        assert!(is_bool_or_error(operation_greater_equal(&a, &b)));
        assert!(is_bool_or_error(operation_and(&a, &b)));
        assert!(is_bool_or_error(operation_or(&a, &b)));
        if a.is_numeric() && b.is_numeric() {
            let r = operation_less(&a, &b);
            if let Data::Boolean(lt) = &r {
                assert!(*lt == (a.as_number() < b.as_number()));
            }
            std::mem::forget(r);
        }
        std::mem::forget(a);
        std::mem::forget(b);
    }

    /// C10: equality between Integer and Double compares numerically (the Integer is promoted), in both operand orders
    #[kani::proof]
    fn data_eq_numeric() {
        let i: i64 = kani::any();
        let d: f64 = kani::any();
        let a = Data::Integer(i);
        let b = Data::Double(d);
        let ab = a == b;
        let ba = b == a;
        assert!(ab == ba);
        assert!(ab == ((i as f64) == d));
        std::mem::forget(a);
        std::mem::forget(b);
    }

    /// C10: equality of scalars of the same kind is the equality of their values
    #[kani::proof]
    fn data_eq_same_kind() {
        let i1: i64 = kani::any();
        let i2: i64 = kani::any();
        let a = Data::Integer(i1);
        let b = Data::Integer(i2);
        assert!((a == b) == (i1 == i2));
        std::mem::forget(a);
        std::mem::forget(b);
        let d1: f64 = kani::any();
        let d2: f64 = kani::any();
        let c = Data::Double(d1);
        let d = Data::Double(d2);
        assert!((c == d) == (d1 == d2));
        std::mem::forget(c);
        std::mem::forget(d);
        let b1: bool = kani::any();
        let b2: bool = kani::any();
        let e = Data::Boolean(b1);
        let f = Data::Boolean(b2);
        assert!((e == f) == (b1 == b2));
        std::mem::forget(e);
        std::mem::forget(f);
    }
}
