
#[cfg(kani)]
mod verif_kani_namematch {
    use super::*;

    /// C19 at byte level: n == d, or n starts with d followed by '.'
    fn spec_match(d: &[u8], n: &[u8]) -> bool {
        n.len() >= d.len() && &n[..d.len()] == d && (n.len() == d.len() || n[d.len()] == b'.')
    }

    /// bounded: descriptor <= 2 bytes, name <= 4 bytes, all byte values that form valid UTF-8
    #[kani::proof]
    #[kani::unwind(7)]
    fn namematch_bytes() {
        let db: [u8; 2] = kani::any();
        let dl: usize = kani::any();
        kani::assume(dl <= 2);
        let nb: [u8; 4] = kani::any();
        let nl: usize = kani::any();
        kani::assume(nl <= 4);
        let d = match std::str::from_utf8(&db[..dl]) {
            Ok(s) => s,
            Err(_) => return,
        };
        let n = match std::str::from_utf8(&nb[..nl]) {
            Ok(s) => s,
            Err(_) => return,
        };
        let t = Transition {
            id: 1,
            doc_id: 1,
            events: vec![d.to_string()],
            wildcard: false,
            cond: Data::Null(),
            source: 1,
            target: vec![],
            transition_type: TransitionType::External,
            content: 0,
        };
        let got = t.nameMatch(n);
        assert!(got == spec_match(d.as_bytes(), n.as_bytes()));
    }
}
