#[cfg(test)]
mod verif_replay_cex_data_eq {
    use super::*;

    #[test]
    fn verif_replay_cex_data_eq() {
        let i: i64 = {i};
        let d: f64 = f64::from_bits({d}u64);
        let a = Data::Integer(i);
        let b = Data::Double(d);
        let ab = a == b;
        let ba = b == a;
        assert!(ab == ba, "Integer({}) == Double({}) is {} but Double == Integer is {}", i, d, ab, ba);
        assert!(ab == ((i as f64) == d), "Integer({}) == Double({}) is {} but numerically {}", i, d, ab, (i as f64) == d);
    }
}
