
#[cfg(kani)]
mod verif_kani_abs {
    use super::*;

    /// C11: abs(Integer) never panics (all i64 values)
    #[kani::proof]
    fn action_abs_int() {
        let v: i64 = kani::any();
        // `execute` never looks at the global data (parameter `_global`); GlobalData::new() opens a channel
        // (syscall, unsupported by Kani), so a reference to allocated but never read memory is passed.
        let mem = std::mem::MaybeUninit::<GlobalData>::uninit();
        let gd: &GlobalData = unsafe { &*mem.as_ptr() };
        let args = [Data::Integer(v)];
        let r = AbsAction {}.execute(&args, gd);
        assert!(r.is_ok() || r.is_err());
        std::mem::forget(r);
        std::mem::forget(args);
    }
}
