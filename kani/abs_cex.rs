
#[cfg(test)]
mod verif_replay_cex_abs {
    use super::*;

    #[test]
    fn verif_replay_cex_abs() {
        let v: i64 = {v};
        let r = std::panic::catch_unwind(|| {
            let gd = GlobalData::new();
            AbsAction {}.execute(&[Data::Integer(v)], &gd)
        });
        assert!(r.is_ok(), "abs(Integer({})) panicked instead of returning a value or an error", v);
    }
}
