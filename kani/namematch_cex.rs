
#[cfg(test)]
mod verif_replay_cex_namematch {
    use super::*;

    #[test]
    fn verif_replay_cex_namematch() {
        let db: Vec<u8> = {db};
        let dl: usize = {dl};
        let nb: Vec<u8> = {nb};
        let nl: usize = {nl};
        let d = std::str::from_utf8(&db[..dl]).unwrap();
        let n = std::str::from_utf8(&nb[..nl]).unwrap();
        let t = Transition {
            id: 1,
            doc_id: 1,
            events: vec![d.to_string()],
            wildcard: false,
            cond: Data::Null(),
            source: 1,
            target: vec![],
            transition_type: TransitionType::External,
            content: 0,
        };
        let nbytes = n.as_bytes();
        let dbytes = d.as_bytes();
        let expected = nbytes.len() >= dbytes.len()
            && &nbytes[..dbytes.len()] == dbytes
            && (nbytes.len() == dbytes.len() || nbytes[dbytes.len()] == b'.');
        let got = t.nameMatch(n);
        assert!(got == expected, "descriptor {:?} against event name {:?}: nameMatch returned {}, token-prefix rule says {}", d, n, got, expected);
    }
}
