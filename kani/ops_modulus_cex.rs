
#[cfg(test)]
mod verif_replay_cex_ops {
    use super::*;

    #[test]
    fn verif_replay_cex_ops_modulus() {
        let a: i64 = {a};
        let b: i64 = {b};
        let r = std::panic::catch_unwind(|| operation_modulus(&Data::Integer(a), &Data::Integer(b)));
        assert!(r.is_ok(), "operation_modulus(Integer({}), Integer({})) panicked instead of returning a value or an error", a, b);
    }
}
