#![allow(unused_imports, unused_variables, unused_mut, unused_assignments, dead_code, non_snake_case, unused_parens, unused_braces, non_camel_case_types, non_upper_case_globals)]
use vstd::prelude::*;
use vstd::string::*;
use vstd::utf8::*;
use std::collections::HashMap;
verus! {

// ===== prelude: ../_common/format.rs =====
/// R4: `format!(..)` is replaced by this stand-in: an unconstrained String (the text is only logged,
/// or its content is irrelevant for the contracts that mention it).
#[verifier::external_body]
pub fn verif_format() -> (r: String) {
    String::new()
}


// ===== prelude: prelude.rs =====
// TRUSTED stand-ins (assumption ledger A4): std::io::Write + byteorder::WriteBytesExt seen as one
// trait over an abstract byte sink `out()`.  Nothing here is proved; every item is listed in the
// evidence under trusted_base.
#[verifier::external_type_specification]
#[verifier::external_body]
pub struct ExIoError(std::io::Error);

pub trait Write {
    /// all bytes accepted by the sink so far
    spec fn out(&self) -> Seq<u8>;

    /// std::io::Write::write: may accept any prefix of buf (short write)
    fn write(&mut self, buf: &[u8]) -> (r: std::io::Result<usize>)
        ensures
            match r {
                Ok(n) => n <= buf@.len() && final(self).out() == old(self).out() + buf@.subrange(0, n as int),
                Err(_) => true,
            };

    /// std::io::Write::write_all: everything or Err
    fn write_all(&mut self, buf: &[u8]) -> (r: std::io::Result<()>)
        ensures
            r.is_ok() ==> final(self).out() == old(self).out() + buf@;

    /// byteorder::WriteBytesExt::write_u8 == write_all(&[n])
    fn write_u8(&mut self, n: u8) -> (r: std::io::Result<()>)
        ensures
            r.is_ok() ==> final(self).out() == old(self).out().push(n);

    fn flush(&mut self) -> (r: std::io::Result<()>)
        ensures
            final(self).out() == old(self).out();
}

pub mod trusted_axioms {
    use super::*;

    /// A4: a real `str` never holds more than isize::MAX bytes (vstd's `str::len` clips to usize otherwise)
    #[verifier::external_body]
    pub broadcast proof fn axiom_str_len_fits(s: &str)
        ensures
            #[trigger] s.spec_bytes().len() <= usize::MAX,
    {
    }
}


/// stand-in for std::io::Read + byteorder::ReadBytesExt over an abstract byte source `rest()`.
/// `eof_only()`: the source fails only when it runs out of data (no transient I/O errors).
pub trait Read {
    spec fn rest(&self) -> Seq<u8>;
    spec fn eof_only(&self) -> bool;

    /// byteorder::ReadBytesExt::read_u8 == read_exact into a 1-byte buffer
    fn read_u8(&mut self) -> (r: std::io::Result<u8>)
        ensures
            final(self).eof_only() == old(self).eof_only(),
            match r {
                Ok(b) => old(self).rest().len() >= 1 && b == old(self).rest()[0]
                    && final(self).rest() == old(self).rest().subrange(1, old(self).rest().len() as int),
                Err(_) => old(self).eof_only() ==> old(self).rest().len() == 0,
            };

    /// std::io::Read::read_exact: fills buf completely or fails
    fn read_exact(&mut self, buf: &mut [u8]) -> (r: std::io::Result<()>)
        ensures
            final(self).eof_only() == old(self).eof_only(),
            final(buf)@.len() == old(buf)@.len(),
            match r {
                Ok(_) => old(self).rest().len() >= old(buf)@.len() && final(buf)@ == old(self).rest().subrange(0, old(buf)@.len() as int)
                    && final(self).rest() == old(self).rest().subrange(old(buf)@.len() as int, old(self).rest().len() as int),
                Err(_) => old(self).eof_only() ==> old(self).rest().len() < old(buf)@.len(),
            };

    /// std::io::Read::read: transfers SOME prefix of the remaining bytes, possibly fewer than `buf` holds (0 at the
    /// end of the data); the rest of `buf` keeps its old contents.  Not used by the code as it stands; present so
    /// that a change from read_exact to read is judged against the contracts instead of falling out of the subset.
    fn read(&mut self, buf: &mut [u8]) -> (r: std::io::Result<usize>)
        ensures
            final(self).eof_only() == old(self).eof_only(),
            final(buf)@.len() == old(buf)@.len(),
            match r {
                Ok(n) => n <= old(buf)@.len() && n <= old(self).rest().len()
                    && final(buf)@.subrange(0, n as int) == old(self).rest().subrange(0, n as int)
                    && final(buf)@.subrange(n as int, old(buf)@.len() as int) == old(buf)@.subrange(n as int, old(buf)@.len() as int)
                    && final(self).rest() == old(self).rest().subrange(n as int, old(self).rest().len() as int),
                Err(_) => true,
            };
}

// ---- A4 / A6: std string functions without vstd specification --------------------------------
#[verifier::external_type_specification]
#[verifier::external_body]
pub struct ExUtf8Error(std::str::Utf8Error);

/// std::str::from_utf8 succeeds exactly on valid UTF-8 and then yields those very bytes
pub assume_specification [std::str::from_utf8] (b: &[u8]) -> (r: std::result::Result<&str, std::str::Utf8Error>)
    ensures
        r.is_ok() == valid_utf8(b@),
        r.is_ok() ==> r.unwrap().spec_bytes() == b@;

/// String::insert_str(0, s) on an empty string makes it equal to s (only this use occurs)
pub assume_specification [std::string::String::insert_str] (s: &mut std::string::String, idx: usize, t: &str)
    requires
        idx == 0,
        old(s)@.len() == 0,
    ensures
        final(s)@ == t@;

/// `String == str` compares the character sequences
pub assume_specification [<String as PartialEq<str>>::eq] (a: &String, b: &str) -> (r: bool)
    ensures
        r == (a@ == b@);


// ===== prelude: prelude_data.rs =====
// TRUSTED stand-ins for the value model (src/datamodel/mod.rs) as far as the value codec touches it.

pub type SourceId = usize;

/// `Arc<Mutex<Data>>` plus flags: opaque here; container payloads are not under contract
#[verifier::external_body]
pub struct DataArc {
    _p: (),
}

/// the text `to_string` produces for a number (uninterpreted; `str::parse` is assumed to invert it)
pub trait NumText {
    spec fn num_text(&self) -> Seq<char>;
}

impl NumText for i64 {
    uninterp spec fn num_text(&self) -> Seq<char>;
}

impl NumText for f64 {
    uninterp spec fn num_text(&self) -> Seq<char>;
}

pub open spec fn i64_text(v: i64) -> Seq<char> {
    v.num_text()
}

pub open spec fn f64_text(v: f64) -> Seq<char> {
    v.num_text()
}

/// R19: `val.to_string()` on an i64 / f64
#[verifier::external_body]
pub fn verif_num_to_string<T: NumText + std::string::ToString>(v: &T) -> (r: String)
    ensures
        r@ == v.num_text(),
{
    v.to_string()
}

/// R19: the element loops of the container variants (`for v in val { self.write_data_arc(v); }` and the map loop):
/// NOT under contract (they lock each element's mutex and iterate a HashMap); only the sticky error flag is assumed
#[verifier::external_body]
pub fn verif_write_array_items<W: Write>(w: &mut DefaultProtocolWriter<W>, val: &Vec<DataArc>)
    ensures
        !old(w).ok ==> !final(w).ok && final(w).writer.out() == old(w).writer.out(),
{
    unimplemented!()
}

#[verifier::external_body]
pub fn verif_write_map_items<W: Write>(w: &mut DefaultProtocolWriter<W>, val: &HashMap<String, DataArc>)
    ensures
        !old(w).ok ==> !final(w).ok && final(w).writer.out() == old(w).writer.out(),
{
    unimplemented!()
}

/// the error of `str::parse`; only its text is used (in a log line)
#[verifier::external_body]
pub struct VerifParseError {
    _p: (),
}

/// R19: `rv.parse::<i64>()`: std's parser inverts std's `to_string` (assumed)
#[verifier::external_body]
pub fn verif_parse_i64(s: &String) -> (r: Result<i64, VerifParseError>)
    ensures
        forall|v: i64| s@ == i64_text(v) ==> r == Ok::<i64, VerifParseError>(v),
{
    unimplemented!()
}

/// R19: `rv.parse::<f64>()`
#[verifier::external_body]
pub fn verif_parse_f64(s: &String) -> (r: Result<f64, VerifParseError>)
    ensures
        forall|v: f64| s@ == f64_text(v) ==> r == Ok::<f64, VerifParseError>(v),
{
    unimplemented!()
}

impl SourceCode {
    /// `SourceCode { source: source.to_string(), source_id }` (src/datamodel/mod.rs)
    #[verifier::external_body]
    pub fn new(source: &str, source_id: SourceId) -> (r: SourceCode)
        ensures
            r.source@ == source@,
            r.source_id == source_id,
    {
        unimplemented!()
    }
}

/// R19: the element loops of the container variants in read_data_value_payload (`val.push(self.read_data_arc())`,
/// `val.insert(k, self.read_data_arc())`): NOT under contract; only the sticky error flag is assumed
#[verifier::external_body]
pub fn verif_read_array_items<R: Read>(r: &mut DefaultProtocolReader<R>, val: &mut Vec<DataArc>, len: usize)
    ensures
        !old(r).ok ==> !final(r).ok && final(r).reader == old(r).reader,
        final(r).reader.eof_only() == old(r).reader.eof_only(),
{
    unimplemented!()
}

#[verifier::external_body]
pub fn verif_read_map_items<R: Read>(r: &mut DefaultProtocolReader<R>, val: &mut HashMap<String, DataArc>, len: usize)
    ensures
        !old(r).ok ==> !final(r).ok && final(r).reader == old(r).reader,
        final(r).reader.eof_only() == old(r).reader.eof_only(),
{
    unimplemented!()
}

#[verifier::external_body]
pub fn verif_map_with_capacity(len: usize) -> (r: HashMap<String, DataArc>) {
    HashMap::with_capacity(len)
}


broadcast use {trusted_axioms::axiom_str_len_fits};

// ===== spec: spec.rs =====
// The binary format, written down once from default_protocol_definitions.rs and the property
// text (C05: "unsigned integers over the full 64-bit range and every width boundary, strings of
// every length").  Pure mathematics; contains no assumption.

/// number of payload bytes of the width class of v: least k with v < 2^(4+8k), 8 for v >= 2^60
pub open spec fn uint_class(v: u64) -> int {
    if v < 0x10 { 0 }
    else if v < 0x1000 { 1 }
    else if v < 0x10_0000 { 2 }
    else if v < 0x1000_0000 { 3 }
    else if v < 0x10_0000_0000 { 4 }
    else if v < 0x1000_0000_0000 { 5 }
    else if v < 0x10_0000_0000_0000 { 6 }
    else if v < 0x1000_0000_0000_0000 { 7 }
    else { 8 }
}

/// k payload bytes of v, most significant first: byte i is bits [8(k-1-i), 8(k-i)) of v
pub open spec fn be_bytes(v: u64, k: int) -> Seq<u8> {
    Seq::new(k as nat, |i: int| (v >> ((8 * (k - 1 - i)) as u64)) as u8)
}

/// first byte: type nibble | the 4 bits above the payload (none left for the 68-bit class)
pub open spec fn head_byte(type_id: u8, v: u64, k: int) -> u8 {
    if k >= 8 { type_id } else { type_id | (((v >> ((8 * k) as u64)) as u8) & 0x0F) }
}

pub open spec fn tv_bytes(type_id: u8, v: u64, k: int) -> Seq<u8> {
    seq![head_byte(type_id, v, k)] + be_bytes(v, k)
}

pub open spec fn is_type_id(t: u8) -> bool {
    t == 0x30 || t == 0x40 || t == 0x50 || t == 0x60 || t == 0x70 || t == 0x80 || t == 0x90 || t == 0xA0
        || t == 0xB0 || t == 0xC0 || t == 0xD0
}

pub open spec fn uint_type(k: int) -> u8 {
    (0x30 + 0x10 * k) as u8
}

pub open spec fn enc_uint(v: u64) -> Seq<u8> {
    tv_bytes(uint_type(uint_class(v)), v, uint_class(v))
}

pub open spec fn enc_bool(b: bool) -> Seq<u8> {
    if b { seq![0x1Fu8] } else { seq![0x10u8] }
}

/// a string is its UTF-8 bytes behind a 4- or 12-bit length; the format has no encoding for 4096+ bytes
pub open spec fn str_encodable(bytes: Seq<u8>) -> bool {
    bytes.len() < 4096
}

pub open spec fn enc_str(bytes: Seq<u8>) -> Seq<u8> {
    if bytes.len() < 16 {
        tv_bytes(0xC0u8, bytes.len() as u64, 0) + bytes
    } else {
        tv_bytes(0xD0u8, bytes.len() as u64, 1) + bytes
    }
}

pub open spec fn enc_opt_str(o: Option<Seq<u8>>) -> Seq<u8> {
    match o {
        None => seq![0x10u8],
        Some(b) => enc_str(b),
    }
}

/// shape of every writer postcondition: success means "was ok and exactly these bytes were appended";
/// a writer already in error state appends nothing (and stays in error state, by the first part)
pub open spec fn wr_post(ok0: bool, out0: Seq<u8>, ok1: bool, out1: Seq<u8>, bytes: Seq<u8>) -> bool {
    (ok1 ==> ok0 && out1 == out0 + bytes) && (!ok0 ==> out1 == out0)
}

pub open spec fn opt_str_bytes(o: Option<String>) -> Option<Seq<u8>> {
    match o {
        None => None,
        Some(s) => Some(encode_utf8(s@)),
    }
}

pub open spec fn opt_str_encodable(o: Option<String>) -> bool {
    match o {
        None => true,
        Some(s) => str_encodable(encode_utf8(s@)),
    }
}

// ---------------------------------------------------------------------------------------------
// Decoder side: what one "type and value" token at the head of a byte sequence means.
// ---------------------------------------------------------------------------------------------

/// left fold: acc, then each payload byte shifted in from the right (big endian)
pub open spec fn be_value(acc: u64, p: Seq<u8>) -> u64
    decreases p.len(),
{
    if p.len() == 0 {
        acc
    } else {
        be_value((acc << 8) | (p[0] as u64), p.subrange(1, p.len() as int))
    }
}

pub enum Tv {
    /// the sequence ends before the token is complete
    Eof,
    /// string payload is not valid UTF-8
    BadUtf8,
    /// head byte of no known class (0x0_, 0x2_, 0xE_, 0xF_): the reader keeps stale state, nothing is promised
    Unknown,
    /// 0x1_ : a one-byte tag (boolean / "none" marker)
    Tag(u8),
    /// number of width class k with value v; n bytes consumed
    Num(int, u64, int),
    /// string token of type t (0xC0 | 0xD0) with these bytes; n bytes consumed
    Str(u8, Seq<u8>, int),
}

pub open spec fn dec_tv(s: Seq<u8>) -> Tv {
    if s.len() == 0 {
        Tv::Eof
    } else {
        let h = s[0];
        let low = (h % 16) as u8;
        if 0x10 <= h && h <= 0x1F {
            Tv::Tag(h)
        } else if 0x30 <= h && h <= 0xBF {
            let k = (h as int - 0x30) / 0x10;
            if s.len() < 1 + k {
                Tv::Eof
            } else {
                Tv::Num(k, be_value(low as u64, s.subrange(1, 1 + k)), 1 + k)
            }
        } else if 0xC0 <= h && h <= 0xCF {
            let n = low as int;
            if s.len() < 1 + n {
                Tv::Eof
            } else if !valid_utf8(s.subrange(1, 1 + n)) {
                Tv::BadUtf8
            } else {
                Tv::Str(0xC0u8, s.subrange(1, 1 + n), 1 + n)
            }
        } else if 0xD0 <= h && h <= 0xDF {
            if s.len() < 2 {
                Tv::Eof
            } else {
                let n = ((low as int) * 256) + s[1] as int;
                if s.len() < 2 + n {
                    Tv::Eof
                } else if !valid_utf8(s.subrange(2, 2 + n)) {
                    Tv::BadUtf8
                } else {
                    Tv::Str(0xD0u8, s.subrange(2, 2 + n), 2 + n)
                }
            }
        } else {
            Tv::Unknown
        }
    }
}

pub open spec fn skip(s: Seq<u8>, n: int) -> Seq<u8> {
    s.subrange(n, s.len() as int)
}

pub open spec fn is_uint_type(t: u8) -> bool {
    t == 0x30 || t == 0x40 || t == 0x50 || t == 0x60 || t == 0x70 || t == 0x80 || t == 0x90 || t == 0xA0 || t == 0xB0
}

/// postcondition shape of read_type_and_size for a reader that was ok
pub open spec fn tv_post(rest0: Seq<u8>, rel: bool, ok1: bool, rest1: Seq<u8>, type1: u8, num1: u64, str1: Seq<u8>) -> bool {
    match dec_tv(rest0) {
        Tv::Eof => !ok1,
        Tv::BadUtf8 => !ok1,
        Tv::Unknown => true,
        Tv::Tag(b) => (rel ==> ok1) && (ok1 ==> type1 == b && rest1 == skip(rest0, 1)),
        Tv::Num(k, v, n) => (rel ==> ok1) && (ok1 ==> type1 == uint_type(k) && num1 == v && rest1 == skip(rest0, n)),
        Tv::Str(t, b, n) => (rel ==> ok1) && (ok1 ==> type1 == t && str1 == b && rest1 == skip(rest0, n)),
    }
}

/// the token is a number: Some((value, bytes consumed)); a token of another kind / cut off / malformed: None
pub open spec fn num_token(rest0: Seq<u8>) -> Option<(u64, int)> {
    match dec_tv(rest0) {
        Tv::Num(k, v, n) => Some((v, n)),
        _ => None,
    }
}

pub open spec fn str_token(rest0: Seq<u8>) -> Option<(Seq<u8>, int)> {
    match dec_tv(rest0) {
        Tv::Str(t, b, n) => Some((b, n)),
        _ => None,
    }
}

pub open spec fn unknown_head(rest0: Seq<u8>) -> bool {
    dec_tv(rest0) == Tv::Unknown
}

/// shape shared by all read_* postconditions (reader ok before the call):
/// tok = what the spec decoder sees, got = what the call returned matches it
pub open spec fn rd_post(present: bool, unknown: bool, rel: bool, ok1: bool, rest0: Seq<u8>, n: int, rest1: Seq<u8>, value_ok: bool) -> bool {
    if unknown {
        true
    } else if present {
        (rel ==> ok1) && (ok1 ==> value_ok && rest1 == skip(rest0, n))
    } else {
        !ok1
    }
}

/// UTF-8 encoding is injective (vstd: decode_utf8(encode_utf8(c)) == c)
pub proof fn lemma_utf8_injective(a: Seq<char>, b: Seq<char>)
    requires
        encode_utf8(a) == encode_utf8(b),
    ensures
        a == b,
{
    encode_utf8_decode_utf8(a);
    encode_utf8_decode_utf8(b);
}


// ===== spec: spec_data.rs =====
// Byte format of data values (DESIGN appendix A.1: enc_data): tag, then the payload.

/// the scalar variants: everything except Array and Map
pub open spec fn data_scalar(d: Data) -> bool {
    !(d is Array) && !(d is Map)
}

pub open spec fn data_tag(d: Data) -> u64 {
    match d {
        Data::Null() => 0,
        Data::Integer(_) => 1,
        Data::Double(_) => 2,
        Data::String(_) => 3,
        Data::Boolean(_) => 4,
        Data::Array(_) => 5,
        Data::Map(_) => 6,
        Data::Error(_) => 7,
        Data::Source(_) => 8,
        Data::None() => 9,
    }
}

/// payload of a scalar value
pub open spec fn enc_data_payload(d: Data) -> Seq<u8> {
    match d {
        Data::Integer(v) => enc_str(encode_utf8(i64_text(v))),
        Data::Double(v) => enc_str(encode_utf8(f64_text(v))),
        Data::String(s) => enc_str(encode_utf8(s@)),
        Data::Boolean(b) => enc_bool(b),
        Data::Error(s) => enc_str(encode_utf8(s@)),
        Data::Source(s) => enc_str(encode_utf8(s.source@)) + enc_uint(s.source_id as u64),
        _ => Seq::<u8>::empty(),
    }
}

pub open spec fn enc_data_scalar(d: Data) -> Seq<u8> {
    enc_uint(data_tag(d)) + enc_data_payload(d)
}

/// every string inside the value has an encoding (< 4096 bytes)
pub open spec fn data_scalar_encodable(d: Data) -> bool {
    match d {
        Data::Integer(v) => str_encodable(encode_utf8(i64_text(v))),
        Data::Double(v) => str_encodable(encode_utf8(f64_text(v))),
        Data::String(s) => str_encodable(encode_utf8(s@)),
        Data::Error(s) => str_encodable(encode_utf8(s@)),
        Data::Source(s) => str_encodable(encode_utf8(s.source@)),
        _ => true,
    }
}

pub const FSM_PROTOCOL_TYPE_PROTOCOL_VERSION: &'static str = "DwP1.1";
pub const FSM_PROTOCOL_TYPE_OPT_STRING_NONE: u8 = 0x10;
pub const FSM_PROTOCOL_TYPE_BOOLEAN_TRUE: u8 = 0x1F;
pub const FSM_PROTOCOL_TYPE_BOOLEAN_FALSE: u8 = 0x10;
pub const FSM_PROTOCOL_TYPE_INT_4BIT: u8 = 0x30;
pub const FSM_PROTOCOL_TYPE_INT_12BIT: u8 = 0x40;
pub const FSM_PROTOCOL_TYPE_INT_20BIT: u8 = 0x50;
pub const FSM_PROTOCOL_TYPE_INT_28BIT: u8 = 0x60;
pub const FSM_PROTOCOL_TYPE_INT_36BIT: u8 = 0x70;
pub const FSM_PROTOCOL_TYPE_INT_44BIT: u8 = 0x80;
pub const FSM_PROTOCOL_TYPE_INT_52BIT: u8 = 0x90;
pub const FSM_PROTOCOL_TYPE_INT_60BIT: u8 = 0xA0;
pub const FSM_PROTOCOL_TYPE_INT_68BIT: u8 = 0xB0;
pub const FSM_PROTOCOL_TYPE_STRING_LENGTH_4BIT: u8 = 0xC0;
pub const FSM_PROTOCOL_TYPE_STRING_LENGTH_12BIT: u8 = 0xD0;
pub const FSM_PROTOCOL_FLAG_HISTORY_TYPE_MASK: u16 = 0x03;
pub const FSM_PROTOCOL_FLAG_ON_ENTRY: u16 = 0x04;
pub const FSM_PROTOCOL_FLAG_ON_EXIT: u16 = 0x08;
pub const FSM_PROTOCOL_FLAG_STATES: u16 = 0x10;
pub const FSM_PROTOCOL_FLAG_IS_FINAL: u16 = 0x20;
pub const FSM_PROTOCOL_FLAG_IS_PARALLEL: u16 = 0x40;
pub const FSM_PROTOCOL_FLAG_DONE_DATA: u16 = 0x80;
pub const FSM_PROTOCOL_FLAG_INVOKE: u16 = 0x100;
pub const FSM_PROTOCOL_FLAG_DATA: u16 = 0x200;
pub const FSM_PROTOCOL_FLAG_HISTORY: u16 = 0x400;
pub const FSM_PROTOCOL_TYPE_OPT_DATA_VALUE_NONE: u8 = 0x0A;
pub struct DefaultProtocolWriter<W> {
    pub writer: W,
    pub ok: bool,
}

pub struct SourceCode {
    pub source: String,

    /// The unique Id of the script. Unique only inside the current life-cycle.\
    /// Invalid if 0-
    pub source_id: SourceId,
}

pub enum Data {
    Integer(i64),
    Double(f64),
    String(String),
    Boolean(bool),
    Array(Vec<DataArc>),
    /// A map, can also be used to store "object"-like data-structures.
    Map(HashMap<String, DataArc>),
    Null(),
    /// Special placeholder to indicate an error
    Error(String),
    /// Special placeholder to indicate script source (from FSM definition) that needs to be evaluated by the datamodel.
    Source(SourceCode),
    /// Special placeholder to indicate empty content.
    None(),
}

pub trait ProtocolWriter<W: Write> {
    // ghost view members added by rule R15 (no executable text)
    spec fn pout(&self) -> Seq<u8>;
    spec fn pok(&self) -> bool;

fn write_version(&mut self)
    ensures
        wr_post(old(self).pok(), old(self).pout(), final(self).pok(), final(self).pout(), enc_str(FSM_PROTOCOL_TYPE_PROTOCOL_VERSION.spec_bytes())),
;

fn close(&mut self)
    ensures
        final(self).pout() == old(self).pout(), final(self).pok() ==> old(self).pok(),
;

fn write_boolean(&mut self, value: bool)
    ensures
        wr_post(old(self).pok(), old(self).pout(), final(self).pok(), final(self).pout(), enc_bool(value)),
;

fn write_option_string(&mut self, value: &Option<String>)
    ensures
        opt_str_encodable(*value) ==> wr_post(old(self).pok(), old(self).pout(), final(self).pok(), final(self).pout(), enc_opt_str(opt_str_bytes(*value))),
        !opt_str_encodable(*value) ==> !final(self).pok(),
        !old(self).pok() ==> !final(self).pok() && final(self).pout() == old(self).pout(),
;

fn write_data(&mut self, value: &Data)
    ensures
        data_scalar(*value) && data_scalar_encodable(*value) ==> wr_post(old(self).pok(), old(self).pout(), final(self).pok(), final(self).pout(), enc_data_scalar(*value)),
        !old(self).pok() ==> !final(self).pok() && final(self).pout() == old(self).pout(),
;

fn write_str(&mut self, value: &str)
    ensures
        str_encodable(value.spec_bytes()) ==> wr_post(old(self).pok(), old(self).pout(), final(self).pok(), final(self).pout(), enc_str(value.spec_bytes())),
        !str_encodable(value.spec_bytes()) ==> !final(self).pok(),
        !old(self).pok() ==> !final(self).pok() && final(self).pout() == old(self).pout(),
;

fn write_usize(&mut self, value: usize)
    ensures
        wr_post(old(self).pok(), old(self).pout(), final(self).pok(), final(self).pout(), enc_uint(value as u64)),
;

fn write_uint(&mut self, value: u64)
    ensures
        wr_post(old(self).pok(), old(self).pout(), final(self).pok(), final(self).pout(), enc_uint(value)),
;

fn write_u8(&mut self, value: u8) 
    ensures
        wr_post(old(self).pok(), old(self).pout(), final(self).pok(), final(self).pout(), enc_uint(value as u64)),
{
        self.write_uint(value as u64)
    }

fn has_error(&self) -> (r: bool) 
    ensures
        r == !self.pok(),
;

fn get_writer(&self) -> &W;

}

impl<W: Write> DefaultProtocolWriter<W> {
pub fn new(writer: W) -> (r: DefaultProtocolWriter<W>) 
    ensures
        r.ok && r.writer == writer,
{
        DefaultProtocolWriter { writer, ok: true }
    }

fn eval_result(&mut self, result: std::io::Result<()>) 
    ensures
        final(self).writer == old(self).writer,
        final(self).ok == (old(self).ok && result.is_ok()),
{
        match result {
            Ok(_v) => {}
            Err(err) => {
                
                self.ok = false;
            }
        }
    }

fn write_type_and_value(&mut self, type_id: u8, value: u64, mut size: u8) 
    requires
        size >= 4 && size <= 68 && (size - 4) % 8 == 0,
        is_type_id(type_id),

    ensures
        wr_post(old(self).ok, old(self).writer.out(), final(self).ok, final(self).writer.out(), tv_bytes(type_id, value, (size - 4) / 8)),
{
 let ghost k0: int = (size as int - 4) / 8;

proof {  assert(k0 <= 8 && size as int == 8 * k0 + 4); }

        if self.ok {
            size = size.saturating_sub(4);
            // The 68-bit class has no value bits left for the type byte (u64 has only 64).
            let high = if size < 64 { ((value >> size) as u8) & 0x0F } else { 0 };
            let mut r = self.writer.write_u8(type_id | high);
proof {  assert(type_id | 0u8 == type_id) by (bit_vector); assert((8 * k0) as u64 == size as u64); }

            while size > 0 && r.is_ok() 
        invariant
            self.ok == old(self).ok, self.ok,
            size % 8 == 0, size as int <= 8 * k0, k0 <= 8,
            r.is_ok() ==> self.writer.out() == old(self).writer.out() + seq![head_byte(type_id, value, k0)] + be_bytes(value, k0).subrange(0, k0 - size as int / 8),
        decreases size
    {
                size = size.saturating_sub(8);
                r = self.writer.write_u8((value >> size) as u8);
            
proof {  let j = k0 - (size as int + 8) / 8;
    assert(be_bytes(value, k0).subrange(0, j + 1) == be_bytes(value, k0).subrange(0, j).push(be_bytes(value, k0)[j]));
    assert((8 * (k0 - 1 - j)) as u64 == size as u64); }
}
proof {  assert(be_bytes(value, k0).subrange(0, k0) == be_bytes(value, k0));
    assert(r.is_ok() ==> self.writer.out() == old(self).writer.out() + tv_bytes(type_id, value, k0)); }

            self.eval_result(r);
        }
    }

}

impl<W: Write> ProtocolWriter<W> for DefaultProtocolWriter<W> {
    closed spec fn pout(&self) -> Seq<u8> { self.writer.out() }
    closed spec fn pok(&self) -> bool { self.ok }

fn write_version(&mut self) {
        self.write_str(FSM_PROTOCOL_TYPE_PROTOCOL_VERSION);
    }

fn close(&mut self) {
        if self.ok {
            let r = self.writer.flush();
            self.eval_result(r);
        }
    }

fn write_boolean(&mut self, value: bool) {
proof {  assert(old(self).writer.out().push(if value { 0x1Fu8 } else { 0x10u8 }) == old(self).writer.out() + enc_bool(value)); }

        if self.ok {
            
            let r = self.writer.write_u8(if value {
                FSM_PROTOCOL_TYPE_BOOLEAN_TRUE
            } else {
                FSM_PROTOCOL_TYPE_BOOLEAN_FALSE
            });
            self.eval_result(r);
        }
    }

fn write_option_string(&mut self, value: &Option<String>) {
proof {  assert(old(self).writer.out().push(0x10u8) == old(self).writer.out() + seq![0x10u8]); }

        if value.is_some() {
            self.write_str(value.as_ref().unwrap().as_str());
        } else if self.ok {
            let r = self.writer.write_u8(FSM_PROTOCOL_TYPE_OPT_STRING_NONE);
            self.eval_result(r);
        }
    }

fn write_data(&mut self, value: &Data) {
        match value {
            Data::Integer(val) => {
                self.write_u8(1);
                self.write_str(verif_num_to_string(val).as_str());
            }
            Data::Double(val) => {
                self.write_u8(2);
                self.write_str(verif_num_to_string(val).as_str());
            }
            Data::String(val) => {
                self.write_u8(3);
                self.write_str(val.as_str());
            }
            Data::Boolean(val) => {
                self.write_u8(4);
                self.write_boolean(*val);
            }
            Data::Array(val) => {
                self.write_u8(5);
                self.write_usize(val.len());
                verif_write_array_items(self, val);
            }
            Data::Map(val) => {
                self.write_u8(6);
                self.write_usize(val.len());
                verif_write_map_items(self, val);
            }
            Data::Error(s) => {
                self.write_u8(7);
                self.write_str(s.as_str());
            }
            Data::Source(s) => {
                self.write_u8(8);
                self.write_str(s.source.as_str());
                self.write_usize(s.source_id);
            }
            Data::None() => {
                self.write_u8(9);
            }
            Data::Null() => {
                self.write_u8(0);
            }
        }
    
proof {  if self.pok() && data_scalar(*value) && data_scalar_encodable(*value) { assert(self.pout() =~= old(self).pout() + enc_data_scalar(*value)); } }
}

fn write_str(&mut self, value: &str) {
proof {  assert((1usize << 4) == 16 && (1usize << 12) == 4096) by (bit_vector); }

        if self.ok {
            
            let len = value.len();
            if len < (1usize << 4) {
                self.write_type_and_value(FSM_PROTOCOL_TYPE_STRING_LENGTH_4BIT, len as u64, 4);
            } else if len < (1usize << 12) {
                self.write_type_and_value(FSM_PROTOCOL_TYPE_STRING_LENGTH_12BIT, len as u64, 12);
            } else {
                // The format has no encoding for longer strings. Fail instead of writing a corrupt image.
                
                self.ok = false;
                return;
            }
            if self.ok {
                // "write" may accept only a part of the buffer, "write_all" doesn't.
                let r = self.writer.write_all(value.as_bytes());
                self.eval_result(r);
            }
        }
    
proof {  let b = value.spec_bytes();
    let o = old(self).writer.out();
    let n = b.len() as u64;
    assert(o + tv_bytes(0xC0u8, n, 0) + b == o + (tv_bytes(0xC0u8, n, 0) + b));
    assert(o + tv_bytes(0xD0u8, n, 1) + b == o + (tv_bytes(0xD0u8, n, 1) + b)); }
}

fn write_usize(&mut self, value: usize) {
        self.write_uint(value as u64)
    }

fn write_uint(&mut self, value: u64) {
proof {  assert((1u64 << 4) == 0x10 && (1u64 << 12) == 0x1000 && (1u64 << 20) == 0x10_0000 && (1u64 << 28) == 0x1000_0000
        && (1u64 << 36) == 0x10_0000_0000 && (1u64 << 44) == 0x1000_0000_0000 && (1u64 << 52) == 0x10_0000_0000_0000
        && (1u64 << 60) == 0x1000_0000_0000_0000) by (bit_vector); }

        
        if value < (1u64 << 4) {
            self.write_type_and_value(FSM_PROTOCOL_TYPE_INT_4BIT, value, 4);
        } else if value < (1u64 << 12) {
            self.write_type_and_value(FSM_PROTOCOL_TYPE_INT_12BIT, value, 12);
        } else if value < (1u64 << 20) {
            self.write_type_and_value(FSM_PROTOCOL_TYPE_INT_20BIT, value, 20);
        } else if value < (1u64 << 28) {
            self.write_type_and_value(FSM_PROTOCOL_TYPE_INT_28BIT, value, 28);
        } else if value < (1u64 << 36) {
            self.write_type_and_value(FSM_PROTOCOL_TYPE_INT_36BIT, value, 36);
        } else if value < (1u64 << 44) {
            self.write_type_and_value(FSM_PROTOCOL_TYPE_INT_44BIT, value, 44);
        } else if value < (1u64 << 52) {
            self.write_type_and_value(FSM_PROTOCOL_TYPE_INT_52BIT, value, 52);
        } else if value < (1u64 << 60) {
            self.write_type_and_value(FSM_PROTOCOL_TYPE_INT_60BIT, value, 60);
        } else {
            self.write_type_and_value(FSM_PROTOCOL_TYPE_INT_68BIT, value, 68);
        }
    }

fn has_error(&self) -> bool {
        !self.ok
    }

fn get_writer(&self) -> &W {
        &self.writer
    }

}

pub struct TypeAndValue {
    pub type_id: u8,
    pub number: u64,
    pub string: String,
}

pub struct DefaultProtocolReader<R>
where
    R: Read,
{
    pub reader: R,
    pub ok: bool,
    pub type_and_value: TypeAndValue,
    pub buffer: [u8; 4096],
}

pub trait ProtocolReader<R: Read> {
    // ghost view members added by rule R15 (no executable text)
    spec fn prest(&self) -> Seq<u8>;
    spec fn pok(&self) -> bool;
    spec fn preliable(&self) -> bool;

fn verify_version(&mut self)
    ensures
        !old(self).pok() ==> !final(self).pok() && final(self).prest() == old(self).prest(),
        final(self).preliable() == old(self).preliable(),
        old(self).pok() ==> rd_post(str_token(old(self).prest()).is_some() && str_token(old(self).prest()).unwrap().0 == FSM_PROTOCOL_TYPE_PROTOCOL_VERSION.spec_bytes(), unknown_head(old(self).prest()), old(self).preliable(), final(self).pok(), old(self).prest(), str_token(old(self).prest()).unwrap().1, final(self).prest(), true),
;

fn close(&mut self)
    ensures
        final(self).prest() == old(self).prest() && final(self).pok() == old(self).pok() && final(self).preliable() == old(self).preliable(),
;

fn read_boolean(&mut self) -> (r: bool) 
    ensures
        !old(self).pok() ==> !final(self).pok() && !r && final(self).prest() == old(self).prest(),
        !final(self).pok() ==> !r,
        final(self).preliable() == old(self).preliable(),
        old(self).pok() ==> rd_post(old(self).prest().len() >= 1 && (old(self).prest()[0] == 0x1F || old(self).prest()[0] == 0x10), false, old(self).preliable(), final(self).pok(), old(self).prest(), 1, final(self).prest(), r == (old(self).prest()[0] == 0x1F)),
;

fn read_option_string(&mut self) -> (r: Option<String>) 
    ensures
        !old(self).pok() ==> !final(self).pok() && r.is_none() && final(self).prest() == old(self).prest(),
        !final(self).pok() ==> r.is_none(),
        final(self).preliable() == old(self).preliable(),
        old(self).pok() && dec_tv(old(self).prest()) != Tv::Tag(0x10u8) ==> rd_post(str_token(old(self).prest()).is_some(), unknown_head(old(self).prest()), old(self).preliable(), final(self).pok(), old(self).prest(), str_token(old(self).prest()).unwrap().1, final(self).prest(), r.is_some() && encode_utf8(r.unwrap()@) == str_token(old(self).prest()).unwrap().0),
        old(self).pok() && dec_tv(old(self).prest()) == Tv::Tag(0x10u8) ==> rd_post(true, false, old(self).preliable(), final(self).pok(), old(self).prest(), 1, final(self).prest(), r.is_none()),
;

fn read_string(&mut self) -> (r: String) 
    ensures
        !old(self).pok() ==> !final(self).pok() && r@.len() == 0 && final(self).prest() == old(self).prest(),
        !final(self).pok() ==> r@.len() == 0,
        final(self).preliable() == old(self).preliable(),
        old(self).pok() ==> rd_post(str_token(old(self).prest()).is_some(), unknown_head(old(self).prest()), old(self).preliable(), final(self).pok(), old(self).prest(), str_token(old(self).prest()).unwrap().1, final(self).prest(), encode_utf8(r@) == str_token(old(self).prest()).unwrap().0),
;

fn read_usize(&mut self) -> (r: usize) 
    ensures
        !old(self).pok() ==> !final(self).pok() && r == 0 && final(self).prest() == old(self).prest(),
        !final(self).pok() ==> r == 0,
        final(self).preliable() == old(self).preliable(),
        old(self).pok() ==> rd_post(num_token(old(self).prest()).is_some(), unknown_head(old(self).prest()), old(self).preliable(), final(self).pok(), old(self).prest(), num_token(old(self).prest()).unwrap().1, final(self).prest(), r == num_token(old(self).prest()).unwrap().0 as usize),
;

fn read_uint(&mut self) -> (r: u64) 
    ensures
        !old(self).pok() ==> !final(self).pok() && r == 0 && final(self).prest() == old(self).prest(),
        !final(self).pok() ==> r == 0,
        final(self).preliable() == old(self).preliable(),
        old(self).pok() ==> rd_post(num_token(old(self).prest()).is_some(), unknown_head(old(self).prest()), old(self).preliable(), final(self).pok(), old(self).prest(), num_token(old(self).prest()).unwrap().1, final(self).prest(), r == num_token(old(self).prest()).unwrap().0),
;

fn read_u8(&mut self) -> (r: u8) 
    ensures
        !old(self).pok() ==> !final(self).pok() && r == 0 && final(self).prest() == old(self).prest(),
        !final(self).pok() ==> r == 0,
        final(self).preliable() == old(self).preliable(),
        old(self).pok() ==> rd_post(num_token(old(self).prest()).is_some(), unknown_head(old(self).prest()), old(self).preliable(), final(self).pok(), old(self).prest(), num_token(old(self).prest()).unwrap().1, final(self).prest(), r == num_token(old(self).prest()).unwrap().0 as u8),
{
        let u = self.read_uint();
        u as u8
    }

fn read_u16(&mut self) -> (r: u16) 
    ensures
        !old(self).pok() ==> !final(self).pok() && r == 0 && final(self).prest() == old(self).prest(),
        !final(self).pok() ==> r == 0,
        final(self).preliable() == old(self).preliable(),
        old(self).pok() ==> rd_post(num_token(old(self).prest()).is_some(), unknown_head(old(self).prest()), old(self).preliable(), final(self).pok(), old(self).prest(), num_token(old(self).prest()).unwrap().1, final(self).prest(), r == num_token(old(self).prest()).unwrap().0 as u16),
{
        let u = self.read_uint();
        u as u16
    }

fn read_u32(&mut self) -> (r: u32) 
    ensures
        !old(self).pok() ==> !final(self).pok() && r == 0 && final(self).prest() == old(self).prest(),
        !final(self).pok() ==> r == 0,
        final(self).preliable() == old(self).preliable(),
        old(self).pok() ==> rd_post(num_token(old(self).prest()).is_some(), unknown_head(old(self).prest()), old(self).preliable(), final(self).pok(), old(self).prest(), num_token(old(self).prest()).unwrap().1, final(self).prest(), r == num_token(old(self).prest()).unwrap().0 as u32),
{
        let u = self.read_uint();
        u as u32
    }

fn has_error(&self) -> (r: bool) 
    ensures
        r == !self.pok(),
;

}

impl<R: Read> DefaultProtocolReader<R> {
fn verify_number_type(&mut self) -> (r: bool) 
    ensures
        r == (old(self).ok && is_uint_type(old(self).type_and_value.type_id)),
        final(self).ok == r,
        final(self).reader == old(self).reader, r ==> *final(self) == *old(self),
        !old(self).ok ==> *final(self) == *old(self),
{
        if self.ok {
            match self.type_and_value.type_id {
                FSM_PROTOCOL_TYPE_INT_4BIT
                | FSM_PROTOCOL_TYPE_INT_12BIT
                | FSM_PROTOCOL_TYPE_INT_20BIT
                | FSM_PROTOCOL_TYPE_INT_28BIT
                | FSM_PROTOCOL_TYPE_INT_36BIT
                | FSM_PROTOCOL_TYPE_INT_44BIT
                | FSM_PROTOCOL_TYPE_INT_52BIT
                | FSM_PROTOCOL_TYPE_INT_60BIT
                | FSM_PROTOCOL_TYPE_INT_68BIT => true,
                _ => {
                    self.error(verif_format().as_str());
                    false
                }
            }
        } else {
            false
        }
    }

fn verify_string_type(&mut self) -> (r: bool) 
    ensures
        r == (old(self).ok && (old(self).type_and_value.type_id == 0xC0 || old(self).type_and_value.type_id == 0xD0)),
        final(self).ok == r,
        final(self).reader == old(self).reader, r ==> *final(self) == *old(self),
        !old(self).ok ==> *final(self) == *old(self),
{
        if self.ok {
            match self.type_and_value.type_id {
                FSM_PROTOCOL_TYPE_STRING_LENGTH_4BIT | FSM_PROTOCOL_TYPE_STRING_LENGTH_12BIT => true,
                _ => {
                    self.error(verif_format().as_str());
                    false
                }
            }
        } else {
            false
        }
    }

fn error(&mut self, err: &str) 
    ensures
        !final(self).ok,
        final(self).reader == old(self).reader,
        !old(self).ok ==> *final(self) == *old(self),
        old(self).ok ==> final(self).type_and_value.type_id == 0 && final(self).type_and_value.number == 0 && final(self).type_and_value.string@.len() == 0,
{
        if self.ok {
            
            self.ok = false;
            self.type_and_value.type_id = 0;
            self.type_and_value.number = 0;
            self.type_and_value.string.clear();
        }
    }

fn read_additional_number_bytes(&mut self, mut length: u8) 
    requires
        length <= 8,

    ensures
        !old(self).ok ==> *final(self) == *old(self),
        final(self).reader.eof_only() == old(self).reader.eof_only(),
        old(self).ok && old(self).reader.rest().len() < length ==> !final(self).ok,
        old(self).ok && old(self).reader.rest().len() >= length ==> (old(self).reader.eof_only() ==> final(self).ok)
    && (final(self).ok ==> final(self).type_and_value.number == be_value(old(self).type_and_value.number, old(self).reader.rest().subrange(0, length as int))
        && final(self).reader.rest() == skip(old(self).reader.rest(), length as int)
        && final(self).type_and_value.type_id == old(self).type_and_value.type_id),
        old(self).ok && !final(self).ok ==> final(self).type_and_value.type_id == 0 && final(self).type_and_value.string@.len() == 0,
{
 let ghost len0 = length as int;

        while length > 0 && self.ok 
        invariant
            length as int <= len0, len0 <= 8, self.reader.eof_only() == old(self).reader.eof_only(),
            !old(self).ok ==> *self == *old(self),
            old(self).ok && !self.ok ==> self.type_and_value.type_id == 0 && self.type_and_value.string@.len() == 0,
            old(self).ok && old(self).reader.rest().len() < len0 ==> (self.ok ==> self.reader.rest().len() < length),
            self.ok && old(self).reader.rest().len() >= len0 ==> self.reader.rest() == skip(old(self).reader.rest(), len0 - length)
    && self.type_and_value.type_id == old(self).type_and_value.type_id
    && be_value(self.type_and_value.number, self.reader.rest().subrange(0, length as int)) == be_value(old(self).type_and_value.number, old(self).reader.rest().subrange(0, len0)),
            old(self).ok && old(self).reader.rest().len() >= len0 && old(self).reader.eof_only() ==> self.ok,
        decreases length
    {
 let ghost pre_rest = self.reader.rest(); let ghost pre_num = self.type_and_value.number;

            match self.reader.read_u8() {
                Ok(value) => {
                    self.type_and_value.number = (self.type_and_value.number << 8) | (value as u64);
                }
                Err(err) => {
                    self.error(verif_format().as_str());
                }
            }
            
proof {  if self.ok && old(self).reader.rest().len() >= len0 {
        let p = pre_rest.subrange(0, length as int);
        assert(p.subrange(1, p.len() as int) == self.reader.rest().subrange(0, length as int - 1));
        assert(p[0] == pre_rest[0]);
        assert(skip(old(self).reader.rest(), len0 - length).subrange(1, pre_rest.len() as int) == skip(old(self).reader.rest(), len0 - (length - 1)));
    } }
length -= 1;
        }
    }

fn read_data_value_payload(&mut self, what: u8) -> (r: Data) 
    ensures
        !old(self).pok() ==> !final(self).pok() && final(self).prest() == old(self).prest(),
        final(self).preliable() == old(self).preliable(),
        (what == 0 || what == 9) ==> final(self).pok() == old(self).pok() && final(self).prest() == old(self).prest() && (what == 0 ==> r is Null) && (what == 9 ==> r is None),
        what > 9 ==> !final(self).pok(),
        (what == 3 || what == 7) && old(self).pok() ==> rd_post(str_token(old(self).prest()).is_some(), unknown_head(old(self).prest()), old(self).preliable(), final(self).pok(), old(self).prest(), str_token(old(self).prest()).unwrap().1, final(self).prest(), (what == 3 ==> r is String && encode_utf8(r->String_0@) == str_token(old(self).prest()).unwrap().0) && (what == 7 ==> r is Error && encode_utf8(r->Error_0@) == str_token(old(self).prest()).unwrap().0)),
        (what == 1 || what == 2) && old(self).pok() && final(self).pok() && !unknown_head(old(self).prest()) ==> str_token(old(self).prest()).is_some() && final(self).prest() == skip(old(self).prest(), str_token(old(self).prest()).unwrap().1) && (forall|v: i64| what == 1 && str_token(old(self).prest()).unwrap().0 == encode_utf8(i64_text(v)) ==> r == Data::Integer(v)) && (forall|v: f64| what == 2 && str_token(old(self).prest()).unwrap().0 == encode_utf8(f64_text(v)) ==> r == Data::Double(v)),
        what == 4 && old(self).pok() ==> rd_post(old(self).prest().len() >= 1 && (old(self).prest()[0] == 0x1F || old(self).prest()[0] == 0x10), false, old(self).preliable(), final(self).pok(), old(self).prest(), 1, final(self).prest(), r is Boolean && r->Boolean_0 == (old(self).prest()[0] == 0x1F)),
        what == 8 && old(self).pok() && final(self).pok() && !unknown_head(old(self).prest()) ==> str_token(old(self).prest()).is_some() && ({ let ra = skip(old(self).prest(), str_token(old(self).prest()).unwrap().1); !unknown_head(ra) ==> num_token(ra).is_some() && r is Source && encode_utf8(r->Source_0.source@) == str_token(old(self).prest()).unwrap().0 && r->Source_0.source_id == num_token(ra).unwrap().0 as usize && final(self).prest() == skip(ra, num_token(ra).unwrap().1) }),
        what == 8 && old(self).pok() && old(self).preliable() && str_token(old(self).prest()).is_some() && num_token(skip(old(self).prest(), str_token(old(self).prest()).unwrap().1)).is_some() ==> final(self).pok(),
{
        match what {
            0 => Data::Null(),
            1 => {
                let rv = self.read_string();
proof {  assert forall|v: i64| encode_utf8(rv@) == encode_utf8(i64_text(v)) implies rv@ == i64_text(v) by { lemma_utf8_injective(rv@, i64_text(v)); } }

                match verif_parse_i64(&rv) {
                    Ok(val) => Data::Integer(val),
                    Err(err) => {
                        self.error(verif_format().as_str());
                        self.ok = false;
                        Data::Null()
                    }
                }
            }
            2 => {
                let rv = self.read_string();
proof {  assert forall|v: f64| encode_utf8(rv@) == encode_utf8(f64_text(v)) implies rv@ == f64_text(v) by { lemma_utf8_injective(rv@, f64_text(v)); } }

                match verif_parse_f64(&rv) {
                    Ok(val) => Data::Double(val),
                    Err(err) => {
                        self.error(verif_format().as_str());
                        self.ok = false;
                        Data::Null()
                    }
                }
            }
            3 => Data::String(self.read_string()),
            4 => Data::Boolean(self.read_boolean()),
            5 => {
                let len = self.read_usize();
                let mut val = Vec::with_capacity(len);
                verif_read_array_items(self, &mut val, len);
                Data::Array(val)
            }
            6 => {
                let len = self.read_usize();
                let mut val = verif_map_with_capacity(len);
                verif_read_map_items(self, &mut val, len);
                Data::Map(val)
            }
            7 => {
                let k = self.read_string();
                Data::Error(k)
            }
            8 => {
                let k = self.read_string();
                let id = self.read_usize();
                Data::Source(SourceCode::new(k.as_str(), id))
            }
            9 => Data::None(),

            _ => {
                self.error(verif_format().as_str());
                self.ok = false;
                Data::Null()
            }
        }
    }

fn read_type_and_size(&mut self) 
    ensures
        !old(self).ok ==> *final(self) == *old(self),
        final(self).reader.eof_only() == old(self).reader.eof_only(),
        old(self).ok ==> tv_post(old(self).reader.rest(), old(self).reader.eof_only(), final(self).ok, final(self).reader.rest(), final(self).type_and_value.type_id, final(self).type_and_value.number, encode_utf8(final(self).type_and_value.string@)),
        old(self).ok && !final(self).ok ==> final(self).type_and_value.type_id == 0 && final(self).type_and_value.string@.len() == 0,
{
 let ghost r0 = self.reader.rest(); let ghost rel = self.reader.eof_only();

proof {  assert forall|k: int| 0 <= k && 1 + k <= r0.len() implies
        #[trigger] skip(r0, 1).subrange(0, k) == r0.subrange(1, 1 + k) && skip(skip(r0, 1), k) == skip(r0, 1 + k) by {}
    if r0.len() > 0 {
        let h = r0[0];
        assert((h & 0xF0) == (h / 16) * 16 && (h & 0x0F) == h % 16) by (bit_vector);
    } }

        if self.ok {
            self.type_and_value.string.clear();
            match self.reader.read_u8() {
                Ok(val) => match val & 0xF0 {
                    0x10 => {
                        self.type_and_value.type_id = val;
                    }
                    FSM_PROTOCOL_TYPE_INT_4BIT => {
                        self.type_and_value.type_id = FSM_PROTOCOL_TYPE_INT_4BIT;
                        self.type_and_value.number = (val & 0x0F) as u64;
                    }
                    FSM_PROTOCOL_TYPE_INT_12BIT => {
                        self.type_and_value.type_id = FSM_PROTOCOL_TYPE_INT_12BIT;
                        self.type_and_value.number = (val & 0x0F) as u64;
                        self.read_additional_number_bytes(1);
                    }
                    FSM_PROTOCOL_TYPE_INT_20BIT => {
                        self.type_and_value.type_id = FSM_PROTOCOL_TYPE_INT_20BIT;
                        self.type_and_value.number = (val & 0x0F) as u64;
                        self.read_additional_number_bytes(2);
                    }
                    FSM_PROTOCOL_TYPE_INT_28BIT => {
                        self.type_and_value.type_id = FSM_PROTOCOL_TYPE_INT_28BIT;
                        self.type_and_value.number = (val & 0x0F) as u64;
                        self.read_additional_number_bytes(3);
                    }
                    FSM_PROTOCOL_TYPE_INT_36BIT => {
                        self.type_and_value.type_id = FSM_PROTOCOL_TYPE_INT_36BIT;
                        self.type_and_value.number = (val & 0x0F) as u64;
                        self.read_additional_number_bytes(4);
                    }
                    FSM_PROTOCOL_TYPE_INT_44BIT => {
                        self.type_and_value.type_id = FSM_PROTOCOL_TYPE_INT_44BIT;
                        self.type_and_value.number = (val & 0x0F) as u64;
                        self.read_additional_number_bytes(5);
                    }
                    FSM_PROTOCOL_TYPE_INT_52BIT => {
                        self.type_and_value.type_id = FSM_PROTOCOL_TYPE_INT_52BIT;
                        self.type_and_value.number = (val & 0x0F) as u64;
                        self.read_additional_number_bytes(6);
                    }
                    FSM_PROTOCOL_TYPE_INT_60BIT => {
                        self.type_and_value.type_id = FSM_PROTOCOL_TYPE_INT_60BIT;
                        self.type_and_value.number = (val & 0x0F) as u64;
                        self.read_additional_number_bytes(7);
                    }
                    FSM_PROTOCOL_TYPE_INT_68BIT => {
                        self.type_and_value.type_id = FSM_PROTOCOL_TYPE_INT_68BIT;
                        self.type_and_value.number = (val & 0x0F) as u64;
                        self.read_additional_number_bytes(8);
                    }
                    FSM_PROTOCOL_TYPE_STRING_LENGTH_4BIT => {
                        self.type_and_value.type_id = FSM_PROTOCOL_TYPE_STRING_LENGTH_4BIT;
                        self.type_and_value.number = 0;
                        let us = (val & 0x0F) as usize;
proof {  assert((val & 0x0F) <= 15) by (bit_vector); }

                        match self.reader.read_exact(&mut self.buffer[0..us]) {
                            Ok(_) => {
proof {  assert(self.buffer@.subrange(0, us as int) == skip(r0, 1).subrange(0, us as int));
    assert(self.reader.rest() == skip(skip(r0, 1), us as int)); }
match std::str::from_utf8(&self.buffer[0..us]) {
                                Ok(val) => {
                                    self.type_and_value.string.insert_str(0, val);
                                }
                                Err(err_utf) => {
                                    self.error(verif_format().as_str());
                                }
                            } },
                            Err(err) => {
                                self.error(verif_format().as_str());
                                self.ok = false;
                            }
                        }
                    }
                    FSM_PROTOCOL_TYPE_STRING_LENGTH_12BIT => {
                        self.type_and_value.type_id = FSM_PROTOCOL_TYPE_STRING_LENGTH_12BIT;
                        self.type_and_value.number = 0;
                        let mut us = (val & 0x0F) as usize;

                        match self.reader.read_u8() {
                            Ok(value) => {
                                
 let ghost us0 = us;
us = (us << 8) | (value as usize);
proof {  assert((val & 0x0F) <= 15) by (bit_vector);
    assert(us0 <= 15 ==> ((us0 << 8) | (value as usize)) == us0 * 256 + (value as usize)) by (bit_vector); }

                                match self.reader.read_exact(&mut self.buffer[0..us]) {
                                    Ok(_) => {
proof {  assert(self.buffer@.subrange(0, us as int) == r0.subrange(2, 2 + us as int));
    assert(self.reader.rest() == skip(r0, 2 + us as int)); }
match std::str::from_utf8(&self.buffer[0..us]) {
                                        Ok(val) => {
                                            self.type_and_value.string.insert_str(0, val);
                                        }
                                        Err(err_utf) => {
                                            self.error(verif_format().as_str());
                                        }
                                    } },
                                    Err(err) => {
                                        self.error(verif_format().as_str());
                                        self.ok = false;
                                    }
                                }
                            }
                            Err(err) => {
                                self.error(verif_format().as_str());
                            }
                        }
                    }
                    _ => {}
                },
                Err(e) => {
                    self.error(verif_format().as_str());
                }
            }
        }
    }

}

impl<R: Read> ProtocolReader<R> for DefaultProtocolReader<R> {
    closed spec fn prest(&self) -> Seq<u8> { self.reader.rest() }
    closed spec fn pok(&self) -> bool { self.ok }
    closed spec fn preliable(&self) -> bool { self.reader.eof_only() }

fn verify_version(&mut self) {
        let vs = self.read_string();
proof {  if encode_utf8(vs@) == encode_utf8(FSM_PROTOCOL_TYPE_PROTOCOL_VERSION@) {
        lemma_utf8_injective(vs@, FSM_PROTOCOL_TYPE_PROTOCOL_VERSION@);
    } }

        if !vs.eq(FSM_PROTOCOL_TYPE_PROTOCOL_VERSION) {
            self.error(verif_format().as_str());
        }
    }

fn close(&mut self) {}

fn read_boolean(&mut self) -> bool {
        if self.ok {
            match self.reader.read_u8() {
                Ok(type_id) => match type_id {
                    FSM_PROTOCOL_TYPE_BOOLEAN_TRUE => true,
                    FSM_PROTOCOL_TYPE_BOOLEAN_FALSE => false,
                    _ => {
                        self.error(verif_format().as_str());
                        false
                    }
                },
                Err(err) => {
                    self.error(verif_format().as_str());
                    false
                }
            }
        } else {
            false
        }
    }

fn read_option_string(&mut self) -> Option<String> {
        if self.ok {
            self.read_type_and_size();
            return match self.type_and_value.type_id {
                FSM_PROTOCOL_TYPE_OPT_STRING_NONE => None,
                FSM_PROTOCOL_TYPE_STRING_LENGTH_12BIT | FSM_PROTOCOL_TYPE_STRING_LENGTH_4BIT => {
                    Some(self.type_and_value.string.clone())
                }
                _ => {
                    self.error(verif_format().as_str());
                    None
                }
            };
        }
        None
    }

fn read_string(&mut self) -> String {
proof {  reveal_strlit(""); }

        self.read_type_and_size();
        
        if self.verify_string_type() {
            self.type_and_value.string.clone()
        } else {
            "".to_string()
        }
    }

fn read_usize(&mut self) -> usize {
        self.read_type_and_size();
        if self.verify_number_type() {
            self.type_and_value.number as usize
        } else {
            0
        }
    }

fn read_uint(&mut self) -> u64 {
        self.read_type_and_size();
        if self.verify_number_type() {
            self.type_and_value.number
        } else {
            0
        }
    }

fn has_error(&self) -> bool {
        !self.ok
    }

}


// ===== claims: claims.rs =====
// Property-level lemmas over the contracts above.  Each proof fn is one obligation.
// serves: C05 C18
/// folding the payload bytes of v back in, starting from the bits above them, yields v
pub proof fn lemma_be_fold(v: u64, k: int, i: int, acc: u64)
    requires
        0 <= i <= k <= 8,
        acc == (if 8 * (k - i) >= 64 { 0u64 } else { v >> ((8 * (k - i)) as u64) }),
    ensures
        be_value(acc, be_bytes(v, k).subrange(i, k)) == v,
    decreases k - i,
{
    let p = be_bytes(v, k).subrange(i, k);
    if i == k {
        assert(v >> 0u64 == v) by (bit_vector);
    } else {
        let s = (8 * (k - 1 - i)) as u64;
        let b = p[0];
        assert(b == (v >> s) as u8);
        let acc2 = (acc << 8) | (b as u64);
        assert(p.subrange(1, p.len() as int) == be_bytes(v, k).subrange(i + 1, k));
        if s == 56 {
            assert(((0u64 << 8) | (((v >> 56u64) as u8) as u64)) == v >> 56u64) by (bit_vector);
        } else {
            let s8 = (s + 8) as u64;
            assert(s <= 48 && s8 == s + 8 ==> (((v >> s8) << 8) | (((v >> s) as u8) as u64)) == v >> s) by (bit_vector);
        }
        assert(acc2 == v >> s);
        lemma_be_fold(v, k, i + 1, acc2);
    }
}

// serves: C05 C18
/// the head byte of enc_uint(v) carries the width class and the bits above the payload
pub proof fn lemma_uint_head(v: u64)
    ensures
        ({
            let k = uint_class(v);
            let h = head_byte(uint_type(k), v, k);
            &&& 0 <= k <= 8
            &&& 0x30 <= h <= 0xBF
            &&& (h as int - 0x30) / 0x10 == k
            &&& (h % 16) as u64 == (if k >= 8 { 0u64 } else { v >> ((8 * k) as u64) })
        }),
{
    let k = uint_class(v);
    let t = uint_type(k);
    assert(t == 0x30 + 0x10 * k);
    if k < 8 {
        let s = (8 * k) as u64;
        let x = v >> s;
        assert(v < 0x10 ==> (v >> 0u64) < 16) by (bit_vector);
        assert(v < 0x1000 ==> (v >> 8u64) < 16) by (bit_vector);
        assert(v < 0x10_0000 ==> (v >> 16u64) < 16) by (bit_vector);
        assert(v < 0x1000_0000 ==> (v >> 24u64) < 16) by (bit_vector);
        assert(v < 0x10_0000_0000 ==> (v >> 32u64) < 16) by (bit_vector);
        assert(v < 0x1000_0000_0000 ==> (v >> 40u64) < 16) by (bit_vector);
        assert(v < 0x10_0000_0000_0000 ==> (v >> 48u64) < 16) by (bit_vector);
        assert(v < 0x1000_0000_0000_0000 ==> (v >> 56u64) < 16) by (bit_vector);
        assert(x < 16);
        assert(t & 0x0F == 0 && x < 16 ==> ((t | ((x as u8) & 0x0F)) % 16) as u64 == x && (t | ((x as u8) & 0x0F)) / 16 == t / 16) by (bit_vector);
        assert(t == 0x30 || t == 0x40 || t == 0x50 || t == 0x60 || t == 0x70 || t == 0x80 || t == 0x90 || t == 0xA0);
        assert(t == 0x30 || t == 0x40 || t == 0x50 || t == 0x60 || t == 0x70 || t == 0x80 || t == 0x90 || t == 0xA0 ==> t & 0x0F == 0) by (bit_vector);
    }
}

// serves: C05
/// C05 (integers): reading what write_uint wrote yields the same number, for every u64, whatever follows
pub proof fn lemma_rt_uint(v: u64, tail: Seq<u8>)
    ensures
        dec_tv(enc_uint(v) + tail) == Tv::Num(uint_class(v), v, 1 + uint_class(v)),
        skip(enc_uint(v) + tail, 1 + uint_class(v)) == tail,
{
    let k = uint_class(v);
    let s = enc_uint(v) + tail;
    lemma_uint_head(v);
    lemma_be_fold(v, k, 0, (head_byte(uint_type(k), v, k) % 16) as u64);
    assert(s.subrange(1, 1 + k) == be_bytes(v, k));
    assert(be_bytes(v, k).subrange(0, k) == be_bytes(v, k));
    assert(skip(s, 1 + k) == tail);
}


// serves: C05
/// C05 (strings): reading what write_str wrote yields the same bytes, for every encodable string
pub proof fn lemma_rt_str(b: Seq<u8>, tail: Seq<u8>)
    requires
        valid_utf8(b),
        str_encodable(b),
    ensures
        str_token(enc_str(b) + tail) == Some((b, enc_str(b).len() as int)),
        skip(enc_str(b) + tail, enc_str(b).len() as int) == tail,
{
    let s = enc_str(b) + tail;
    let n = b.len() as u64;
    if b.len() < 16 {
        assert(n < 16 ==> (0xC0u8 | (((n >> 0u64) as u8) & 0x0F)) % 16 == n && 0xC0 <= (0xC0u8 | (((n >> 0u64) as u8) & 0x0F)) <= 0xCF) by (bit_vector);
        assert(be_bytes(n, 0) =~= Seq::<u8>::empty());
        assert(s.subrange(1, 1 + b.len() as int) == b);
        assert(skip(s, 1 + b.len() as int) == tail);
    } else {
        assert(n < 4096 ==> (0xD0u8 | (((n >> 8u64) as u8) & 0x0F)) % 16 == n / 256 && 0xD0 <= (0xD0u8 | (((n >> 8u64) as u8) & 0x0F)) <= 0xDF
            && ((n >> 0u64) as u8) == n % 256) by (bit_vector);
        assert(be_bytes(n, 1) =~= seq![(n >> 0u64) as u8]);
        assert(s[1] == (n >> 0u64) as u8);
        assert(s.subrange(2, 2 + b.len() as int) == b);
        assert(skip(s, 2 + b.len() as int) == tail);
    }
}

// serves: C05
pub proof fn lemma_rt_tags(tail: Seq<u8>)
    ensures
        dec_tv(enc_bool(true) + tail) == Tv::Tag(0x1Fu8),
        dec_tv(enc_bool(false) + tail) == Tv::Tag(0x10u8),
        dec_tv(enc_opt_str(None) + tail) == Tv::Tag(0x10u8),
        (enc_bool(true) + tail)[0] == 0x1F,
        (enc_bool(false) + tail)[0] == 0x10,
        skip(enc_bool(true) + tail, 1) == tail,
        skip(enc_bool(false) + tail, 1) == tail,
        skip(enc_opt_str(None) + tail, 1) == tail,
{
}

// serves: C18
/// C18 (token level): an image cut off inside a token is seen as end-of-data, which every read_* turns into the error state
pub proof fn lemma_cut_token_is_eof(s: Seq<u8>, j: int)
    requires
        0 <= j,
        match dec_tv(s) {
            Tv::Tag(b) => j < 1,
            Tv::Num(k, v, n) => j < n,
            Tv::Str(t, b, n) => j < n,
            _ => false,
        },
    ensures
        dec_tv(s.subrange(0, j)) == Tv::Eof,
{
    let p = s.subrange(0, j);
    if j > 0 {
        assert(p[0] == s[0]);
        if j > 1 {
            assert(p[1] == s[1]);
        }
    }
}


// ===== claims: claims_format.rs =====
// Property-level claim about the format itself (known finding, see KNOWN_FINDINGS.json).
// serves: C05
/// C05 asks for "strings of every length": the format must have an encoding for every byte string.
/// (It has none for 4096 bytes and more - see KNOWN_FINDINGS.json.)
pub proof fn format_covers_every_string(b: Seq<u8>)
    ensures
        str_encodable(b),
{
}



// ===== claims: claims_data.rs =====
// serves: C05
/// Round trip of a script/expression value (Data::Source), the value kind a persisted model consists of: the payload
/// write_data emits decodes, token by token, to the same text and the same source id, with nothing left over.
/// Together with write_data.bytes and read_data_value_payload.source_payload / source_payload_is_accepted this is
/// `read(write(Source(text, id))) == Source(text, id)` for every text below 4096 bytes and every id.
pub proof fn lemma_rt_data_source(text: Seq<char>, id: usize, tail: Seq<u8>)
    requires
        str_encodable(encode_utf8(text)),
    ensures
        ({
            let b = encode_utf8(text);
            let rest = enc_str(b) + enc_uint(id as u64) + tail;
            let ra = skip(rest, enc_str(b).len() as int);
            &&& !unknown_head(rest)
            &&& str_token(rest) == Some((b, enc_str(b).len() as int))
            &&& !unknown_head(ra)
            &&& num_token(ra).is_some()
            &&& num_token(ra).unwrap().0 == id as u64
            &&& skip(ra, num_token(ra).unwrap().1) == tail
        }),
{
    let b = encode_utf8(text);
    vstd::utf8::encode_utf8_valid_utf8(text);
    assert(enc_str(b) + enc_uint(id as u64) + tail =~= enc_str(b) + (enc_uint(id as u64) + tail));
    lemma_rt_str(b, enc_uint(id as u64) + tail);
    lemma_rt_uint(id as u64, tail);
}

// serves: C05
/// Round trip of the text payload shared by Data::String, Data::Error, Data::Integer and Data::Double (the numbers are
/// written as their decimal text): the payload decodes to the same bytes with nothing left over.  With
/// read_data_value_payload.text_payload / number_payload (and the assumed inverse of to_string/parse for numbers) this is
/// `read(write(v)) == v` for these variants.
pub proof fn lemma_rt_data_text(text: Seq<char>, tail: Seq<u8>)
    requires
        str_encodable(encode_utf8(text)),
    ensures
        ({
            let b = encode_utf8(text);
            let rest = enc_str(b) + tail;
            &&& !unknown_head(rest)
            &&& str_token(rest) == Some((b, enc_str(b).len() as int))
            &&& skip(rest, enc_str(b).len() as int) == tail
        }),
{
    let b = encode_utf8(text);
    vstd::utf8::encode_utf8_valid_utf8(text);
    lemma_rt_str(b, tail);
}

// serves: C05
/// Round trip of the Boolean payload: one tag byte that read_boolean (and read_data_value_payload.boolean_payload)
/// maps back to the same value.
pub proof fn lemma_rt_data_bool(v: bool, tail: Seq<u8>)
    ensures
        ({
            let rest = enc_bool(v) + tail;
            &&& rest.len() >= 1
            &&& (rest[0] == 0x1F || rest[0] == 0x10)
            &&& (rest[0] == 0x1F) == v
            &&& skip(rest, 1) == tail
        }),
{
    lemma_rt_tags(tail);
    assert(skip(enc_bool(v) + tail, 1) =~= tail);
}

// serves: C05
/// The tag byte of a value decodes to the tag (read_data reads it with read_u8 before the payload).
pub proof fn lemma_rt_data_tag(d: Data, tail: Seq<u8>)
    ensures
        num_token(enc_uint(data_tag(d)) + tail).is_some(),
        num_token(enc_uint(data_tag(d)) + tail).unwrap().0 == data_tag(d),
        data_tag(d) <= 9,
        skip(enc_uint(data_tag(d)) + tail, num_token(enc_uint(data_tag(d)) + tail).unwrap().1) == tail,
{
    lemma_rt_uint(data_tag(d), tail);
}


} // verus!
fn main() {}
