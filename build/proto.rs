#![allow(unused_imports, unused_variables, unused_mut, unused_assignments, dead_code, non_snake_case, unused_parens, unused_braces, non_camel_case_types, non_upper_case_globals)]
use vstd::prelude::*;
use vstd::string::*;
use vstd::utf8::*;
verus! {

// ===== prelude: prelude.rs =====
// TRUSTED stand-ins (assumption ledger A4): std::io::Write + byteorder::WriteBytesExt seen as one
// trait over an abstract byte sink `out()`.  Nothing here is proved; every item is listed in the
// evidence under trusted_base.
#[verifier::external_type_specification]
#[verifier::external_body]
pub struct ExIoError(std::io::Error);

pub trait Write {
    /// all bytes accepted by the sink so far
    spec fn out(&self) -> Seq<u8>;

    /// std::io::Write::write: may accept any prefix of buf (short write)
    fn write(&mut self, buf: &[u8]) -> (r: std::io::Result<usize>)
        ensures
            match r {
                Ok(n) => n <= buf@.len() && final(self).out() == old(self).out() + buf@.subrange(0, n as int),
                Err(_) => true,
            };

    /// std::io::Write::write_all: everything or Err
    fn write_all(&mut self, buf: &[u8]) -> (r: std::io::Result<()>)
        ensures
            r.is_ok() ==> final(self).out() == old(self).out() + buf@;

    /// byteorder::WriteBytesExt::write_u8 == write_all(&[n])
    fn write_u8(&mut self, n: u8) -> (r: std::io::Result<()>)
        ensures
            r.is_ok() ==> final(self).out() == old(self).out().push(n);

    fn flush(&mut self) -> (r: std::io::Result<()>)
        ensures
            final(self).out() == old(self).out();
}

pub mod trusted_axioms {
    use super::*;

    /// A4: a real `str` never holds more than isize::MAX bytes (vstd's `str::len` clips to usize otherwise)
    #[verifier::external_body]
    pub broadcast proof fn axiom_str_len_fits(s: &str)
        ensures
            #[trigger] s.spec_bytes().len() <= usize::MAX,
    {
    }
}

broadcast use trusted_axioms::axiom_str_len_fits;


// ===== spec: spec.rs =====
// The binary format, written down once from default_protocol_definitions.rs and the property
// text (C05: "unsigned integers over the full 64-bit range and every width boundary, strings of
// every length").  Pure mathematics; contains no assumption.

/// number of payload bytes of the width class of v: least k with v < 2^(4+8k), 8 for v >= 2^60
pub open spec fn uint_class(v: u64) -> int {
    if v < 0x10 { 0 }
    else if v < 0x1000 { 1 }
    else if v < 0x10_0000 { 2 }
    else if v < 0x1000_0000 { 3 }
    else if v < 0x10_0000_0000 { 4 }
    else if v < 0x1000_0000_0000 { 5 }
    else if v < 0x10_0000_0000_0000 { 6 }
    else if v < 0x1000_0000_0000_0000 { 7 }
    else { 8 }
}

/// k payload bytes of v, most significant first: byte i is bits [8(k-1-i), 8(k-i)) of v
pub open spec fn be_bytes(v: u64, k: int) -> Seq<u8> {
    Seq::new(k as nat, |i: int| (v >> ((8 * (k - 1 - i)) as u64)) as u8)
}

/// first byte: type nibble | the 4 bits above the payload (none left for the 68-bit class)
pub open spec fn head_byte(type_id: u8, v: u64, k: int) -> u8 {
    if k >= 8 { type_id } else { type_id | (((v >> ((8 * k) as u64)) as u8) & 0x0F) }
}

pub open spec fn tv_bytes(type_id: u8, v: u64, k: int) -> Seq<u8> {
    seq![head_byte(type_id, v, k)] + be_bytes(v, k)
}

pub open spec fn is_type_id(t: u8) -> bool {
    t == 0x30 || t == 0x40 || t == 0x50 || t == 0x60 || t == 0x70 || t == 0x80 || t == 0x90 || t == 0xA0
        || t == 0xB0 || t == 0xC0 || t == 0xD0
}

pub open spec fn uint_type(k: int) -> u8 {
    (0x30 + 0x10 * k) as u8
}

pub open spec fn enc_uint(v: u64) -> Seq<u8> {
    tv_bytes(uint_type(uint_class(v)), v, uint_class(v))
}

pub open spec fn enc_bool(b: bool) -> Seq<u8> {
    if b { seq![0x1Fu8] } else { seq![0x10u8] }
}

/// a string is its UTF-8 bytes behind a 4- or 12-bit length; the format has no encoding for 4096+ bytes
pub open spec fn str_encodable(bytes: Seq<u8>) -> bool {
    bytes.len() < 4096
}

pub open spec fn enc_str(bytes: Seq<u8>) -> Seq<u8> {
    if bytes.len() < 16 {
        tv_bytes(0xC0u8, bytes.len() as u64, 0) + bytes
    } else {
        tv_bytes(0xD0u8, bytes.len() as u64, 1) + bytes
    }
}

pub open spec fn enc_opt_str(o: Option<Seq<u8>>) -> Seq<u8> {
    match o {
        None => seq![0x10u8],
        Some(b) => enc_str(b),
    }
}

/// shape of every writer postcondition: success means "was ok and exactly these bytes were appended";
/// a writer already in error state appends nothing (and stays in error state, by the first part)
pub open spec fn wr_post(ok0: bool, out0: Seq<u8>, ok1: bool, out1: Seq<u8>, bytes: Seq<u8>) -> bool {
    (ok1 ==> ok0 && out1 == out0 + bytes) && (!ok0 ==> out1 == out0)
}

pub open spec fn opt_str_bytes(o: Option<String>) -> Option<Seq<u8>> {
    match o {
        None => None,
        Some(s) => Some(encode_utf8(s@)),
    }
}

pub open spec fn opt_str_encodable(o: Option<String>) -> bool {
    match o {
        None => true,
        Some(s) => str_encodable(encode_utf8(s@)),
    }
}

pub const FSM_PROTOCOL_TYPE_PROTOCOL_VERSION: &'static str = "DwP1.1";
pub const FSM_PROTOCOL_TYPE_OPT_STRING_NONE: u8 = 0x10;
pub const FSM_PROTOCOL_TYPE_BOOLEAN_TRUE: u8 = 0x1F;
pub const FSM_PROTOCOL_TYPE_BOOLEAN_FALSE: u8 = 0x10;
pub const FSM_PROTOCOL_TYPE_INT_4BIT: u8 = 0x30;
pub const FSM_PROTOCOL_TYPE_INT_12BIT: u8 = 0x40;
pub const FSM_PROTOCOL_TYPE_INT_20BIT: u8 = 0x50;
pub const FSM_PROTOCOL_TYPE_INT_28BIT: u8 = 0x60;
pub const FSM_PROTOCOL_TYPE_INT_36BIT: u8 = 0x70;
pub const FSM_PROTOCOL_TYPE_INT_44BIT: u8 = 0x80;
pub const FSM_PROTOCOL_TYPE_INT_52BIT: u8 = 0x90;
pub const FSM_PROTOCOL_TYPE_INT_60BIT: u8 = 0xA0;
pub const FSM_PROTOCOL_TYPE_INT_68BIT: u8 = 0xB0;
pub const FSM_PROTOCOL_TYPE_STRING_LENGTH_4BIT: u8 = 0xC0;
pub const FSM_PROTOCOL_TYPE_STRING_LENGTH_12BIT: u8 = 0xD0;
pub const FSM_PROTOCOL_FLAG_HISTORY_TYPE_MASK: u16 = 0x03;
pub const FSM_PROTOCOL_FLAG_ON_ENTRY: u16 = 0x04;
pub const FSM_PROTOCOL_FLAG_ON_EXIT: u16 = 0x08;
pub const FSM_PROTOCOL_FLAG_STATES: u16 = 0x10;
pub const FSM_PROTOCOL_FLAG_IS_FINAL: u16 = 0x20;
pub const FSM_PROTOCOL_FLAG_IS_PARALLEL: u16 = 0x40;
pub const FSM_PROTOCOL_FLAG_DONE_DATA: u16 = 0x80;
pub const FSM_PROTOCOL_FLAG_INVOKE: u16 = 0x100;
pub const FSM_PROTOCOL_FLAG_DATA: u16 = 0x200;
pub const FSM_PROTOCOL_FLAG_HISTORY: u16 = 0x400;
pub const FSM_PROTOCOL_TYPE_OPT_DATA_VALUE_NONE: u8 = 0x0A;
pub struct DefaultProtocolWriter<W> {
    pub writer: W,
    pub ok: bool,
}

pub trait ProtocolWriter<W: Write> {
    // ghost view members added by rule R15 (no executable text)
    spec fn pout(&self) -> Seq<u8>;
    spec fn pok(&self) -> bool;

fn write_version(&mut self)
    ensures
        wr_post(old(self).pok(), old(self).pout(), final(self).pok(), final(self).pout(), enc_str(FSM_PROTOCOL_TYPE_PROTOCOL_VERSION.spec_bytes())),
;

fn close(&mut self)
    ensures
        final(self).pout() == old(self).pout(), final(self).pok() ==> old(self).pok(),
;

fn write_boolean(&mut self, value: bool)
    ensures
        wr_post(old(self).pok(), old(self).pout(), final(self).pok(), final(self).pout(), enc_bool(value)),
;

fn write_option_string(&mut self, value: &Option<String>)
    ensures
        opt_str_encodable(*value) ==> wr_post(old(self).pok(), old(self).pout(), final(self).pok(), final(self).pout(), enc_opt_str(opt_str_bytes(*value))),
        !opt_str_encodable(*value) ==> !final(self).pok(),
        !old(self).pok() ==> !final(self).pok() && final(self).pout() == old(self).pout(),
;

fn write_str(&mut self, value: &str)
    ensures
        str_encodable(value.spec_bytes()) ==> wr_post(old(self).pok(), old(self).pout(), final(self).pok(), final(self).pout(), enc_str(value.spec_bytes())),
        !str_encodable(value.spec_bytes()) ==> !final(self).pok(),
        !old(self).pok() ==> !final(self).pok() && final(self).pout() == old(self).pout(),
;

fn write_usize(&mut self, value: usize)
    ensures
        wr_post(old(self).pok(), old(self).pout(), final(self).pok(), final(self).pout(), enc_uint(value as u64)),
;

fn write_uint(&mut self, value: u64)
    ensures
        wr_post(old(self).pok(), old(self).pout(), final(self).pok(), final(self).pout(), enc_uint(value)),
;

fn write_u8(&mut self, value: u8) 
    ensures
        wr_post(old(self).pok(), old(self).pout(), final(self).pok(), final(self).pout(), enc_uint(value as u64)),
{
        self.write_uint(value as u64)
    }

fn has_error(&self) -> (r: bool) 
    ensures
        r == !self.pok(),
;

fn get_writer(&self) -> &W;

}

impl<W: Write> DefaultProtocolWriter<W> {
pub fn new(writer: W) -> (r: DefaultProtocolWriter<W>) 
    ensures
        r.ok && r.writer == writer,
{
        DefaultProtocolWriter { writer, ok: true }
    }

fn eval_result(&mut self, result: std::io::Result<()>) 
    ensures
        final(self).writer == old(self).writer,
        final(self).ok == (old(self).ok && result.is_ok()),
{
        match result {
            Ok(_v) => {}
            Err(err) => {
                
                self.ok = false;
            }
        }
    }

fn write_type_and_value(&mut self, type_id: u8, value: u64, mut size: u8) 
    requires
        size >= 4 && size <= 68 && (size - 4) % 8 == 0,
        is_type_id(type_id),

    ensures
        wr_post(old(self).ok, old(self).writer.out(), final(self).ok, final(self).writer.out(), tv_bytes(type_id, value, (size - 4) / 8)),
{
 let ghost k0: int = (size as int - 4) / 8;

proof {  assert(k0 <= 8 && size as int == 8 * k0 + 4); }

        if self.ok {
            size = size.saturating_sub(4);
            // The 68-bit class has no value bits left for the type byte (u64 has only 64).
            let high = if size < 64 { ((value >> size) as u8) & 0x0F } else { 0 };
            let mut r = self.writer.write_u8(type_id | high);
proof {  assert(type_id | 0u8 == type_id) by (bit_vector); assert((8 * k0) as u64 == size as u64); }

            while size > 0 && r.is_ok() 
        invariant
            self.ok == old(self).ok, self.ok,
            size % 8 == 0, size as int <= 8 * k0, k0 <= 8,
            r.is_ok() ==> self.writer.out() == old(self).writer.out() + seq![head_byte(type_id, value, k0)] + be_bytes(value, k0).subrange(0, k0 - size as int / 8),
        decreases size
    {
                size = size.saturating_sub(8);
                r = self.writer.write_u8((value >> size) as u8);
            
proof {  let j = k0 - (size as int + 8) / 8;
    assert(be_bytes(value, k0).subrange(0, j + 1) == be_bytes(value, k0).subrange(0, j).push(be_bytes(value, k0)[j]));
    assert((8 * (k0 - 1 - j)) as u64 == size as u64); }
}
proof {  assert(be_bytes(value, k0).subrange(0, k0) == be_bytes(value, k0));
    assert(r.is_ok() ==> self.writer.out() == old(self).writer.out() + tv_bytes(type_id, value, k0)); }

            self.eval_result(r);
        }
    }

}

impl<W: Write> ProtocolWriter<W> for DefaultProtocolWriter<W> {
    closed spec fn pout(&self) -> Seq<u8> { self.writer.out() }
    closed spec fn pok(&self) -> bool { self.ok }

fn write_version(&mut self) {
        self.write_str(FSM_PROTOCOL_TYPE_PROTOCOL_VERSION);
    }

fn close(&mut self) {
        if self.ok {
            let r = self.writer.flush();
            self.eval_result(r);
        }
    }

fn write_boolean(&mut self, value: bool) {
        if self.ok {
            
            let r = self.writer.write_u8(if value {
                FSM_PROTOCOL_TYPE_BOOLEAN_TRUE
            } else {
                FSM_PROTOCOL_TYPE_BOOLEAN_FALSE
            });
            
proof {  assert(old(self).writer.out().push(if value { 0x1Fu8 } else { 0x10u8 }) == old(self).writer.out() + enc_bool(value)); }
self.eval_result(r);
        }
    }

fn write_option_string(&mut self, value: &Option<String>) {
        if value.is_some() {
            self.write_str(value.as_ref().unwrap().as_str());
        } else if self.ok {
            let r = self.writer.write_u8(FSM_PROTOCOL_TYPE_OPT_STRING_NONE);
            
proof {  assert(old(self).writer.out().push(0x10u8) == old(self).writer.out() + seq![0x10u8]); }
self.eval_result(r);
        }
    }

fn write_str(&mut self, value: &str) {
proof {  assert((1usize << 4) == 16 && (1usize << 12) == 4096) by (bit_vector); }

        if self.ok {
            
            let len = value.len();
            if len < (1usize << 4) {
                self.write_type_and_value(FSM_PROTOCOL_TYPE_STRING_LENGTH_4BIT, len as u64, 4);
            } else if len < (1usize << 12) {
                self.write_type_and_value(FSM_PROTOCOL_TYPE_STRING_LENGTH_12BIT, len as u64, 12);
            } else {
                // The format has no encoding for longer strings. Fail instead of writing a corrupt image.
                
                self.ok = false;
                return;
            }
            if self.ok {
                // "write" may accept only a part of the buffer, "write_all" doesn't.
                let r = self.writer.write_all(value.as_bytes());
                self.eval_result(r);
            }
        }
    
proof {  let b = value.spec_bytes();
    let o = old(self).writer.out();
    let n = b.len() as u64;
    assert(o + tv_bytes(0xC0u8, n, 0) + b == o + (tv_bytes(0xC0u8, n, 0) + b));
    assert(o + tv_bytes(0xD0u8, n, 1) + b == o + (tv_bytes(0xD0u8, n, 1) + b)); }
}

fn write_usize(&mut self, value: usize) {
        self.write_uint(value as u64)
    }

fn write_uint(&mut self, value: u64) {
proof {  assert((1u64 << 4) == 0x10 && (1u64 << 12) == 0x1000 && (1u64 << 20) == 0x10_0000 && (1u64 << 28) == 0x1000_0000
        && (1u64 << 36) == 0x10_0000_0000 && (1u64 << 44) == 0x1000_0000_0000 && (1u64 << 52) == 0x10_0000_0000_0000
        && (1u64 << 60) == 0x1000_0000_0000_0000) by (bit_vector); }

        
        if value < (1u64 << 4) {
            self.write_type_and_value(FSM_PROTOCOL_TYPE_INT_4BIT, value, 4);
        } else if value < (1u64 << 12) {
            self.write_type_and_value(FSM_PROTOCOL_TYPE_INT_12BIT, value, 12);
        } else if value < (1u64 << 20) {
            self.write_type_and_value(FSM_PROTOCOL_TYPE_INT_20BIT, value, 20);
        } else if value < (1u64 << 28) {
            self.write_type_and_value(FSM_PROTOCOL_TYPE_INT_28BIT, value, 28);
        } else if value < (1u64 << 36) {
            self.write_type_and_value(FSM_PROTOCOL_TYPE_INT_36BIT, value, 36);
        } else if value < (1u64 << 44) {
            self.write_type_and_value(FSM_PROTOCOL_TYPE_INT_44BIT, value, 44);
        } else if value < (1u64 << 52) {
            self.write_type_and_value(FSM_PROTOCOL_TYPE_INT_52BIT, value, 52);
        } else if value < (1u64 << 60) {
            self.write_type_and_value(FSM_PROTOCOL_TYPE_INT_60BIT, value, 60);
        } else {
            self.write_type_and_value(FSM_PROTOCOL_TYPE_INT_68BIT, value, 68);
        }
    }

fn has_error(&self) -> bool {
        !self.ok
    }

fn get_writer(&self) -> &W {
        &self.writer
    }

}


// ===== claims: claims.rs =====
// Property-level lemmas over the contracts above.  Each proof fn is one obligation.

// serves: C05
/// C05 asks for "strings of every length": the format must have an encoding for every byte string.
/// (It has none for 4096 bytes and more - see KNOWN_FINDINGS.json.)
pub proof fn format_covers_every_string(b: Seq<u8>)
    ensures
        str_encodable(b),
{
}


} // verus!
fn main() {}
