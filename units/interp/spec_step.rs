// Transitions, history values and the W3C functions over them.

pub open spec fn tr(f: &Fsm, t: u32) -> Transition {
    f.transitions@[t]
}

pub open spec fn valid_tr(f: &Fsm, t: u32) -> bool {
    f.transitions@.contains_key(t)
}

pub open spec fn all_valid(f: &Fsm, s: Seq<u32>) -> bool {
    forall|i: int| 0 <= i < s.len() ==> valid_id(f, #[trigger] s[i])
}

/// the history value table: recorded configurations per history pseudo-state
pub open spec fn hv_has(g: &GlobalData, h: u32) -> bool {
    g.historyValue.data@.contains_key(h)
}

pub open spec fn hv_get(g: &GlobalData, h: u32) -> Seq<u32> {
    g.historyValue.data@[h].data@
}

/// well-formedness of transitions and history pseudo-states ("conformant document", continued)
pub open spec fn wf_doc(f: &Fsm) -> bool {
    &&& wf_tree(f)
    &&& forall|t: u32| valid_tr(f, t) ==> (#[trigger] tr(f, t)).id == t && valid_id(f, tr(f, t).source) && all_valid(f, tr(f, t).target@)
    &&& forall|s: u32, i: int| valid_id(f, s) && 0 <= i < st(f, s).transitions.data@.len() ==> valid_tr(f, #[trigger] st(f, s).transitions.data@[i])
    &&& forall|h: u32| valid_id(f, h) && is_history(f, h) ==> #[trigger] history_ok(f, h)
    &&& forall|s: u32, i: int| valid_id(f, s) && 0 <= i < st(f, s).history.data@.len() ==> valid_id(f, #[trigger] st(f, s).history.data@[i])
}

/// a history pseudo-state has exactly one (default) transition whose targets are ordinary states
pub open spec fn history_ok(f: &Fsm, h: u32) -> bool {
    &&& st(f, h).transitions.data@.len() >= 1
    &&& valid_tr(f, st(f, h).transitions.data@[0])
    &&& forall|i: int| 0 <= i < default_targets(f, h).len() ==> !is_history(f, #[trigger] default_targets(f, h)[i])
}

pub open spec fn default_targets(f: &Fsm, h: u32) -> Seq<u32> {
    tr(f, st(f, h).transitions.data@[0]).target@
}

/// recorded history values only name valid states
pub open spec fn wf_hv(f: &Fsm, g: &GlobalData) -> bool {
    forall|h: u32| hv_has(g, h) ==> all_valid(f, #[trigger] hv_get(g, h))
}

/// W3C getEffectiveTargetStates(transition): history targets dereferenced through the recorded value, else through the default transition
pub open spec fn eff_targets_from(f: &Fsm, g: &GlobalData, acc: Seq<u32>, targets: Seq<u32>) -> Seq<u32>
    decreases targets.len(),
{
    if targets.len() == 0 {
        acc
    } else {
        let prev = eff_targets_from(f, g, acc, targets.drop_last());
        let sid = targets.last();
        if is_history(f, sid) {
            if hv_has(g, sid) {
                set_add_all(prev, hv_get(g, sid))
            } else {
                set_add_all(prev, set_add_all(Seq::empty(), default_targets(f, sid)))
            }
        } else {
            set_add(prev, sid)
        }
    }
}

pub open spec fn eff_targets(f: &Fsm, g: &GlobalData, t: Transition) -> Seq<u32> {
    eff_targets_from(f, g, Seq::empty(), t.target@)
}

pub open spec fn has_history_target(f: &Fsm, targets: Seq<u32>) -> bool {
    exists|i: int| 0 <= i < targets.len() && is_history(f, #[trigger] targets[i])
}

/// without history states among the targets the effective targets are just the targets (as a set)
pub proof fn lemma_eff_no_history(f: &Fsm, g: &GlobalData, acc: Seq<u32>, targets: Seq<u32>)
    requires
        !has_history_target(f, targets),
    ensures
        eff_targets_from(f, g, acc, targets) == set_add_all(acc, targets),
    decreases targets.len(),
{
    if targets.len() > 0 {
        assert(!is_history(f, targets[targets.len() - 1]));
        assert(!has_history_target(f, targets.drop_last())) by {
            if has_history_target(f, targets.drop_last()) {
                let i = choose|i: int| 0 <= i < targets.drop_last().len() && is_history(f, #[trigger] targets.drop_last()[i]);
                assert(targets[i] == targets.drop_last()[i]);
            }
        }
        lemma_eff_no_history(f, g, acc, targets.drop_last());
    }
}

pub proof fn lemma_set_add_all_valid(f: &Fsm, s: Seq<u32>, t: Seq<u32>)
    requires
        all_valid(f, s),
        all_valid(f, t),
    ensures
        all_valid(f, set_add_all(s, t)),
    decreases t.len(),
{
    if t.len() > 0 {
        lemma_set_add_all_valid(f, s, t.drop_last());
        assert(valid_id(f, t[t.len() - 1]));
    }
}

pub proof fn lemma_eff_targets_valid(f: &Fsm, g: &GlobalData, acc: Seq<u32>, targets: Seq<u32>)
    requires
        wf_doc(f),
        wf_hv(f, g),
        all_valid(f, acc),
        all_valid(f, targets),
    ensures
        all_valid(f, eff_targets_from(f, g, acc, targets)),
    decreases targets.len(),
{
    if targets.len() > 0 {
        let sid = targets[targets.len() - 1];
        assert(valid_id(f, sid));
        assert(all_valid(f, targets.drop_last())) by {
            assert forall|i: int| 0 <= i < targets.drop_last().len() implies valid_id(f, #[trigger] targets.drop_last()[i]) by {
                assert(targets.drop_last()[i] == targets[i]);
            }
        }
        lemma_eff_targets_valid(f, g, acc, targets.drop_last());
        let prev = eff_targets_from(f, g, acc, targets.drop_last());
        if is_history(f, sid) {
            if hv_has(g, sid) {
                lemma_set_add_all_valid(f, prev, hv_get(g, sid));
            } else {
                assert(history_ok(f, sid));
                let dt = st(f, sid).transitions.data@[0];
                assert(valid_tr(f, dt));
                assert(all_valid(f, tr(f, dt).target@));
                lemma_set_add_all_valid(f, Seq::empty(), default_targets(f, sid));
                lemma_set_add_all_valid(f, prev, set_add_all(Seq::empty(), default_targets(f, sid)));
            }
        }
    }
}

pub open spec fn is_internal(t: Transition) -> bool {
    t.transition_type == TransitionType::Internal
}

/// W3C getTransitionDomain(t)
pub open spec fn spec_domain(f: &Fsm, g: &GlobalData, t: Transition) -> u32 {
    let ts = eff_targets(f, g, t);
    if ts.len() == 0 {
        0
    } else if is_internal(t) && is_compound(f, t.source) && all_desc(f, ts, t.source) {
        t.source
    } else {
        spec_find_lcca(f, seq![t.source] + ts)
    }
}

/// add those members of `from` (in order) that are proper descendants of `dom`
pub open spec fn add_descendants_of(f: &Fsm, acc: Seq<u32>, from: Seq<u32>, dom: u32) -> Seq<u32>
    decreases from.len(),
{
    if from.len() == 0 {
        acc
    } else {
        let prev = add_descendants_of(f, acc, from.drop_last(), dom);
        if is_desc(f, from.last(), dom) {
            set_add(prev, from.last())
        } else {
            prev
        }
    }
}

/// W3C computeExitSet(transitions)
pub open spec fn exit_set_from(f: &Fsm, g: &GlobalData, acc: Seq<u32>, ts: Seq<u32>) -> Seq<u32>
    decreases ts.len(),
{
    if ts.len() == 0 {
        acc
    } else {
        let prev = exit_set_from(f, g, acc, ts.drop_last());
        let t = tr(f, ts.last());
        if t.target@.len() == 0 {
            prev
        } else {
            add_descendants_of(f, prev, g.configuration.data@, spec_domain(f, g, t))
        }
    }
}

pub open spec fn spec_exit_set(f: &Fsm, g: &GlobalData, ts: Seq<u32>) -> Seq<u32> {
    exit_set_from(f, g, Seq::empty(), ts)
}

pub open spec fn all_valid_tr(f: &Fsm, ts: Seq<u32>) -> bool {
    forall|i: int| 0 <= i < ts.len() ==> valid_tr(f, #[trigger] ts[i])
}

/// the part of "legal configuration" every function needs: members are valid state ids
pub open spec fn wf_config(f: &Fsm, g: &GlobalData) -> bool {
    all_valid(f, g.configuration.data@) && forall|i: int| 0 <= i < g.configuration.data@.len() ==> !is_history(f, #[trigger] g.configuration.data@[i])
}

pub proof fn lemma_fca_member(f: &Fsm, cands: Seq<u32>, others: Seq<u32>)
    ensures
        first_common_ancestor(f, cands, others) == 0 || cands.contains(first_common_ancestor(f, cands, others)),
    decreases cands.len(),
{
    if cands.len() > 0 && !all_desc(f, others, cands[0]) {
        let rest = cands.subrange(1, cands.len() as int);
        lemma_fca_member(f, rest, others);
        let r = first_common_ancestor(f, rest, others);
        if r != 0 {
            let k = choose|k: int| 0 <= k < rest.len() && rest[k] == r;
            assert(cands[k + 1] == r);
        }
    } else if cands.len() > 0 {
        assert(cands[0] == first_common_ancestor(f, cands, others));
    }
}

/// the LCCA is 0 or a valid state id
pub proof fn lemma_find_lcca_valid(f: &Fsm, l: Seq<u32>)
    requires
        wf_tree(f),
        l.len() > 0,
        all_valid(f, l),
    ensures
        spec_find_lcca(f, l) == 0 || valid_id(f, spec_find_lcca(f, l)),
{
    let anc = proper_ancestors(f, l[0], 0);
    let pred = |s: u32| is_compound_or_root(f, s);
    lemma_ancestors_valid(f, l[0], 0);
    lemma_filter_subset(anc, pred);
    lemma_fca_member(f, anc.filter(pred), l.subrange(1, l.len() as int));
    let r = spec_find_lcca(f, l);
    if r != 0 {
        assert(anc.filter(pred).contains(r));
        assert(anc.contains(r));
        let k = choose|k: int| 0 <= k < anc.len() && anc[k] == r;
        assert(valid_id(f, anc[k]));
    }
}

pub proof fn lemma_domain_valid(f: &Fsm, g: &GlobalData, t: Transition)
    requires
        wf_doc(f),
        wf_hv(f, g),
        all_valid(f, t.target@),
        valid_id(f, t.source),
    ensures
        spec_domain(f, g, t) == 0 || valid_id(f, spec_domain(f, g, t)),
{
    lemma_eff_targets_valid(f, g, Seq::empty(), t.target@);
    let ts = eff_targets(f, g, t);
    let l = seq![t.source] + ts;
    assert(all_valid(f, l)) by {
        assert forall|i: int| 0 <= i < l.len() implies valid_id(f, #[trigger] l[i]) by {
            if i > 0 {
                assert(l[i] == ts[i - 1]);
            }
        }
    }
    lemma_find_lcca_valid(f, l);
}

/// exit set of a single transition (as used by removeConflictingTransitions)
pub open spec fn exit1(f: &Fsm, g: &GlobalData, t: u32) -> Seq<u32> {
    spec_exit_set(f, g, seq![t])
}

pub open spec fn conflicts(f: &Fsm, g: &GlobalData, t1: u32, t2: u32) -> bool {
    intersects(exit1(f, g, t1), exit1(f, g, t2))
}

/// state of the inner loop of removeConflictingTransitions after the first k members of `fl`:
/// (t1 pre-empted, transitions to remove)
pub open spec fn conflict_scan(f: &Fsm, g: &GlobalData, t1: u32, fl: Seq<u32>, k: int) -> (bool, Seq<u32>)
    decreases k,
{
    if k <= 0 {
        (false, Seq::empty())
    } else {
        let (p, acc) = conflict_scan(f, g, t1, fl, k - 1);
        let t2 = fl[k - 1];
        if p {
            (p, acc)
        } else if conflicts(f, g, t1, t2) {
            if is_desc(f, tr(f, t1).source, tr(f, t2).source) {
                (false, set_add(acc, t2))
            } else {
                (true, acc)
            }
        } else {
            (false, acc)
        }
    }
}

pub open spec fn remove_all(s: Seq<u32>, rm: Seq<u32>) -> Seq<u32>
    decreases rm.len(),
{
    if rm.len() == 0 {
        s
    } else {
        seq_without(remove_all(s, rm.drop_last()), rm.last())
    }
}

/// W3C removeConflictingTransitions, one outer iteration
pub open spec fn conflict_step(f: &Fsm, g: &GlobalData, filtered: Seq<u32>, t1: u32) -> Seq<u32> {
    let (p, rm) = conflict_scan(f, g, t1, filtered, filtered.len() as int);
    if p {
        filtered
    } else {
        set_add(remove_all(filtered, rm), t1)
    }
}

pub open spec fn remove_conflicts_k(f: &Fsm, g: &GlobalData, enabled: Seq<u32>, k: int) -> Seq<u32>
    decreases k,
{
    if k <= 0 {
        Seq::empty()
    } else {
        conflict_step(f, g, remove_conflicts_k(f, g, enabled, k - 1), enabled[k - 1])
    }
}

/// W3C removeConflictingTransitions(enabledTransitions)
pub open spec fn spec_remove_conflicts(f: &Fsm, g: &GlobalData, enabled: Seq<u32>) -> Seq<u32> {
    remove_conflicts_k(f, g, enabled, enabled.len() as int)
}

/// once pre-empted, the scan result no longer changes
pub proof fn lemma_scan_preempted(f: &Fsm, g: &GlobalData, t1: u32, fl: Seq<u32>, k: int, n: int)
    requires
        0 <= k <= n,
        conflict_scan(f, g, t1, fl, k).0,
    ensures
        conflict_scan(f, g, t1, fl, n) == conflict_scan(f, g, t1, fl, k),
    decreases n - k,
{
    if k < n {
        lemma_scan_preempted(f, g, t1, fl, k, n - 1);
    }
}

pub proof fn lemma_seq_without_subset(s: Seq<u32>, e: u32)
    ensures
        forall|x: u32| #[trigger] seq_without(s, e).contains(x) ==> s.contains(x),
{
    lemma_filter_subset(s, neq_pred(e));
}

pub proof fn lemma_remove_all_subset(s: Seq<u32>, rm: Seq<u32>)
    ensures
        forall|x: u32| #[trigger] remove_all(s, rm).contains(x) ==> s.contains(x),
    decreases rm.len(),
{
    if rm.len() > 0 {
        lemma_remove_all_subset(s, rm.drop_last());
        lemma_seq_without_subset(remove_all(s, rm.drop_last()), rm.last());
    }
}

pub proof fn lemma_conflict_step_valid(f: &Fsm, g: &GlobalData, filtered: Seq<u32>, t1: u32)
    requires
        all_valid_tr(f, filtered),
        valid_tr(f, t1),
    ensures
        all_valid_tr(f, conflict_step(f, g, filtered, t1)),
{
    let (p, rm) = conflict_scan(f, g, t1, filtered, filtered.len() as int);
    if !p {
        let ra = remove_all(filtered, rm);
        lemma_remove_all_subset(filtered, rm);
        let r = set_add(ra, t1);
        assert forall|i: int| 0 <= i < r.len() implies valid_tr(f, #[trigger] r[i]) by {
            if i < ra.len() {
                assert(ra.contains(ra[i]));
                assert(filtered.contains(ra[i]));
                let j = choose|j: int| 0 <= j < filtered.len() && filtered[j] == ra[i];
                assert(valid_tr(f, filtered[j]));
            }
        }
    }
}

/// the exit set of a one-element transition list, however that list was built
pub proof fn lemma_exit1(f: &Fsm, g: &GlobalData, t: u32)
    ensures
        forall|l: Seq<u32>| l.len() == 1 && l[0] == t ==> #[trigger] spec_exit_set(f, g, l) == exit1(f, g, t),
{
    assert forall|l: Seq<u32>| l.len() == 1 && l[0] == t implies #[trigger] spec_exit_set(f, g, l) == exit1(f, g, t) by {
        assert(l =~= seq![t]);
    }
}

/// s without the members of rm (order kept)
pub open spec fn without_all(s: Seq<u32>, rm: Seq<u32>) -> Seq<u32>
    decreases s.len(),
{
    if s.len() == 0 {
        Seq::empty()
    } else {
        let r = without_all(s.drop_last(), rm);
        if rm.contains(s.last()) {
            r
        } else {
            r.push(s.last())
        }
    }
}

/// executable-content blocks of the onexit handlers of the states in `l`, in that order (0 = no block)
pub open spec fn onexit_blocks(f: &Fsm, l: Seq<u32>) -> Seq<u32>
    decreases l.len(),
{
    if l.len() == 0 {
        Seq::empty()
    } else {
        onexit_blocks(f, l.drop_last()) + st(f, l.last()).onexit@.filter(|c: u32| nonzero(c))
    }
}

/// l is sorted in exit order (reverse document order): no earlier element has a smaller doc id than a later one
pub open spec fn exit_sorted(f: &Fsm, l: Seq<u32>) -> bool {
    forall|i: int, j: int| 0 <= i < j < l.len() ==> st(f, #[trigger] l[i]).doc_id >= st(f, #[trigger] l[j]).doc_id
}

pub open spec fn same_members(a: Seq<u32>, b: Seq<u32>) -> bool {
    a.to_multiset() == b.to_multiset()
}

pub proof fn lemma_add_desc_members(f: &Fsm, acc: Seq<u32>, from: Seq<u32>, dom: u32)
    requires
        no_dup(acc),
    ensures
        no_dup(add_descendants_of(f, acc, from, dom)),
        forall|x: u32| #[trigger] add_descendants_of(f, acc, from, dom).contains(x) ==> acc.contains(x) || from.contains(x),
    decreases from.len(),
{
    if from.len() > 0 {
        lemma_add_desc_members(f, acc, from.drop_last(), dom);
        let prev = add_descendants_of(f, acc, from.drop_last(), dom);
        lemma_set_add_no_dup(prev, from.last());
        assert forall|x: u32| #[trigger] add_descendants_of(f, acc, from, dom).contains(x) implies acc.contains(x) || from.contains(x) by {
            if x == from.last() {
                assert(from[from.len() - 1] == x);
            } else {
                assert(prev.contains(x));
                if from.drop_last().contains(x) {
                    let j = choose|j: int| 0 <= j < from.drop_last().len() && from.drop_last()[j] == x;
                    assert(from[j] == x);
                }
            }
        }
    }
}

/// "never exited while inactive": the exit set only holds members of the configuration, each once
pub proof fn lemma_exit_set_members(f: &Fsm, g: &GlobalData, acc: Seq<u32>, ts: Seq<u32>)
    requires
        no_dup(acc),
        forall|x: u32| acc.contains(x) ==> g.configuration.data@.contains(x),
    ensures
        no_dup(exit_set_from(f, g, acc, ts)),
        forall|x: u32| #[trigger] exit_set_from(f, g, acc, ts).contains(x) ==> g.configuration.data@.contains(x),
    decreases ts.len(),
{
    if ts.len() > 0 {
        lemma_exit_set_members(f, g, acc, ts.drop_last());
        let prev = exit_set_from(f, g, acc, ts.drop_last());
        let t = tr(f, ts.last());
        if t.target@.len() != 0 {
            lemma_add_desc_members(f, prev, g.configuration.data@, spec_domain(f, g, t));
        }
    }
}

pub proof fn lemma_members_valid(f: &Fsm, sub: Seq<u32>, sup: Seq<u32>)
    requires
        all_valid(f, sup),
        forall|x: u32| sub.contains(x) ==> sup.contains(x),
    ensures
        all_valid(f, sub),
{
    assert forall|i: int| 0 <= i < sub.len() implies valid_id(f, #[trigger] sub[i]) by {
        assert(sub.contains(sub[i]));
        let j = choose|j: int| 0 <= j < sup.len() && sup[j] == sub[i];
        assert(valid_id(f, sup[j]));
    }
}

pub proof fn lemma_same_members_contains(a: Seq<u32>, b: Seq<u32>)
    requires
        same_members(a, b),
    ensures
        forall|x: u32| a.contains(x) <==> b.contains(x),
{
    a.to_multiset_ensures();
    b.to_multiset_ensures();
    assert forall|x: u32| a.contains(x) <==> b.contains(x) by {
        assert(a.contains(x) <==> a.to_multiset().count(x) > 0);
        assert(b.contains(x) <==> b.to_multiset().count(x) > 0);
    }
}

pub proof fn lemma_frame_core_trans(a: GlobalData, b: GlobalData, c: GlobalData)
    requires
        frame_core(a, b),
        frame_core(b, c),
    ensures
        frame_core(a, c),
{
    let x = a.internalQueue.data@;
    let y = b.internalQueue.data@;
    let z = c.internalQueue.data@;
    assert(x.is_prefix_of(z)) by {
        assert(x.len() <= z.len());
        assert forall|i: int| 0 <= i < x.len() implies x[i] == z[i] by {
            assert(x[i] == y[i]);
            assert(y[i] == z[i]);
        }
    }
}

pub proof fn lemma_seq_without_without_all(s: Seq<u32>, rm: Seq<u32>, e: u32)
    ensures
        seq_without(without_all(s, rm), e) == without_all(s, rm.push(e)),
    decreases s.len(),
{
    reveal(Seq::filter);
    if s.len() > 0 {
        lemma_seq_without_without_all(s.drop_last(), rm, e);
        let x = s.last();
        assert(rm.push(e).contains(x) <==> (rm.contains(x) || x == e)) by {
            if rm.contains(x) {
                let j = choose|j: int| 0 <= j < rm.len() && rm[j] == x;
                assert(rm.push(e)[j] == x);
            }
            if x == e {
                assert(rm.push(e)[rm.len() as int] == e);
            }
            if rm.push(e).contains(x) {
                let j = choose|j: int| 0 <= j < rm.push(e).len() && rm.push(e)[j] == x;
                if j < rm.len() {
                    assert(rm[j] == x);
                }
            }
        }
        let r = without_all(s.drop_last(), rm);
        if !rm.contains(x) {
            assert(r.push(x).drop_last() == r);
        }
    }
}

/// deleting the members of rm one after the other = filtering them out
pub proof fn lemma_remove_all_is_without_all(s: Seq<u32>, rm: Seq<u32>)
    ensures
        remove_all(s, rm) == without_all(s, rm),
    decreases rm.len(),
{
    if rm.len() == 0 {
        lemma_without_none(s);
        assert(rm =~= Seq::<u32>::empty());
    } else {
        lemma_remove_all_is_without_all(s, rm.drop_last());
        lemma_seq_without_without_all(s, rm.drop_last(), rm.last());
        assert(rm.drop_last().push(rm.last()) == rm);
    }
}

pub proof fn lemma_without_none(s: Seq<u32>)
    ensures
        without_all(s, Seq::empty()) == s,
    decreases s.len(),
{
    if s.len() > 0 {
        lemma_without_none(s.drop_last());
        assert(s.drop_last().push(s.last()) == s);
    }
}

/// without_all only depends on which elements are members of rm
pub proof fn lemma_without_all_members(s: Seq<u32>, rm1: Seq<u32>, rm2: Seq<u32>)
    requires
        forall|x: u32| rm1.contains(x) <==> rm2.contains(x),
    ensures
        without_all(s, rm1) == without_all(s, rm2),
    decreases s.len(),
{
    if s.len() > 0 {
        lemma_without_all_members(s.drop_last(), rm1, rm2);
    }
}

/// everything in GlobalData except the named field is the same
pub open spec fn same_except_sti(a: GlobalData, b: GlobalData) -> bool {
    &&& a.configuration == b.configuration
    &&& a.historyValue == b.historyValue
    &&& a.running == b.running
    &&& a.internalQueue == b.internalQueue
    &&& a.child_sessions == b.child_sessions
    &&& a.caller_invoke_id == b.caller_invoke_id
    &&& a.parent_session_id == b.parent_session_id
    &&& a.session_id == b.session_id
    &&& a.final_configuration == b.final_configuration
}

/// fields of GlobalData that exiting states never touches directly
pub open spec fn frame_exit(a: GlobalData, b: GlobalData) -> bool {
    &&& a.running == b.running
    &&& a.caller_invoke_id == b.caller_invoke_id
    &&& a.parent_session_id == b.parent_session_id
    &&& a.session_id == b.session_id
    &&& a.final_configuration == b.final_configuration
    &&& a.internalQueue.data@.is_prefix_of(b.internalQueue.data@)
}

pub open spec fn nonzero(c: u32) -> bool {
    c != 0
}

pub proof fn lemma_exit_sorted(f: &Fsm, l: Seq<u32>)
    requires
        forall|i: int, j: int| 0 <= i < j < l.len() ==> !(doc_order(f, #[trigger] l[j], #[trigger] l[i]) is Greater),
    ensures
        exit_sorted(f, l),
{
}

// ---- history recording (C06) --------------------------------------------------------------------
pub open spec fn deep_pred(f: &Fsm, s: u32) -> spec_fn(u32) -> bool {
    |x: u32| is_atomic(f, x) && is_desc(f, x, s)
}

pub open spec fn shallow_pred(f: &Fsm, s: u32) -> spec_fn(u32) -> bool {
    |x: u32| parent_of(f, x) == s
}

/// what history pseudo-state h of the exited state s records: the active atomic descendants of s (deep)
/// or the active children of s (shallow), taken from the configuration before anything is removed
pub open spec fn hist_record(f: &Fsm, cfg: Seq<u32>, s: u32, h: u32) -> Seq<u32> {
    if st(f, h).history_type == HistoryType::Deep {
        set_add_all(Seq::empty(), cfg.filter(deep_pred(f, s)))
    } else {
        set_add_all(Seq::empty(), cfg.filter(shallow_pred(f, s)))
    }
}

pub open spec fn hist_inner(f: &Fsm, cfg: Seq<u32>, m: Map<u32, Seq<u32>>, s: u32, hs: Seq<u32>) -> Map<u32, Seq<u32>>
    decreases hs.len(),
{
    if hs.len() == 0 {
        m
    } else {
        hist_inner(f, cfg, m, s, hs.drop_last()).insert(st(f, hs.last()).id, hist_record(f, cfg, s, hs.last()))
    }
}

pub open spec fn hist_outer(f: &Fsm, cfg: Seq<u32>, m: Map<u32, Seq<u32>>, l: Seq<u32>) -> Map<u32, Seq<u32>>
    decreases l.len(),
{
    if l.len() == 0 {
        m
    } else {
        hist_inner(f, cfg, hist_outer(f, cfg, m, l.drop_last()), l.last(), st(f, l.last()).history.data@)
    }
}

pub proof fn lemma_mask_filter_map<A, B>(s: Seq<A>, keep: Seq<bool>, g: spec_fn(A) -> B)
    requires
        keep.len() == s.len(),
    ensures
        mask_filter(s, keep).map_values(g) == mask_filter(s.map_values(g), keep),
    decreases s.len(),
{
    if s.len() > 0 {
        lemma_mask_filter_map(s.drop_last(), keep.drop_last(), g);
        assert(s.map_values(g).drop_last() == s.drop_last().map_values(g));
        let r = mask_filter(s.drop_last(), keep.drop_last());
        if keep.last() {
            assert(r.push(s.last()).map_values(g) == r.map_values(g).push(g(s.last())));
        }
    } else {
        assert(mask_filter(s, keep).map_values(g) =~= Seq::<B>::empty());
    }
}

pub open spec fn state_id_fn<'a>() -> spec_fn(&'a State) -> u32 {
    |s: &'a State| s.id
}

/// executable-content blocks as oracle calls
pub open spec fn execs(s: Seq<u32>) -> Seq<Call>
    decreases s.len(),
{
    if s.len() == 0 {
        Seq::empty()
    } else {
        execs(s.drop_last()).push(Call::Exec(s.last()))
    }
}

pub proof fn lemma_execs_add(a: Seq<u32>, b: Seq<u32>)
    ensures
        execs(a + b) == execs(a) + execs(b),
    decreases b.len(),
{
    if b.len() == 0 {
        assert(a + b == a);
        assert(execs(a) + execs(b) == execs(a));
    } else {
        lemma_execs_add(a, b.drop_last());
        assert((a + b).drop_last() == a + b.drop_last());
        assert(execs(a) + execs(b.drop_last()).push(Call::Exec(b.last())) == (execs(a) + execs(b.drop_last())).push(Call::Exec(b.last())));
    }
}
/// C19 at byte level: descriptor d matches name n iff n == d or n starts with d followed by '.'
pub open spec fn desc_matches(d: Seq<u8>, n: Seq<u8>) -> bool {
    d.is_prefix_of(n) && (d.len() == n.len() || n[d.len() as int] == 0x2Eu8)
}

pub open spec fn any_desc_matches(ds: Seq<String>, n: Seq<u8>) -> bool {
    exists|i: int| 0 <= i < ds.len() && desc_matches(encode_utf8(#[trigger] ds[i]@), n)
}

