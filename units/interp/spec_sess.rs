// The session invariant that every step of the interpreter loop preserves, and the lemmas showing that
// exitStates / enterStates re-establish it.

pub open spec fn sess_wf(f: &Fsm, g: &GlobalData) -> bool {
    &&& entry_wf(f, g)
    &&& wf_config(f, g)
    &&& all_valid(f, g.statesToInvoke.data@)
}

pub proof fn lemma_without_all_subset(s: Seq<u32>, rm: Seq<u32>)
    ensures
        forall|x: u32| #[trigger] without_all(s, rm).contains(x) ==> s.contains(x),
    decreases s.len(),
{
    if s.len() > 0 {
        lemma_without_all_subset(s.drop_last(), rm);
        assert forall|x: u32| #[trigger] without_all(s, rm).contains(x) implies s.contains(x) by {
            let w = without_all(s, rm);
            let k = choose|k: int| 0 <= k < w.len() && w[k] == x;
            let r = without_all(s.drop_last(), rm);
            if !rm.contains(s.last()) && k == w.len() - 1 {
                assert(s[s.len() - 1] == x);
            } else {
                assert(r[k] == x);
                assert(r.contains(x));
                let j = choose|j: int| 0 <= j < s.drop_last().len() && s.drop_last()[j] == x;
                assert(s[j] == x);
            }
        }
    }
}

pub proof fn lemma_set_add_all_members(s: Seq<u32>, t: Seq<u32>)
    ensures
        forall|x: u32| #[trigger] set_add_all(s, t).contains(x) ==> s.contains(x) || t.contains(x),
    decreases t.len(),
{
    if t.len() > 0 {
        lemma_set_add_all_members(s, t.drop_last());
        let prev = set_add_all(s, t.drop_last());
        assert forall|x: u32| #[trigger] set_add_all(s, t).contains(x) implies s.contains(x) || t.contains(x) by {
            let r = set_add_all(s, t);
            let k = choose|k: int| 0 <= k < r.len() && r[k] == x;
            if !prev.contains(t.last()) && k == r.len() - 1 {
                assert(t[t.len() - 1] == x);
            } else {
                assert(prev[k] == x);
                assert(prev.contains(x));
                if t.drop_last().contains(x) {
                    let j = choose|j: int| 0 <= j < t.drop_last().len() && t.drop_last()[j] == x;
                    assert(t[j] == x);
                }
            }
        }
    }
}

/// where the entries of the history table computed by exitStates come from
pub proof fn lemma_hist_inner_entries(f: &Fsm, cfg: Seq<u32>, m: Map<u32, Seq<u32>>, s: u32, hs: Seq<u32>)
    ensures
        forall|h: u32| #[trigger] hist_inner(f, cfg, m, s, hs).contains_key(h) ==> (m.contains_key(h) && hist_inner(f, cfg, m, s, hs)[h] == m[h])
            || (exists|i: int| 0 <= i < hs.len() && st(f, hs[i]).id == h && hist_inner(f, cfg, m, s, hs)[h] == hist_record(f, cfg, s, hs[i])),
    decreases hs.len(),
{
    if hs.len() > 0 {
        lemma_hist_inner_entries(f, cfg, m, s, hs.drop_last());
        let prev = hist_inner(f, cfg, m, s, hs.drop_last());
        let r = hist_inner(f, cfg, m, s, hs);
        assert forall|h: u32| #[trigger] r.contains_key(h) implies (m.contains_key(h) && r[h] == m[h])
            || (exists|i: int| 0 <= i < hs.len() && st(f, hs[i]).id == h && r[h] == hist_record(f, cfg, s, hs[i])) by {
            if h == st(f, hs.last()).id {
                assert(st(f, hs[hs.len() - 1]).id == h && r[h] == hist_record(f, cfg, s, hs[hs.len() - 1]));
            } else {
                assert(prev.contains_key(h) && r[h] == prev[h]);
                if !(m.contains_key(h) && prev[h] == m[h]) {
                    let i = choose|i: int| 0 <= i < hs.drop_last().len() && st(f, hs.drop_last()[i]).id == h && prev[h] == hist_record(f, cfg, s, hs.drop_last()[i]);
                    assert(hs[i] == hs.drop_last()[i]);
                }
            }
        }
    }
}

pub open spec fn hist_entry_src(f: &Fsm, cfg: Seq<u32>, l: Seq<u32>, h: u32, v: Seq<u32>) -> bool {
    exists|k: int, i: int| 0 <= k < l.len() && 0 <= i < st(f, l[k]).history.data@.len() && st(f, st(f, l[k]).history.data@[i]).id == h && v == hist_record(f, cfg, l[k], #[trigger] st(f, l[k]).history.data@[i])
}

pub proof fn lemma_hist_outer_entries(f: &Fsm, cfg: Seq<u32>, m: Map<u32, Seq<u32>>, l: Seq<u32>)
    ensures
        forall|h: u32| #[trigger] hist_outer(f, cfg, m, l).contains_key(h) ==> (m.contains_key(h) && hist_outer(f, cfg, m, l)[h] == m[h])
            || hist_entry_src(f, cfg, l, h, hist_outer(f, cfg, m, l)[h]),
    decreases l.len(),
{
    if l.len() > 0 {
        lemma_hist_outer_entries(f, cfg, m, l.drop_last());
        let prev = hist_outer(f, cfg, m, l.drop_last());
        let s = l.last();
        let hs = st(f, s).history.data@;
        lemma_hist_inner_entries(f, cfg, prev, s, hs);
        let r = hist_outer(f, cfg, m, l);
        assert forall|h: u32| #[trigger] r.contains_key(h) implies (m.contains_key(h) && r[h] == m[h]) || hist_entry_src(f, cfg, l, h, r[h]) by {
            if prev.contains_key(h) && r[h] == prev[h] {
                if !(m.contains_key(h) && prev[h] == m[h]) {
                    assert(hist_entry_src(f, cfg, l.drop_last(), h, prev[h]));
                    let (k, i) = choose|k: int, i: int| 0 <= k < l.drop_last().len() && 0 <= i < st(f, l.drop_last()[k]).history.data@.len() && st(f, st(f, l.drop_last()[k]).history.data@[i]).id == h && prev[h] == hist_record(f, cfg, l.drop_last()[k], #[trigger] st(f, l.drop_last()[k]).history.data@[i]);
                    assert(l[k] == l.drop_last()[k]);
                    assert(0 <= k < l.len() && 0 <= i < st(f, l[k]).history.data@.len() && st(f, st(f, l[k]).history.data@[i]).id == h && r[h] == hist_record(f, cfg, l[k], st(f, l[k]).history.data@[i]));
                    assert(hist_entry_src(f, cfg, l, h, r[h]));
                }
            } else {
                let i = choose|i: int| 0 <= i < hs.len() && st(f, hs[i]).id == h && r[h] == hist_record(f, cfg, s, hs[i]);
                assert(l[l.len() - 1] == s);
                assert(st(f, st(f, l[l.len() - 1]).history.data@[i]).id == h);
                let k = l.len() - 1;
                assert(0 <= k < l.len() && 0 <= i < st(f, l[k]).history.data@.len() && st(f, st(f, l[k]).history.data@[i]).id == h && r[h] == hist_record(f, cfg, l[k], st(f, l[k]).history.data@[i]));
                assert(hist_entry_src(f, cfg, l, h, r[h]));
            }
        }
    }
}

/// a recorded history value only holds active (hence valid, ordinary) proper descendants of the exited state
pub proof fn lemma_hist_record_ok(f: &Fsm, g: &GlobalData, cfg: Seq<u32>, s: u32, h: u32)
    requires
        wf_tree(f),
        valid_id(f, s),
        all_valid(f, cfg),
        forall|i: int| 0 <= i < cfg.len() ==> !is_history(f, #[trigger] cfg[i]),
    ensures
        forall|i: int| 0 <= i < hist_record(f, cfg, s, h).len() ==> valid_id(f, #[trigger] hist_record(f, cfg, s, h)[i]) && !is_history(f, hist_record(f, cfg, s, h)[i]) && is_desc(f, hist_record(f, cfg, s, h)[i], s),
{
    let p = if st(f, h).history_type == HistoryType::Deep { deep_pred(f, s) } else { shallow_pred(f, s) };
    let fl = cfg.filter(p);
    let rec = hist_record(f, cfg, s, h);
    lemma_filter_subset(cfg, p);
    lemma_set_add_all_members(Seq::empty(), fl);
    assert forall|i: int| 0 <= i < rec.len() implies valid_id(f, #[trigger] rec[i]) && !is_history(f, rec[i]) && is_desc(f, rec[i], s) by {
        let x = rec[i];
        assert(rec.contains(x));
        assert(fl.contains(x));
        assert(cfg.contains(x) && p(x));
        let j = choose|j: int| 0 <= j < cfg.len() && cfg[j] == x;
        assert(valid_id(f, cfg[j]) && !is_history(f, cfg[j]));
    }
}

pub proof fn lemma_same_doc_is_desc_all(f1: &Fsm, f2: &Fsm)
    requires
        same_doc(f1, f2),
        wf_tree(f1),
        wf_tree(f2),
    ensures
        forall|a: u32, b: u32| #[trigger] is_desc(f2, a, b) == is_desc(f1, a, b),
{
    assert forall|a: u32, b: u32| #[trigger] is_desc(f2, a, b) == is_desc(f1, a, b) by {
        lemma_same_doc_is_desc(f1, f2, a, b);
    }
}

/// clearing isFirstEntry flags keeps the document well-formed
pub proof fn lemma_same_doc_entry_wf(f1: &Fsm, f2: &Fsm, g: &GlobalData)
    requires
        same_doc(f1, f2),
        entry_wf(f1, g),
    ensures
        entry_wf(f2, g),
{
    lemma_same_doc_wf_tree(f1, f2);
    lemma_same_doc_st(f1, f2);
    lemma_same_doc_is_desc_all(f1, f2);
    // wf_doc
    assert forall|t: u32| valid_tr(f2, t) implies (#[trigger] tr(f2, t)).id == t && valid_id(f2, tr(f2, t).source) && all_valid(f2, tr(f2, t).target@) by {
        assert(tr(f1, t) == tr(f2, t));
        assert(all_valid(f1, tr(f1, t).target@));
    }
    assert forall|s: u32, i: int| valid_id(f2, s) && 0 <= i < st(f2, s).transitions.data@.len() implies valid_tr(f2, #[trigger] st(f2, s).transitions.data@[i]) by {
        assert(state_same(st(f1, s), st(f2, s)));
        assert(valid_tr(f1, st(f1, s).transitions.data@[i]));
    }
    assert forall|h: u32| valid_id(f2, h) && is_history(f2, h) implies #[trigger] history_ok(f2, h) by {
        assert(state_same(st(f1, h), st(f2, h)));
        assert(history_ok(f1, h));
        assert(default_targets(f1, h) == default_targets(f2, h));
        assert forall|i: int| 0 <= i < default_targets(f2, h).len() implies !is_history(f2, #[trigger] default_targets(f2, h)[i]) by {
            let t = default_targets(f1, h)[i];
            assert(!is_history(f1, t));
            assert(valid_tr(f1, st(f1, h).transitions.data@[0]));
            assert(all_valid(f1, tr(f1, st(f1, h).transitions.data@[0]).target@));
            assert(valid_id(f1, t));
            assert(state_same(st(f1, t), st(f2, t)));
        }
    }
    assert forall|s: u32, i: int| valid_id(f2, s) && 0 <= i < st(f2, s).history.data@.len() implies valid_id(f2, #[trigger] st(f2, s).history.data@[i]) by {
        assert(state_same(st(f1, s), st(f2, s)));
        assert(valid_id(f1, st(f1, s).history.data@[i]));
    }
    assert(wf_doc(f2));
    // wf_hv
    assert forall|h: u32| hv_has(g, h) implies all_valid(f2, #[trigger] hv_get(g, h)) by {
        assert(all_valid(f1, hv_get(g, h)));
    }
    // entry_wf clauses
    assert forall|s: u32, i: int| valid_id(f2, s) && 0 <= i < st(f2, s).states@.len() implies !is_history(f2, #[trigger] st(f2, s).states@[i]) by {
        assert(state_same(st(f1, s), st(f2, s)));
        let c = st(f1, s).states@[i];
        assert(!is_history(f1, c));
        assert(valid_id(f1, c));
        assert(state_same(st(f1, c), st(f2, c)));
    }
    assert forall|s: u32| valid_id(f2, s) && is_compound(f2, s) && st(f2, s).initial != 0 implies #[trigger] initial_ok(f2, s) by {
        assert(state_same(st(f1, s), st(f2, s)));
        assert(is_compound(f1, s));
        assert(initial_ok(f1, s));
    }
    assert forall|h: u32| valid_id(f2, h) && is_history(f2, h) implies #[trigger] history_scope_ok(f2, h) by {
        assert(state_same(st(f1, h), st(f2, h)));
        assert(history_scope_ok(f1, h));
        assert(default_targets(f1, h) == default_targets(f2, h));
    }
    assert forall|h: u32| hv_has(g, h) implies #[trigger] hv_entry_ok(f2, g, h) by {
        assert(hv_entry_ok(f1, g, h));
        assert(state_same(st(f1, h), st(f2, h)));
        assert forall|i: int| 0 <= i < hv_get(g, h).len() implies !is_history(f2, #[trigger] hv_get(g, h)[i]) && is_desc(f2, hv_get(g, h)[i], parent_of(f2, h)) by {
            let x = hv_get(g, h)[i];
            assert(!is_history(f1, x) && is_desc(f1, x, parent_of(f1, h)));
            assert(all_valid(f1, hv_get(g, h)));
            assert(valid_id(f1, x));
            assert(state_same(st(f1, x), st(f2, x)));
        }
    }
    assert forall|s: u32| valid_id(f2, s) && (#[trigger] st(f2, s)).initial != 0 implies valid_tr(f2, st(f2, s).initial) by {
        assert(state_same(st(f1, s), st(f2, s)));
    }
    assert forall|s: u32| valid_id(f2, s) && (#[trigger] st(f2, s)).parent == 0 implies s == f2.pseudo_root by {
        assert(state_same(st(f1, s), st(f2, s)));
    }
    assert forall|s: u32| valid_id(f2, s) && parent_of(f2, s) != 0 implies !is_history(f2, #[trigger] parent_of(f2, s)) by {
        assert(state_same(st(f1, s), st(f2, s)));
        assert(!is_history(f1, parent_of(f1, s)));
        assert(valid_id(f1, parent_of(f1, s)));
        assert(state_same(st(f1, parent_of(f1, s)), st(f2, parent_of(f1, s))));
    }
    assert forall|s: u32, i: int| valid_id(f2, s) && 0 <= i < st(f2, s).history.data@.len() implies is_history(f2, #[trigger] st(f2, s).history.data@[i]) && parent_of(f2, st(f2, s).history.data@[i]) == s by {
        assert(state_same(st(f1, s), st(f2, s)));
        let h = st(f1, s).history.data@[i];
        assert(is_history(f1, h) && parent_of(f1, h) == s);
        assert(valid_id(f1, h));
        assert(state_same(st(f1, h), st(f2, h)));
    }
    assert(state_same(st(f1, f1.pseudo_root), st(f2, f1.pseudo_root)));
}

/// exitStates re-establishes the session invariant
pub proof fn lemma_exit_preserves(f: &Fsm, g0: &GlobalData, g1: &GlobalData, ex: Seq<u32>, l: Seq<u32>)
    requires
        sess_wf(f, g0),
        same_members(l, ex),
        forall|x: u32| ex.contains(x) ==> g0.configuration.data@.contains(x),
        g1.configuration.data@ == without_all(g0.configuration.data@, ex),
        g1.statesToInvoke.data@ == without_all(g0.statesToInvoke.data@, ex),
        hvv(g1.historyValue) == hvv(g0.historyValue).union_prefer_right(hist_outer(f, g0.configuration.data@, Map::empty(), l)),
    ensures
        sess_wf(f, g1),
{
    let cfg0 = g0.configuration.data@;
    lemma_without_all_subset(cfg0, ex);
    lemma_without_all_subset(g0.statesToInvoke.data@, ex);
    lemma_members_valid(f, g1.statesToInvoke.data@, g0.statesToInvoke.data@);
    lemma_members_valid(f, g1.configuration.data@, cfg0);
    assert forall|i: int| 0 <= i < g1.configuration.data@.len() implies !is_history(f, #[trigger] g1.configuration.data@[i]) by {
        let x = g1.configuration.data@[i];
        assert(g1.configuration.data@.contains(x));
        let j = choose|j: int| 0 <= j < cfg0.len() && cfg0[j] == x;
        assert(!is_history(f, cfg0[j]));
    }
    lemma_same_members_contains(l, ex);
    lemma_members_valid(f, l, cfg0);
    let ho = hist_outer(f, cfg0, Map::empty(), l);
    lemma_hist_outer_entries(f, cfg0, Map::empty(), l);
    assert forall|h: u32| hv_has(g1, h) implies #[trigger] hv_entry_ok(f, g1, h) && all_valid(f, hv_get(g1, h)) by {
        assert(hvv(g1.historyValue).dom().contains(h));
        assert(hvv(g1.historyValue).contains_key(h));
        assert(hv_get(g1, h) == hvv(g1.historyValue)[h]);
        if ho.contains_key(h) {
            assert(hv_get(g1, h) == ho[h]);
            assert(hist_entry_src(f, cfg0, l, h, ho[h]));
            let (k, i) = choose|k: int, i: int| 0 <= k < l.len() && 0 <= i < st(f, l[k]).history.data@.len() && st(f, st(f, l[k]).history.data@[i]).id == h && ho[h] == hist_record(f, cfg0, l[k], #[trigger] st(f, l[k]).history.data@[i]);
            let s = l[k];
            let hh = st(f, s).history.data@[i];
            assert(valid_id(f, s));
            assert(valid_id(f, hh) && is_history(f, hh) && parent_of(f, hh) == s);
            assert(st(f, hh).id == hh);
            lemma_hist_record_ok(f, g0, cfg0, s, hh);
        } else {
            assert(hv_has(g0, h));
            assert(hv_get(g1, h) == hv_get(g0, h));
            assert(hv_entry_ok(f, g0, h));
            assert(all_valid(f, hv_get(g0, h)));
        }
    }
    assert forall|h: u32| hv_has(g1, h) implies all_valid(f, #[trigger] hv_get(g1, h)) by {
        assert(hv_entry_ok(f, g1, h));
    }
}

/// enterStates re-establishes the session invariant (the document only loses isFirstEntry flags)
pub proof fn lemma_enter_preserves(f0: &Fsm, f1: &Fsm, g0: &GlobalData, g1: &GlobalData, e: Seq<u32>, l: Seq<u32>)
    requires
        sess_wf(f0, g0),
        same_doc(f0, f1),
        entered_ok(f0, e),
        same_members(l, e),
        g1.configuration.data@ == set_add_all(g0.configuration.data@, l),
        g1.statesToInvoke.data@ == set_add_all(g0.statesToInvoke.data@, l),
        g1.historyValue == g0.historyValue,
    ensures
        sess_wf(f1, g1),
{
    lemma_same_members_contains(l, e);
    lemma_set_add_all_members(g0.configuration.data@, l);
    lemma_set_add_all_members(g0.statesToInvoke.data@, l);
    assert forall|x: u32| g1.configuration.data@.contains(x) implies valid_id(f0, x) && !is_history(f0, x) by {
        if g0.configuration.data@.contains(x) {
            let j = choose|j: int| 0 <= j < g0.configuration.data@.len() && g0.configuration.data@[j] == x;
            assert(valid_id(f0, g0.configuration.data@[j]) && !is_history(f0, g0.configuration.data@[j]));
        } else {
            assert(e.contains(x));
            let j = choose|j: int| 0 <= j < e.len() && e[j] == x;
            assert(valid_id(f0, e[j]) && !is_history(f0, e[j]));
        }
    }
    assert forall|x: u32| g1.statesToInvoke.data@.contains(x) implies valid_id(f0, x) by {
        if g0.statesToInvoke.data@.contains(x) {
            let j = choose|j: int| 0 <= j < g0.statesToInvoke.data@.len() && g0.statesToInvoke.data@[j] == x;
            assert(valid_id(f0, g0.statesToInvoke.data@[j]));
        } else {
            assert(e.contains(x));
            let j = choose|j: int| 0 <= j < e.len() && e[j] == x;
            assert(valid_id(f0, e[j]));
        }
    }
    // the history table is unchanged, so entry_wf(f0, g1) follows from entry_wf(f0, g0)
    assert(entry_wf(f0, g1)) by {
        assert forall|h: u32| hv_has(g1, h) implies #[trigger] hv_entry_ok(f0, g1, h) by {
            assert(hv_has(g0, h));
            assert(hv_get(g0, h) == hv_get(g1, h));
            assert(hv_entry_ok(f0, g0, h));
        }
        assert forall|h: u32| hv_has(g1, h) implies all_valid(f0, #[trigger] hv_get(g1, h)) by {
            assert(hv_has(g0, h));
            assert(hv_get(g0, h) == hv_get(g1, h));
            assert(all_valid(f0, hv_get(g0, h)));
        }
    }
    lemma_same_doc_entry_wf(f0, f1, g1);
    lemma_same_doc_st(f0, f1);
    assert forall|i: int| 0 <= i < g1.configuration.data@.len() implies valid_id(f1, #[trigger] g1.configuration.data@[i]) && !is_history(f1, g1.configuration.data@[i]) by {
        let x = g1.configuration.data@[i];
        assert(g1.configuration.data@.contains(x));
        assert(state_same(st(f0, x), st(f1, x)));
    }
    assert forall|i: int| 0 <= i < g1.statesToInvoke.data@.len() implies valid_id(f1, #[trigger] g1.statesToInvoke.data@[i]) by {
        assert(g1.statesToInvoke.data@.contains(g1.statesToInvoke.data@[i]));
    }
}

/// content blocks of the transitions in ts, in list order (0 = none)
pub open spec fn transition_contents(f: &Fsm, ts: Seq<u32>) -> Seq<u32>
    decreases ts.len(),
{
    if ts.len() == 0 {
        Seq::empty()
    } else if tr(f, ts.last()).content > 0 {
        transition_contents(f, ts.drop_last()).push(tr(f, ts.last()).content)
    } else {
        transition_contents(f, ts.drop_last())
    }
}

/// W3C microstep(enabledTransitions) as a relation between the state before and after
pub open spec fn microstep_rel(f0: &Fsm, g0: &GlobalData, log0: Seq<Call>, ts: Seq<u32>, g2: &GlobalData, log2: Seq<Call>, lo: Seq<u32>, gm: &GlobalData, li: Seq<u32>) -> bool {
    let ex = spec_exit_set(f0, g0, ts);
    let x = spec_entry_set(f0, gm, ts, empty_ent());
    &&& same_members(lo, ex) && exit_sorted(f0, lo)
    &&& gm.configuration.data@ == without_all(g0.configuration.data@, ex)
    &&& gm.statesToInvoke.data@ == without_all(g0.statesToInvoke.data@, ex)
    &&& hvv(gm.historyValue) == hvv(g0.historyValue).union_prefer_right(hist_outer(f0, g0.configuration.data@, Map::empty(), lo))
    &&& same_members(li, x.e) && entry_sorted(f0, li)
    &&& g2.configuration.data@ == set_add_all(gm.configuration.data@, li)
    &&& g2.statesToInvoke.data@ == set_add_all(gm.statesToInvoke.data@, li)
    &&& g2.historyValue == gm.historyValue
    &&& log2 == log0 + execs(onexit_blocks(f0, lo)) + execs(transition_contents(f0, ts)) + entry_calls(f0, x, li)
    &&& g2.running == (g0.running && !root_final_in(f0, li))
}

/// the session invariant only looks at configuration, statesToInvoke and the history table
pub proof fn lemma_sess_frame(f: &Fsm, ga: &GlobalData, gb: &GlobalData)
    requires
        sess_wf(f, ga),
        gb.configuration == ga.configuration,
        gb.statesToInvoke == ga.statesToInvoke,
        gb.historyValue == ga.historyValue,
    ensures
        sess_wf(f, gb),
{
    assert forall|h: u32| hv_has(gb, h) implies #[trigger] hv_entry_ok(f, gb, h) by {
        assert(hv_has(ga, h));
        assert(hv_get(ga, h) == hv_get(gb, h));
        assert(hv_entry_ok(f, ga, h));
    }
    assert forall|h: u32| hv_has(gb, h) implies all_valid(f, #[trigger] hv_get(gb, h)) by {
        assert(hv_has(ga, h));
        assert(hv_get(ga, h) == hv_get(gb, h));
        assert(all_valid(f, hv_get(ga, h)));
    }
}

/// a session started by an invoke always knows its invoke id (set together by the executor)
pub open spec fn ids_consistent(g: &GlobalData) -> bool {
    g.parent_session_id.is_some() ==> g.caller_invoke_id.is_some()
}

pub open spec fn names_of(f: &Fsm, l: Seq<u32>) -> Seq<String> {
    l.map_values(|s: u32| st(f, s).name)
}

pub proof fn lemma_without_all_self(s: Seq<u32>, rm: Seq<u32>)
    requires
        forall|x: u32| s.contains(x) ==> rm.contains(x),
    ensures
        without_all(s, rm) == Seq::<u32>::empty(),
    decreases s.len(),
{
    if s.len() > 0 {
        assert forall|x: u32| s.drop_last().contains(x) implies rm.contains(x) by {
            let j = choose|j: int| 0 <= j < s.drop_last().len() && s.drop_last()[j] == x;
            assert(s[j] == x);
        }
        lemma_without_all_self(s.drop_last(), rm);
        assert(s.contains(s.last())) by { assert(s[s.len() - 1] == s.last()); }
    }
}

/// every child session started by an <invoke> remembers a valid invoking state
pub open spec fn kids_ok(f: &Fsm, g: &GlobalData) -> bool {
    forall|k: String| g.child_sessions@.contains_key(k) ==> match (#[trigger] g.child_sessions@[k]).state_id {
        Some(s) => valid_id(f, s),
        None => true,
    }
}

pub proof fn lemma_kids_sub(f: &Fsm, ga: &GlobalData, gb: &GlobalData)
    requires
        kids_ok(f, ga),
        gb.child_sessions@.submap_of(ga.child_sessions@),
    ensures
        kids_ok(f, gb),
{
    assert forall|k: String| gb.child_sessions@.contains_key(k) implies match (#[trigger] gb.child_sessions@[k]).state_id {
        Some(s) => valid_id(f, s),
        None => true,
    } by {
        assert(ga.child_sessions@.contains_key(k));
        assert(ga.child_sessions@[k] == gb.child_sessions@[k]);
    }
}

pub proof fn lemma_remove_conflicts_valid(f: &Fsm, g: &GlobalData, en: Seq<u32>, k: int)
    requires
        all_valid_tr(f, en),
        0 <= k <= en.len(),
    ensures
        all_valid_tr(f, remove_conflicts_k(f, g, en, k)),
    decreases k,
{
    if k > 0 {
        lemma_remove_conflicts_valid(f, g, en, k - 1);
        lemma_conflict_step_valid(f, g, remove_conflicts_k(f, g, en, k - 1), en[k - 1]);
    }
}

/// the full interpreter-loop invariant
pub open spec fn loop_inv(f0: &Fsm, f: &Fsm, g: &GlobalData) -> bool {
    &&& same_doc(f0, f)
    &&& sess_wf(f, g)
    &&& ids_consistent(g)
    &&& kids_ok(f, g)
}

/// the loop invariant only depends on configuration, history, statesToInvoke (validity), the two ids and the child table
pub proof fn lemma_inv_frame(f0: &Fsm, f: &Fsm, ga: &GlobalData, gb: &GlobalData)
    requires
        loop_inv(f0, f, ga),
        gb.configuration == ga.configuration,
        gb.historyValue == ga.historyValue,
        all_valid(f, gb.statesToInvoke.data@),
        gb.caller_invoke_id == ga.caller_invoke_id,
        gb.parent_session_id == ga.parent_session_id,
        gb.child_sessions@.submap_of(ga.child_sessions@),
    ensures
        loop_inv(f0, f, gb),
{
    assert forall|h: u32| hv_has(gb, h) implies #[trigger] hv_entry_ok(f, gb, h) by {
        assert(hv_has(ga, h));
        assert(hv_get(ga, h) == hv_get(gb, h));
        assert(hv_entry_ok(f, ga, h));
    }
    assert forall|h: u32| hv_has(gb, h) implies all_valid(f, #[trigger] hv_get(gb, h)) by {
        assert(hv_has(ga, h));
        assert(hv_get(ga, h) == hv_get(gb, h));
        assert(all_valid(f, hv_get(ga, h)));
    }
    lemma_kids_sub(f, ga, gb);
}

pub proof fn lemma_same_doc_trans(f0: &Fsm, f1: &Fsm, f2: &Fsm)
    requires
        same_doc(f0, f1),
        same_doc(f1, f2),
    ensures
        same_doc(f0, f2),
{
    assert forall|i: int| 0 <= i < f0.states@.len() implies state_same(#[trigger] f0.states@[i], f2.states@[i]) by {
        assert(state_same(f0.states@[i], f1.states@[i]));
        assert(state_same(f1.states@[i], f2.states@[i]));
    }
}

/// after a microstep the loop invariant holds again
pub proof fn lemma_inv_after_microstep(f0: &Fsm, fa: &Fsm, fb: &Fsm, ga: &GlobalData, gb: &GlobalData)
    requires
        loop_inv(f0, fa, ga),
        same_doc(fa, fb),
        sess_wf(fb, gb),
        gb.child_sessions@.submap_of(ga.child_sessions@),
        gb.caller_invoke_id == ga.caller_invoke_id,
        gb.parent_session_id == ga.parent_session_id,
    ensures
        loop_inv(f0, fb, gb),
{
    lemma_same_doc_trans(f0, fa, fb);
    lemma_same_doc_st(fa, fb);
    assert forall|k: String| gb.child_sessions@.contains_key(k) implies match (#[trigger] gb.child_sessions@[k]).state_id {
        Some(s) => valid_id(fb, s),
        None => true,
    } by {
        assert(ga.child_sessions@.contains_key(k));
        assert(ga.child_sessions@[k] == gb.child_sessions@[k]);
    }
}

// ---- interpret(): start-up ------------------------------------------------------------------------------------
/// clearing the history table keeps the document part of entry_wf
pub proof fn lemma_entry_wf_hv_empty(f: &Fsm, g0: &GlobalData, g1: &GlobalData)
    requires
        entry_wf(f, g0),
        hvv(g1.historyValue) =~= Map::<u32, Seq<u32>>::empty(),
    ensures
        entry_wf(f, g1),
{
}

/// every entry of `l` from position `from` on is a data-model initialisation with flag `set_data`
pub open spec fn only_inits(l: Seq<Call>, from: int, set_data: bool) -> bool {
    forall|i: int| from <= i < l.len() ==> (#[trigger] l[i]) is Init && l[i]->Init_1 == set_data
}

/// C14 (autoforward): the child session registered under key `k` was started by an <invoke autoforward="true"> of the
/// state it belongs to
pub open spec fn wants_forward(f: &Fsm, g: &GlobalData, k: String) -> bool {
    g.child_sessions@.contains_key(k) && match g.child_sessions@[k].state_id {
        Some(s) => exists|j: int| 0 <= j < st(f, s).invoke.data@.len() && fwd_inv(#[trigger] st(f, s).invoke.data@[j], g.child_sessions@[k].invoke_doc_id),
        None => false,
    }
}

pub open spec fn fwd_inv(inv: Invoke, doc_id: DocumentId) -> bool {
    inv.doc_id == doc_id && inv.autoforward
}

/// the list of invoke ids an external event is going to be forwarded to names `k`
pub open spec fn fwd_has(tf: Seq<String>, k: String) -> bool {
    exists|m: int| 0 <= m < tf.len() && (#[trigger] tf[m])@ == k@
}

pub proof fn lemma_fwd_has_push(tf: Seq<String>, x: String, k: String)
    ensures
        fwd_has(tf, k) ==> fwd_has(tf.push(x), k),
        x@ == k@ ==> fwd_has(tf.push(x), k),
{
    if fwd_has(tf, k) {
        let m = choose|m: int| 0 <= m < tf.len() && (#[trigger] tf[m])@ == k@;
        assert(tf.push(x)[m]@ == k@);
    }
    if x@ == k@ {
        assert(tf.push(x)[tf.len() as int]@ == k@);
    }
}

/// C14 (cancel on exit): state `s` has an <invoke> whose document id is `d`
pub open spec fn owns_invoke(f: &Fsm, s: u32, d: DocumentId) -> bool {
    exists|j: int| 0 <= j < st(f, s).invoke.data@.len() && (#[trigger] st(f, s).invoke.data@[j]).doc_id == d
}

/// no child session in `m` was started by an <invoke> of state `s`
pub open spec fn none_owned_by(f: &Fsm, m: Map<String, ScxmlSession>, s: u32) -> bool {
    forall|k: String| m.contains_key(k) ==> !owns_invoke(f, s, (#[trigger] m[k]).invoke_doc_id)
}

/// `m1` is `m0` without the sessions started by an <invoke> of state `s` (nothing else is cancelled)
pub open spec fn only_owned_removed(f: &Fsm, m0: Map<String, ScxmlSession>, m1: Map<String, ScxmlSession>, s: u32) -> bool {
    forall|k: String| m0.contains_key(k) && !owns_invoke(f, s, (#[trigger] m0[k]).invoke_doc_id) ==> m1.contains_key(k)
}

pub proof fn lemma_none_owned_sub(f: &Fsm, m0: Map<String, ScxmlSession>, m1: Map<String, ScxmlSession>, s: u32)
    requires
        none_owned_by(f, m0, s),
        m1.submap_of(m0),
    ensures
        none_owned_by(f, m1, s),
{
    assert forall|k: String| m1.contains_key(k) implies !owns_invoke(f, s, (#[trigger] m1[k]).invoke_doc_id) by {
        assert(m0.contains_key(k));
        assert(m0[k] == m1[k]);
    }
}

/// the list of (invoke id, session id) pairs collected for cancelling names key `k`
pub open spec fn has_id(l: Seq<(String, u32)>, k: String) -> bool {
    exists|m: int| 0 <= m < l.len() && (#[trigger] l[m]).0 == k
}
