// W3C computeEntrySet / addDescendantStatesToEnter / addAncestorStatesToEnter transcribed as spec functions over
// the three accumulators (statesToEnter, statesForDefaultEntry, defaultHistoryContent).

pub ghost struct Ent {
    pub e: Seq<u32>,
    pub d: Seq<u32>,
    pub h: Map<u32, u32>,
}

pub open spec fn k_desc(f: &Fsm, s: u32) -> int {
    if is_history(f, s) { 4 * ht(f, parent_of(f, s)) + 4 } else { 4 * ht(f, s) + 5 }
}

pub open spec fn k_anc(f: &Fsm, a: u32) -> int {
    if a == 0 { 4 * (maxr(f) as int) + 10 } else { 4 * ht(f, a) + 2 }
}

/// some state already marked for entry is a proper descendant of c
pub open spec fn has_desc_in(f: &Fsm, e: Seq<u32>, c: u32) -> bool {
    exists|i: int| 0 <= i < e.len() && is_desc(f, #[trigger] e[i], c)
}

pub open spec fn sp_desc(f: &Fsm, g: &GlobalData, s: u32, x: Ent) -> Ent
    decreases 2 * k_desc(f, s) + 1, 0int, 0int,
    when k_desc(f, s) >= 0
{
    if is_history(f, s) {
        if hv_has(g, s) {
            let l = hv_get(g, s);
            let x1 = sp_desc_list(f, g, l, l.len() as int, x, k_desc(f, s));
            sp_anc_list(f, g, l, l.len() as int, parent_of(f, s), x1, k_desc(f, s))
        } else {
            let dt = tr(f, st(f, s).transitions.data@[0]);
            let x0 = Ent { h: x.h.insert(parent_of(f, s), dt.content), ..x };
            let x1 = sp_desc_list(f, g, dt.target@, dt.target@.len() as int, x0, k_desc(f, s));
            sp_anc_list(f, g, dt.target@, dt.target@.len() as int, parent_of(f, s), x1, k_desc(f, s))
        }
    } else {
        let x0 = Ent { e: set_add(x.e, s), ..x };
        if is_compound(f, s) {
            let x1 = Ent { d: set_add(x0.d, s), ..x0 };
            if st(f, s).initial != 0 {
                let it = tr(f, st(f, s).initial);
                let x2 = sp_desc_list(f, g, it.target@, it.target@.len() as int, x1, k_desc(f, s));
                sp_anc_list(f, g, it.target@, it.target@.len() as int, s, x2, k_desc(f, s))
            } else {
                x1
            }
        } else if is_parallel(f, s) {
            sp_par_children(f, g, st(f, s).states@, st(f, s).states@.len() as int, x0, k_desc(f, s))
        } else {
            x0
        }
    }
}

/// addDescendantStatesToEnter for the first n members of l, one after the other
pub open spec fn sp_desc_list(f: &Fsm, g: &GlobalData, l: Seq<u32>, n: int, x: Ent, kc: int) -> Ent
    decreases 2 * kc, 0int, n,
    when kc >= 0
{
    if n <= 0 || n > l.len() {
        x
    } else {
        let x1 = sp_desc_list(f, g, l, n - 1, x, kc);
        if 0 <= k_desc(f, l[n - 1]) < kc {
            sp_desc(f, g, l[n - 1], x1)
        } else {
            x1
        }
    }
}

/// addAncestorStatesToEnter(l[i], anc) for the first n members of l
pub open spec fn sp_anc_list(f: &Fsm, g: &GlobalData, l: Seq<u32>, n: int, anc: u32, x: Ent, kc: int) -> Ent
    decreases 2 * kc, 0int, n,
    when kc >= 0
{
    if n <= 0 || n > l.len() {
        x
    } else {
        let x1 = sp_anc_list(f, g, l, n - 1, anc, x, kc);
        if 0 <= k_anc(f, anc) < kc {
            sp_anc(f, g, l[n - 1], anc, x1)
        } else {
            x1
        }
    }
}

/// for the first n children of a <parallel>: enter those that have no descendant marked for entry yet
pub open spec fn sp_par_children(f: &Fsm, g: &GlobalData, ch: Seq<u32>, n: int, x: Ent, kc: int) -> Ent
    decreases 2 * kc, 0int, n,
    when kc >= 0
{
    if n <= 0 || n > ch.len() {
        x
    } else {
        let x1 = sp_par_children(f, g, ch, n - 1, x, kc);
        let c = ch[n - 1];
        if !has_desc_in(f, x1.e, c) && 0 <= k_desc(f, c) < kc {
            sp_desc(f, g, c, x1)
        } else {
            x1
        }
    }
}

pub open spec fn sp_anc(f: &Fsm, g: &GlobalData, s: u32, anc: u32, x: Ent) -> Ent
    decreases 2 * k_anc(f, anc) + 1, 0int, 0int,
    when k_anc(f, anc) >= 0
{
    let pa = proper_ancestors(f, s, anc);
    sp_anc_walk(f, g, pa, pa.len() as int, x, k_anc(f, anc))
}

pub open spec fn sp_anc_walk(f: &Fsm, g: &GlobalData, pa: Seq<u32>, n: int, x: Ent, kc: int) -> Ent
    decreases 2 * kc, 1int, n,
    when kc >= 0
{
    if n <= 0 || n > pa.len() {
        x
    } else {
        let x1 = sp_anc_walk(f, g, pa, n - 1, x, kc);
        let a = pa[n - 1];
        let x2 = Ent { e: set_add(x1.e, a), ..x1 };
        if is_parallel(f, a) {
            sp_par_children(f, g, st(f, a).states@, st(f, a).states@.len() as int, x2, kc)
        } else {
            x2
        }
    }
}

/// "conformant document" clauses needed by the entry-set computation
pub open spec fn entry_wf(f: &Fsm, g: &GlobalData) -> bool {
    &&& wf_doc(f)
    &&& wf_hv(f, g)
    &&& forall|s: u32, i: int| valid_id(f, s) && 0 <= i < st(f, s).states@.len() ==> !is_history(f, #[trigger] st(f, s).states@[i])
    &&& forall|s: u32| valid_id(f, s) && is_compound(f, s) && st(f, s).initial != 0 ==> #[trigger] initial_ok(f, s)
    &&& forall|h: u32| valid_id(f, h) && is_history(f, h) ==> #[trigger] history_scope_ok(f, h)
    &&& forall|h: u32| hv_has(g, h) ==> #[trigger] hv_entry_ok(f, g, h)
    &&& forall|s: u32| valid_id(f, s) && (#[trigger] st(f, s)).initial != 0 ==> valid_tr(f, st(f, s).initial)
    &&& forall|s: u32| valid_id(f, s) && (#[trigger] st(f, s)).parent == 0 ==> s == f.pseudo_root
    &&& forall|s: u32| valid_id(f, s) && parent_of(f, s) != 0 ==> !is_history(f, #[trigger] parent_of(f, s))
    &&& forall|s: u32, i: int| valid_id(f, s) && 0 <= i < st(f, s).history.data@.len() ==> is_history(f, #[trigger] st(f, s).history.data@[i]) && parent_of(f, st(f, s).history.data@[i]) == s
    &&& valid_id(f, f.pseudo_root)
    &&& !st(f, f.pseudo_root).is_final
}

pub open spec fn initial_ok(f: &Fsm, s: u32) -> bool {
    &&& valid_tr(f, st(f, s).initial)
    &&& forall|i: int| 0 <= i < tr(f, st(f, s).initial).target@.len() ==> is_desc(f, #[trigger] tr(f, st(f, s).initial).target@[i], s)
}

pub open spec fn history_scope_ok(f: &Fsm, h: u32) -> bool {
    &&& parent_of(f, h) != 0
    &&& forall|i: int| 0 <= i < default_targets(f, h).len() ==> is_desc(f, #[trigger] default_targets(f, h)[i], parent_of(f, h))
}

pub open spec fn hv_entry_ok(f: &Fsm, g: &GlobalData, h: u32) -> bool {
    &&& valid_id(f, h)
    &&& is_history(f, h)
    &&& forall|i: int| 0 <= i < hv_get(g, h).len() ==> !is_history(f, #[trigger] hv_get(g, h)[i]) && is_desc(f, hv_get(g, h)[i], parent_of(f, h))
}

pub open spec fn ent_of(e: OrderedSet<u32>, d: OrderedSet<u32>, h: HashTable<u32, u32>) -> Ent {
    Ent { e: e.data@, d: d.data@, h: h.data@ }
}

/// measure bound for a proper descendant (termination of the mutual recursion)
pub proof fn lemma_k_desc_below(f: &Fsm, t: u32, s: u32)
    requires
        wf_tree(f),
        is_desc(f, t, s),
    ensures
        0 <= k_desc(f, t) <= 4 * ht(f, s) + 4,
        !is_history(f, t) ==> k_desc(f, t) <= 4 * ht(f, s) + 1,
        valid_id(f, t),
        valid_id(f, s),
{
    lemma_desc_ht(f, t, s);
    lemma_desc_rank(f, t, s);
    lemma_ht(f, t);
    if is_history(f, t) {
        let p = parent_of(f, t);
        if p != s {
            lemma_desc_ht(f, p, s);
        } else {
            lemma_ht(f, s);
        }
    }
}

pub proof fn lemma_ht_le_max(f: &Fsm, s: u32)
    requires
        wf_tree(f),
        valid_id(f, s),
    ensures
        0 <= ht(f, s) <= maxr(f),
{
    lemma_ht(f, s);
}

/// every proper ancestor of s below a is itself a proper descendant of a
pub proof fn lemma_ancestors_below(f: &Fsm, s: u32, a: u32)
    requires
        wf_tree(f),
        is_desc(f, s, a),
    ensures
        forall|i: int| 0 <= i < ancestors_upto(f, s, a).len() ==> is_desc(f, #[trigger] ancestors_upto(f, s, a)[i], a),
    decreases rk(f, s),
{
    lemma_desc_rank(f, s, a);
    let p = parent_of(f, s);
    if p != 0 && p != a {
        lemma_rank(f, s);
        lemma_ancestors_below(f, p, a);
        let rest = ancestors_upto(f, p, a);
        assert forall|i: int| 0 <= i < ancestors_upto(f, s, a).len() implies is_desc(f, #[trigger] ancestors_upto(f, s, a)[i], a) by {
            if i > 0 {
                assert(ancestors_upto(f, s, a)[i] == rest[i - 1]);
            }
        }
    }
}

/// a non-zero result of the LCCA search has all the other states as proper descendants
pub proof fn lemma_fca_all_desc(f: &Fsm, cands: Seq<u32>, others: Seq<u32>)
    ensures
        first_common_ancestor(f, cands, others) != 0 ==> all_desc(f, others, first_common_ancestor(f, cands, others)),
    decreases cands.len(),
{
    if cands.len() > 0 && !all_desc(f, others, cands[0]) {
        lemma_fca_all_desc(f, cands.subrange(1, cands.len() as int), others);
    }
}

/// every effective target of t is a proper descendant of t's domain (unless the domain is 0)
pub proof fn lemma_domain_covers_targets(f: &Fsm, g: &GlobalData, t: Transition)
    requires
        wf_doc(f),
    ensures
        spec_domain(f, g, t) != 0 ==> all_desc(f, eff_targets(f, g, t), spec_domain(f, g, t)),
{
    let ts = eff_targets(f, g, t);
    if ts.len() != 0 && !(is_internal(t) && is_compound(f, t.source) && all_desc(f, ts, t.source)) {
        let l = seq![t.source] + ts;
        let anc = proper_ancestors(f, l[0], 0);
        let pred = |s: u32| is_compound_or_root(f, s);
        let others = l.subrange(1, l.len() as int);
        assert(others =~= ts);
        lemma_fca_all_desc(f, anc.filter(pred), others);
    }
}

pub open spec fn k_top(f: &Fsm) -> int {
    4 * (maxr(f) as int) + 12
}

/// W3C computeEntrySet: the first k transitions processed
pub open spec fn sp_entry_k(f: &Fsm, g: &GlobalData, ts: Seq<u32>, k: int, x: Ent) -> Ent
    decreases k,
{
    if k <= 0 || k > ts.len() {
        x
    } else {
        let x0 = sp_entry_k(f, g, ts, k - 1, x);
        let t = tr(f, ts[k - 1]);
        let x1 = sp_desc_list(f, g, t.target@, t.target@.len() as int, x0, k_top(f));
        let et = eff_targets(f, g, t);
        sp_anc_list(f, g, et, et.len() as int, spec_domain(f, g, t), x1, k_top(f))
    }
}

pub open spec fn spec_entry_set(f: &Fsm, g: &GlobalData, ts: Seq<u32>, x: Ent) -> Ent {
    sp_entry_k(f, g, ts, ts.len() as int, x)
}

pub proof fn lemma_k_top(f: &Fsm, s: u32)
    requires
        wf_tree(f),
        valid_id(f, s),
        is_history(f, s) ==> parent_of(f, s) != 0,
    ensures
        0 <= k_desc(f, s) < k_top(f),
        0 <= k_anc(f, s) < k_top(f),
        0 <= k_anc(f, 0) < k_top(f),
{
    lemma_ht_le_max(f, s);
    if is_history(f, s) {
        lemma_ht_le_max(f, parent_of(f, s));
    }
}

/// W3C isInFinalState(s) relative to a configuration
pub open spec fn spec_in_final(f: &Fsm, cfg: Seq<u32>, s: u32) -> bool
    decreases ht(f, s),
    when wf_tree(f) && valid_id(f, s)
    via spec_in_final_decreases
{
    if is_compound(f, s) {
        exists|i: int| 0 <= i < st(f, s).states@.len() && st(f, #[trigger] st(f, s).states@[i]).is_final && cfg.contains(st(f, s).states@[i])
    } else if is_parallel(f, s) {
        forall|i: int| 0 <= i < st(f, s).states@.len() ==> spec_in_final(f, cfg, #[trigger] st(f, s).states@[i])
    } else {
        false
    }
}

#[via_fn]
proof fn spec_in_final_decreases(f: &Fsm, cfg: Seq<u32>, s: u32) {
    if !is_compound(f, s) && is_parallel(f, s) {
        assert forall|i: int| 0 <= i < st(f, s).states@.len() implies ht(f, #[trigger] st(f, s).states@[i]) < ht(f, s) && valid_id(f, st(f, s).states@[i]) && ht(f, st(f, s).states@[i]) >= 0 by {
            let c = st(f, s).states@[i];
            assert(parent_of(f, c) == s);
            lemma_ht(f, c);
        }
    }
}

// ---- enterStates ---------------------------------------------------------------------------------
/// the content ids enterStates collects for state s: onentry blocks, then the initial transition's content if s is
/// entered by default, then the default history content registered for s
pub open spec fn exe_spec(f: &Fsm, x: Ent, s: u32) -> Seq<u32> {
    st(f, s).onentry@ + (if x.d.contains(s) && st(f, s).initial > 0 {
        seq![tr(f, st(f, s).initial).content]
    } else {
        Seq::<u32>::empty()
    }) + (if x.h.contains_key(s) {
        seq![x.h[s]]
    } else {
        Seq::<u32>::empty()
    })
}

pub open spec fn nz_pred() -> spec_fn(u32) -> bool {
    |c: u32| c > 0
}

/// the oracle call made when a state is entered for the first time under late binding
/// (`before` = the states entered earlier in this microstep)
pub open spec fn late_init_call(f: &Fsm, before: Seq<u32>, s: u32) -> Seq<Call> {
    if is_late(f) && st(f, s).isFirstEntry && !before.contains(s) {
        seq![Call::Init(s, true)]
    } else {
        Seq::<Call>::empty()
    }
}

/// oracle calls made while entering the states of l in that order: per state the late-binding initialisation (before
/// any content of that state), then its onentry / initial / history-default content blocks
pub open spec fn entry_calls(f: &Fsm, x: Ent, l: Seq<u32>) -> Seq<Call>
    decreases l.len(),
{
    if l.len() == 0 {
        Seq::empty()
    } else {
        entry_calls(f, x, l.drop_last()) + late_init_call(f, l.drop_last(), l.last()) + execs(exe_spec(f, x, l.last()).filter(nz_pred()))
    }
}

pub open spec fn entry_sorted(f: &Fsm, l: Seq<u32>) -> bool {
    forall|i: int, j: int| 0 <= i < j < l.len() ==> st(f, #[trigger] l[i]).doc_id <= st(f, #[trigger] l[j]).doc_id
}

pub open spec fn is_late(f: &Fsm) -> bool {
    f.binding == BindingType::Late
}

/// some entered state is a final child of the document root
pub open spec fn root_final_in(f: &Fsm, l: Seq<u32>) -> bool {
    exists|i: int| 0 <= i < l.len() && st(f, #[trigger] l[i]).is_final && st(f, l[i]).parent == f.pseudo_root
}

pub open spec fn empty_ent() -> Ent {
    Ent { e: Seq::empty(), d: Seq::empty(), h: Map::empty() }
}

pub proof fn lemma_entry_sorted(f: &Fsm, l: Seq<u32>)
    requires
        forall|i: int, j: int| 0 <= i < j < l.len() ==> !(doc_order(f, #[trigger] l[i], #[trigger] l[j]) is Greater),
    ensures
        entry_sorted(f, l),
{
}

/// the few document facts the body of the enterStates loop needs (implied by entry_wf)
pub open spec fn enter_wf(f: &Fsm) -> bool {
    &&& forall|s: u32| valid_id(f, s) && st(f, s).initial != 0 ==> valid_tr(f, #[trigger] st(f, s).initial)
    &&& forall|s: u32| valid_id(f, s) && #[trigger] parent_of(f, s) == 0 ==> s == f.pseudo_root
    &&& valid_id(f, f.pseudo_root)
    &&& !st(f, f.pseudo_root).is_final
}

pub proof fn lemma_enter_wf(f: &Fsm, g: &GlobalData)
    requires
        entry_wf(f, g),
    ensures
        enter_wf(f),
        wf_tree(f),
{
}

pub open spec fn all_children_final(f: &Fsm, cfg: Seq<u32>, p: u32) -> bool {
    forall|i: int| 0 <= i < st(f, p).states@.len() ==> spec_in_final(f, cfg, #[trigger] st(f, p).states@[i])
}

pub open spec fn done_state_prefix() -> Seq<char> {
    "done.state."@
}

/// states marked for entry are valid, ordinary (non-history) states
pub open spec fn entered_ok(f: &Fsm, e: Seq<u32>) -> bool {
    all_valid(f, e) && forall|i: int| 0 <= i < e.len() ==> !is_history(f, #[trigger] e[i])
}

pub proof fn lemma_entered_ok_add(f: &Fsm, e: Seq<u32>, s: u32)
    requires
        entered_ok(f, e),
        valid_id(f, s),
        !is_history(f, s),
    ensures
        entered_ok(f, set_add(e, s)),
{
}

/// proper ancestors are never history pseudo-states
pub proof fn lemma_ancestors_nonhist(f: &Fsm, g: &GlobalData, s: u32, a: u32)
    requires
        entry_wf(f, g),
        valid_id(f, s),
    ensures
        forall|i: int| 0 <= i < ancestors_upto(f, s, a).len() ==> !is_history(f, #[trigger] ancestors_upto(f, s, a)[i]),
        forall|i: int| 0 <= i < proper_ancestors(f, s, a).len() ==> !is_history(f, #[trigger] proper_ancestors(f, s, a)[i]),
    decreases rk(f, s),
{
    let p = parent_of(f, s);
    if p != 0 && p != a {
        lemma_rank(f, s);
        lemma_ancestors_nonhist(f, g, p, a);
        let rest = ancestors_upto(f, p, a);
        assert forall|i: int| 0 <= i < ancestors_upto(f, s, a).len() implies !is_history(f, #[trigger] ancestors_upto(f, s, a)[i]) by {
            if i > 0 {
                assert(ancestors_upto(f, s, a)[i] == rest[i - 1]);
            }
        }
    }
}
