// The state tree as the W3C algorithm sees it, over the real `Fsm` / `State` structs.
// ids are index+1 into `states` (0 = "no state"); parent links form a tree (a ranking exists).

pub open spec fn valid_id(f: &Fsm, s: u32) -> bool {
    1 <= s && s <= f.states@.len()
}

pub open spec fn st(f: &Fsm, s: u32) -> State {
    f.states@[s as int - 1]
}

pub open spec fn parent_of(f: &Fsm, s: u32) -> u32 {
    st(f, s).parent
}

pub open spec fn rk_at(r: Seq<nat>, s: u32) -> nat {
    r[s as int - 1]
}

/// the rank of s exceeds the rank of its parent (a named predicate so that the quantifier in `has_rank` is only
/// instantiated on request: triggering on `rk_at` walks up the whole ancestor chain)
pub open spec fn rank_step(f: &Fsm, r: Seq<nat>, s: u32) -> bool {
    rk_at(r, parent_of(f, s)) < rk_at(r, s)
}

pub open spec fn has_rank(f: &Fsm, r: Seq<nat>) -> bool {
    r.len() == f.states@.len() && forall|s: u32| valid_id(f, s) && parent_of(f, s) != 0 ==> #[trigger] rank_step(f, r, s)
}

/// a state with a parent is listed among the parent's children (history pseudo-states are kept in `history` instead)
pub open spec fn child_linked(f: &Fsm, s: u32) -> bool {
    st(f, s).parent == 0 || st(f, st(f, s).parent).states@.contains(s) || st(f, s).history_type != HistoryType::None
}

/// structural well-formedness of the state tree ("conformant document" as a precondition)
pub open spec fn wf_tree(f: &Fsm) -> bool {
    &&& f.states@.len() < 0xFFFF_FFFF
    &&& forall|s: u32| valid_id(f, s) ==> #[trigger] st(f, s).id == s
    &&& forall|s: u32| valid_id(f, s) ==> ((#[trigger] st(f, s)).parent == 0 || valid_id(f, st(f, s).parent))
    &&& forall|s: u32, i: int|
        valid_id(f, s) && 0 <= i < st(f, s).states@.len() ==> valid_id(f, #[trigger] st(f, s).states@[i]) && parent_of(
            f,
            st(f, s).states@[i],
        ) == s
    &&& forall|s: u32| valid_id(f, s) ==> #[trigger] child_linked(f, s)
    &&& exists|r: Seq<nat>| has_rank(f, r)
}

pub open spec fn rank(f: &Fsm) -> Seq<nat> {
    choose|r: Seq<nat>| has_rank(f, r)
}

pub open spec fn rk(f: &Fsm, s: u32) -> nat {
    if valid_id(f, s) { rk_at(rank(f), s) } else { 0 }
}

/// W3C isDescendant(s1, s2): s1 is a proper descendant of s2
pub open spec fn is_desc(f: &Fsm, s1: u32, s2: u32) -> bool
    decreases rk(f, s1),
    when wf_tree(f)
    via is_desc_decreases
{
    if valid_id(f, s1) && parent_of(f, s1) != 0 {
        parent_of(f, s1) == s2 || is_desc(f, parent_of(f, s1), s2)
    } else {
        false
    }
}

#[via_fn]
proof fn is_desc_decreases(f: &Fsm, s1: u32, s2: u32) {
    if valid_id(f, s1) && parent_of(f, s1) != 0 {
        lemma_rank(f, s1);
    }
}

pub proof fn lemma_rank(f: &Fsm, s: u32)
    requires
        wf_tree(f),
        valid_id(f, s),
        parent_of(f, s) != 0,
    ensures
        rk(f, parent_of(f, s)) < rk(f, s),
        valid_id(f, parent_of(f, s)),
{
    assert(has_rank(f, rank(f)));
    assert(rank_step(f, rank(f), s));
}

/// W3C getProperAncestors(s1, s2): ancestors of s1 in ancestry order (parent first) up to but not including s2;
/// all ancestors when s2 is 0 or not an ancestor
pub open spec fn ancestors_upto(f: &Fsm, s1: u32, s2: u32) -> Seq<u32>
    decreases rk(f, s1),
    when wf_tree(f)
    via ancestors_upto_decreases
{
    if valid_id(f, s1) && parent_of(f, s1) != 0 && parent_of(f, s1) != s2 {
        seq![parent_of(f, s1)] + ancestors_upto(f, parent_of(f, s1), s2)
    } else {
        Seq::empty()
    }
}

#[via_fn]
proof fn ancestors_upto_decreases(f: &Fsm, s1: u32, s2: u32) {
    if valid_id(f, s1) && parent_of(f, s1) != 0 {
        lemma_rank(f, s1);
    }
}

pub open spec fn proper_ancestors(f: &Fsm, s1: u32, s2: u32) -> Seq<u32> {
    if is_desc(f, s2, s1) { Seq::empty() } else { ancestors_upto(f, s1, s2) }
}

pub open spec fn is_compound(f: &Fsm, s: u32) -> bool {
    s != 0 && !(st(f, s).is_final || st(f, s).is_parallel || st(f, s).states@.len() == 0)
}

pub open spec fn is_compound_or_root(f: &Fsm, s: u32) -> bool {
    s == f.pseudo_root || is_compound(f, s)
}

pub open spec fn is_history(f: &Fsm, s: u32) -> bool {
    st(f, s).history_type != HistoryType::None
}

pub open spec fn is_parallel(f: &Fsm, s: u32) -> bool {
    s > 0 && st(f, s).is_parallel
}

pub open spec fn is_atomic(f: &Fsm, s: u32) -> bool {
    st(f, s).states@.len() == 0
}

pub open spec fn doc_order(f: &Fsm, a: u32, b: u32) -> std::cmp::Ordering {
    if st(f, a).doc_id > st(f, b).doc_id {
        std::cmp::Ordering::Greater
    } else if st(f, a).doc_id == st(f, b).doc_id {
        std::cmp::Ordering::Equal
    } else {
        std::cmp::Ordering::Less
    }
}

/// W3C findLCCA(stateList): first compound-or-root proper ancestor of the head that has all other list members as descendants
pub open spec fn lcca_search(f: &Fsm, cands: Seq<u32>, others: Seq<u32>) -> u32
    decreases cands.len(),
{
    if cands.len() == 0 {
        0
    } else if is_compound_or_root(f, cands[0]) && (forall|i: int| 0 <= i < others.len() ==> is_desc(f, #[trigger] others[i], cands[0])) {
        cands[0]
    } else {
        lcca_search(f, cands.subrange(1, cands.len() as int), others)
    }
}

pub open spec fn find_lcca(f: &Fsm, l: Seq<u32>) -> u32 {
    lcca_search(f, proper_ancestors(f, l[0], 0), l.subrange(1, l.len() as int))
}

/// a proper descendant has a strictly larger rank than its ancestor (so nothing is its own descendant)
pub proof fn lemma_desc_rank(f: &Fsm, a: u32, b: u32)
    requires
        wf_tree(f),
        is_desc(f, a, b),
    ensures
        rk(f, b) < rk(f, a),
        valid_id(f, a),
        valid_id(f, b),
    decreases rk(f, a),
{
    lemma_rank(f, a);
    if parent_of(f, a) != b {
        lemma_desc_rank(f, parent_of(f, a), b);
    }
}

pub open spec fn all_desc(f: &Fsm, others: Seq<u32>, a: u32) -> bool {
    forall|i: int| 0 <= i < others.len() ==> is_desc(f, #[trigger] others[i], a)
}

/// first candidate that has all `others` as proper descendants, 0 if none
pub open spec fn first_common_ancestor(f: &Fsm, cands: Seq<u32>, others: Seq<u32>) -> u32
    decreases cands.len(),
{
    if cands.len() == 0 {
        0
    } else if all_desc(f, others, cands[0]) {
        cands[0]
    } else {
        first_common_ancestor(f, cands.subrange(1, cands.len() as int), others)
    }
}

/// W3C findLCCA(stateList)
pub open spec fn spec_find_lcca(f: &Fsm, l: Seq<u32>) -> u32 {
    first_common_ancestor(
        f,
        proper_ancestors(f, l[0], 0).filter(|s: u32| is_compound_or_root(f, s)),
        l.subrange(1, l.len() as int),
    )
}

pub proof fn lemma_mask_filter_pred(s: Seq<u32>, keep: Seq<bool>, p: spec_fn(u32) -> bool)
    requires
        keep.len() == s.len(),
        forall|i: int| 0 <= i < s.len() ==> keep[i] == p(s[i]),
    ensures
        mask_filter(s, keep) == s.filter(p),
    decreases s.len(),
{
    reveal(Seq::filter);
    if s.len() > 0 {
        lemma_mask_filter_pred(s.drop_last(), keep.drop_last(), p);
    }
}

/// skipping candidates that do not qualify does not change the search result
pub proof fn lemma_fca_skip(f: &Fsm, cands: Seq<u32>, others: Seq<u32>, k: int)
    requires
        0 <= k <= cands.len(),
        forall|j: int| 0 <= j < k ==> !all_desc(f, others, #[trigger] cands[j]),
    ensures
        first_common_ancestor(f, cands, others) == first_common_ancestor(f, cands.subrange(k, cands.len() as int), others),
    decreases k,
{
    if k > 0 {
        let rest = cands.subrange(1, cands.len() as int);
        assert forall|j: int| 0 <= j < k - 1 implies !all_desc(f, others, #[trigger] rest[j]) by {
            assert(rest[j] == cands[j + 1]);
        }
        lemma_fca_skip(f, rest, others, k - 1);
        assert(rest.subrange(k - 1, rest.len() as int) == cands.subrange(k, cands.len() as int));
    } else {
        assert(cands.subrange(0, cands.len() as int) == cands);
    }
}

pub proof fn lemma_filter_subset(s: Seq<u32>, p: spec_fn(u32) -> bool)
    ensures
        forall|x: u32| #[trigger] s.filter(p).contains(x) ==> s.contains(x) && p(x),
    decreases s.len(),
{
    reveal(Seq::filter);
    if s.len() > 0 {
        let d = s.drop_last();
        lemma_filter_subset(d, p);
        let f = s.filter(p);
        assert(f == if p(s.last()) { d.filter(p).push(s.last()) } else { d.filter(p) });
        assert forall|x: u32| f.contains(x) implies s.contains(x) && p(x) by {
            let k = choose|k: int| 0 <= k < f.len() && f[k] == x;
            if p(s.last()) && k == f.len() - 1 {
                assert(s[s.len() - 1] == x);
            } else {
                assert(d.filter(p)[k] == x);
                assert(d.filter(p).contains(x));
                assert(d.contains(x));
                let j = choose|j: int| 0 <= j < d.len() && d[j] == x;
                assert(s[j] == x);
            }
        }
    } else {
        assert(s.filter(p).len() == 0);
    }
}

/// nothing is its own proper descendant
pub proof fn lemma_not_self_desc(f: &Fsm, a: u32)
    requires
        wf_tree(f),
    ensures
        !is_desc(f, a, a),
{
    if is_desc(f, a, a) {
        lemma_desc_rank(f, a, a);
    }
}

pub proof fn lemma_ancestors_valid(f: &Fsm, s1: u32, s2: u32)
    requires
        wf_tree(f),
        valid_id(f, s1),
    ensures
        forall|i: int| 0 <= i < ancestors_upto(f, s1, s2).len() ==> valid_id(f, #[trigger] ancestors_upto(f, s1, s2)[i]),
        forall|i: int| 0 <= i < proper_ancestors(f, s1, s2).len() ==> valid_id(f, #[trigger] proper_ancestors(f, s1, s2)[i]),
    decreases rk(f, s1),
{
    if parent_of(f, s1) != 0 && parent_of(f, s1) != s2 {
        lemma_rank(f, s1);
        lemma_ancestors_valid(f, parent_of(f, s1), s2);
        let rest = ancestors_upto(f, parent_of(f, s1), s2);
        assert forall|i: int| 0 <= i < ancestors_upto(f, s1, s2).len() implies valid_id(f, #[trigger] ancestors_upto(f, s1, s2)[i]) by {
            if i > 0 {
                assert(ancestors_upto(f, s1, s2)[i] == rest[i - 1]);
            }
        }
    }
}

/// 0 ("no state") has no descendants
pub proof fn lemma_not_desc_of_zero(f: &Fsm, s: u32)
    requires
        wf_tree(f),
    ensures
        !is_desc(f, s, 0),
    decreases rk(f, s),
{
    if valid_id(f, s) && parent_of(f, s) != 0 {
        lemma_rank(f, s);
        lemma_not_desc_of_zero(f, parent_of(f, s));
    }
}

// ---- subtree height (termination measure of the entry-set recursion) ----------------------------
pub open spec fn max_rank_upto(r: Seq<nat>, k: int) -> nat
    decreases k,
{
    if k <= 0 {
        0
    } else if r[k - 1] > max_rank_upto(r, k - 1) {
        r[k - 1]
    } else {
        max_rank_upto(r, k - 1)
    }
}

pub open spec fn maxr(f: &Fsm) -> nat {
    max_rank_upto(rank(f), rank(f).len() as int)
}

/// height-like measure: larger for ancestors than for their descendants
pub open spec fn ht(f: &Fsm, s: u32) -> int {
    maxr(f) - rk(f, s)
}

pub proof fn lemma_max_rank_bound(r: Seq<nat>, k: int, i: int)
    requires
        0 <= i < k <= r.len(),
    ensures
        r[i] <= max_rank_upto(r, k),
    decreases k,
{
    if i < k - 1 {
        lemma_max_rank_bound(r, k - 1, i);
    }
}

pub proof fn lemma_ht(f: &Fsm, s: u32)
    requires
        wf_tree(f),
        valid_id(f, s),
    ensures
        ht(f, s) >= 0,
        parent_of(f, s) != 0 ==> ht(f, parent_of(f, s)) > ht(f, s),
{
    assert(has_rank(f, rank(f)));
    lemma_max_rank_bound(rank(f), rank(f).len() as int, s as int - 1);
    assert(rank(f)[s as int - 1] == rk_at(rank(f), s));
    if parent_of(f, s) != 0 {
        lemma_rank(f, s);
    }
}

pub proof fn lemma_desc_ht(f: &Fsm, a: u32, b: u32)
    requires
        wf_tree(f),
        is_desc(f, a, b),
    ensures
        ht(f, a) < ht(f, b),
        ht(f, a) >= 0,
{
    lemma_desc_rank(f, a, b);
    lemma_ht(f, a);
}
