// Views of the W3C pseudo-code collections: a List and an OrderedSet are both sequences (order matters for C02);
// an OrderedSet additionally never holds duplicates.

pub open spec fn set_add(s: Seq<u32>, e: u32) -> Seq<u32> {
    if s.contains(e) { s } else { s.push(e) }
}

/// add the elements of t one after the other (W3C: union / toSet)
pub open spec fn set_add_all(s: Seq<u32>, t: Seq<u32>) -> Seq<u32>
    decreases t.len(),
{
    if t.len() == 0 {
        s
    } else {
        set_add(set_add_all(s, t.drop_last()), t.last())
    }
}

pub open spec fn no_dup(s: Seq<u32>) -> bool {
    forall|i: int, j: int| 0 <= i < j < s.len() ==> s[i] != s[j]
}

/// s without every occurrence of e, order kept
pub open spec fn neq_pred(e: u32) -> spec_fn(u32) -> bool {
    |x: u32| x != e
}

pub open spec fn seq_without(s: Seq<u32>, e: u32) -> Seq<u32> {
    s.filter(neq_pred(e))
}

pub open spec fn intersects(a: Seq<u32>, b: Seq<u32>) -> bool {
    exists|i: int| 0 <= i < a.len() && b.contains(#[trigger] a[i])
}

pub proof fn lemma_set_add_no_dup(s: Seq<u32>, e: u32)
    requires
        no_dup(s),
    ensures
        no_dup(set_add(s, e)),
        forall|x: u32| set_add(s, e).contains(x) <==> (s.contains(x) || x == e),
{
    let r = set_add(s, e);
    if !s.contains(e) {
        assert forall|i: int, j: int| 0 <= i < j < r.len() implies r[i] != r[j] by {
            if j == s.len() {
                assert(s[i] == r[i]);
                assert(s.contains(s[i]));
            }
        }
        assert forall|x: u32| r.contains(x) implies (s.contains(x) || x == e) by {
            let k = choose|k: int| 0 <= k < r.len() && r[k] == x;
            if k < s.len() {
                assert(s[k] == x);
            }
        }
        assert forall|x: u32| (s.contains(x) || x == e) implies r.contains(x) by {
            if x == e {
                assert(r[s.len() as int] == e);
            } else {
                let k = choose|k: int| 0 <= k < s.len() && s[k] == x;
                assert(r[k] == x);
            }
        }
    }
}

pub proof fn lemma_mask_filter_is_filter(s: Seq<u32>, keep: Seq<bool>, e: u32)
    requires
        keep.len() == s.len(),
        forall|i: int| 0 <= i < s.len() ==> keep[i] == (s[i] != e),
    ensures
        mask_filter(s, keep) == seq_without(s, e),
    decreases s.len(),
{
    reveal(Seq::filter);
    if s.len() > 0 {
        lemma_mask_filter_is_filter(s.drop_last(), keep.drop_last(), e);
    }
}

/// for u32, `eq_spec` is equality, so the slice-contains contract is sequence membership
pub proof fn lemma_contains_u32(s: Seq<u32>, e: u32)
    ensures
        (exists|i: int| 0 <= i < s.len() && #[trigger] s[i].eq_spec(&e)) <==> s.contains(e),
{
    if exists|i: int| 0 <= i < s.len() && #[trigger] s[i].eq_spec(&e) {
        let i = choose|i: int| 0 <= i < s.len() && #[trigger] s[i].eq_spec(&e);
        assert(s[i] == e);
    }
    if s.contains(e) {
        let i = choose|i: int| 0 <= i < s.len() && s[i] == e;
        assert(s[i].eq_spec(&e));
    }
}

/// a sequence of references seen as the sequence of the values referred to
pub open spec fn deref_seq(s: Seq<&u32>) -> Seq<u32> {
    s.map_values(|r: &u32| *r)
}

/// history-value table seen as a map from history state id to the recorded sequence of state ids
pub open spec fn hvv(h: HashTable<u32, OrderedSet<u32>>) -> Map<u32, Seq<u32>> {
    Map::new(h.data@.dom(), |k: u32| h.data@[k].data@)
}
