// W3C selectTransitions / selectEventlessTransitions as a relation between the candidates, the guard answers recorded in
// the oracle log and the selected transitions.

pub open spec fn tr_le<'a>() -> spec_fn(&'a Transition, &'a Transition) -> bool {
    |a: &'a Transition, b: &'a Transition| a.doc_id <= b.doc_id
}

pub open spec fn doc_le(f: &Fsm) -> spec_fn(u32, u32) -> bool {
    |a: u32, b: u32| st(f, a).doc_id <= st(f, b).doc_id
}

pub open spec fn atomic_pred(f: &Fsm) -> spec_fn(u32) -> bool {
    |s: u32| is_atomic(f, s)
}

/// the active atomic states in document order
pub open spec fn atomic_states(f: &Fsm, g: &GlobalData) -> Seq<u32> {
    sorted_seq(g.configuration.data@.filter(atomic_pred(f)), doc_le(f))
}

/// the transitions of state s as the interpreter collects them (references, list order)
pub open spec fn trs_ref(f: &Fsm, s: u32) -> Seq<&Transition> {
    Seq::new(st(f, s).transitions.data@.len(), |i: int| &f.transitions@[st(f, s).transitions.data@[i]])
}

/// does transition t qualify for event name `ev` (None = eventless selection)?
pub open spec fn ev_match(t: &Transition, ev: Option<Seq<u8>>) -> bool {
    match ev {
        None => t.events@.len() == 0,
        Some(n) => t.events@.len() > 0 && (t.wildcard || any_desc_matches(t.events@, n)),
    }
}

pub open spec fn ev_pred<'a>(ev: Option<Seq<u8>>) -> spec_fn(&'a Transition) -> bool {
    |t: &'a Transition| ev_match(t, ev)
}

pub open spec fn tr_id_fn<'a>() -> spec_fn(&'a Transition) -> u32 {
    |t: &'a Transition| t.id
}

/// candidates contributed by state s: its transitions in document order that qualify for the event
pub open spec fn cands_of(f: &Fsm, s: u32, ev: Option<Seq<u8>>) -> Seq<u32> {
    sorted_seq(trs_ref(f, s), tr_le()).filter(ev_pred(ev)).map_values(tr_id_fn())
}

pub open spec fn chain_of(f: &Fsm, a: u32) -> Seq<u32> {
    seq![a] + proper_ancestors(f, a, 0)
}

pub open spec fn cands_k(f: &Fsm, chain: Seq<u32>, k: int, ev: Option<Seq<u8>>) -> Seq<u32>
    decreases k,
{
    if k <= 0 || k > chain.len() {
        Seq::empty()
    } else {
        cands_k(f, chain, k - 1, ev) + cands_of(f, chain[k - 1], ev)
    }
}

pub open spec fn cands(f: &Fsm, a: u32, ev: Option<Seq<u8>>) -> Seq<u32> {
    cands_k(f, chain_of(f, a), chain_of(f, a).len() as int, ev)
}

pub open spec fn guard_of(f: &Fsm, t: u32) -> Data {
    tr(f, t).cond
}

/// the first n candidates all had a guard that did not answer true
pub open spec fn failed_prefix(f: &Fsm, cs: Seq<u32>, n: int, ans: Seq<Option<bool>>) -> bool {
    &&& 0 <= n <= cs.len()
    &&& ans.len() == n
    &&& forall|i: int| 0 <= i < n ==> !data_is_empty(guard_of(f, #[trigger] cs[i])) && ans[i] != Some(true)
}

/// oracle calls made for those n candidates, in order
pub open spec fn guards(f: &Fsm, cs: Seq<u32>, n: int, ans: Seq<Option<bool>>) -> Seq<Call> {
    Seq::new(n as nat, |i: int| Call::Cond(guard_of(f, cs[i]), ans[i]))
}

/// "the first candidate (in order) whose guard is absent or answers true is selected; guards are evaluated in candidate
/// order and evaluation stops at the first one that holds"
pub open spec fn pick_rel(f: &Fsm, cs: Seq<u32>, en0: Seq<u32>, lg0: Seq<Call>, en1: Seq<u32>, lg1: Seq<Call>) -> bool {
    exists|n: int, ans: Seq<Option<bool>>| #[trigger]
        failed_prefix(f, cs, n, ans) && (if n == cs.len() {
            en1 == en0 && lg1 == lg0 + guards(f, cs, n, ans)
        } else if data_is_empty(guard_of(f, cs[n])) {
            en1 == set_add(en0, cs[n]) && lg1 == lg0 + guards(f, cs, n, ans)
        } else {
            en1 == set_add(en0, cs[n]) && lg1 == (lg0 + guards(f, cs, n, ans)).push(Call::Cond(guard_of(f, cs[n]), Some(true)))
        })
}

/// witness marker (trigger) for the intermediate selection state in `select_rel`
pub open spec fn sel_w(en1: Seq<u32>, lg1: Seq<Call>) -> bool {
    true
}

/// selection over the first k atomic states: (en, lg) = selected transitions and oracle log after them
pub open spec fn select_rel(f: &Fsm, atomics: Seq<u32>, k: int, ev: Option<Seq<u8>>, lg0: Seq<Call>, en: Seq<u32>, lg: Seq<Call>) -> bool
    decreases k,
{
    if k <= 0 || k > atomics.len() {
        en == Seq::<u32>::empty() && lg == lg0
    } else {
        exists|en1: Seq<u32>, lg1: Seq<Call>| #[trigger]
            sel_w(en1, lg1) && select_rel(f, atomics, k - 1, ev, lg0, en1, lg1) && pick_rel(f, cands(f, atomics[k - 1], ev), en1, lg1, en, lg)
    }
}

pub proof fn lemma_mask_filter_pred_all(s: Seq<u32>, p: spec_fn(u32) -> bool)
    ensures
        forall|keep: Seq<bool>| keep.len() == s.len() && (forall|i: int| 0 <= i < s.len() ==> #[trigger] keep[i] == p(s[i])) ==> #[trigger] mask_filter(s, keep) == s.filter(p),
{
    assert forall|keep: Seq<bool>| keep.len() == s.len() && (forall|i: int| 0 <= i < s.len() ==> #[trigger] keep[i] == p(s[i])) implies #[trigger] mask_filter(s, keep) == s.filter(p) by {
        lemma_mask_filter_pred(s, keep, p);
    }
}

/// members of the filtered, sorted atomic-state list are valid active states
pub proof fn lemma_atomics_valid(f: &Fsm, g: &GlobalData, l: Seq<u32>)
    requires
        wf_config(f, g),
        same_members(l, g.configuration.data@.filter(atomic_pred(f))),
    ensures
        all_valid(f, l),
{
    let cfg = g.configuration.data@;
    lemma_filter_subset(cfg, atomic_pred(f));
    lemma_same_members_contains(l, cfg.filter(atomic_pred(f)));
    lemma_members_valid(f, cfg.filter(atomic_pred(f)), cfg);
    lemma_members_valid(f, l, cfg.filter(atomic_pred(f)));
}

pub proof fn lemma_chain_valid(f: &Fsm, a: u32)
    requires
        wf_tree(f),
        valid_id(f, a),
    ensures
        all_valid(f, chain_of(f, a)),
{
    lemma_ancestors_valid(f, a, 0);
    let c = chain_of(f, a);
    assert forall|i: int| 0 <= i < c.len() implies valid_id(f, #[trigger] c[i]) by {
        if i > 0 {
            assert(c[i] == proper_ancestors(f, a, 0)[i - 1]);
        }
    }
}

pub proof fn lemma_multiset_contains<T>(a: Seq<T>, b: Seq<T>)
    requires
        a.to_multiset() == b.to_multiset(),
    ensures
        forall|x: T| a.contains(x) <==> b.contains(x),
{
    a.to_multiset_ensures();
    b.to_multiset_ensures();
    assert forall|x: T| a.contains(x) <==> b.contains(x) by {
        assert(a.contains(x) <==> a.to_multiset().count(x) > 0);
        assert(b.contains(x) <==> b.to_multiset().count(x) > 0);
    }
}

pub proof fn lemma_guards_push(f: &Fsm, cs: Seq<u32>, n: int, ans: Seq<Option<bool>>, a: Option<bool>)
    requires
        0 <= n < cs.len(),
        ans.len() == n,
    ensures
        guards(f, cs, n + 1, ans.push(a)) == guards(f, cs, n, ans).push(Call::Cond(guard_of(f, cs[n]), a)),
{
    assert(guards(f, cs, n + 1, ans.push(a)) =~= guards(f, cs, n, ans).push(Call::Cond(guard_of(f, cs[n]), a)));
}

pub proof fn lemma_set_add_valid_tr(f: &Fsm, s: Seq<u32>, t: u32)
    requires
        all_valid_tr(f, s),
        valid_tr(f, t),
    ensures
        all_valid_tr(f, set_add(s, t)),
{
}

pub proof fn lemma_select_step(f: &Fsm, atomics: Seq<u32>, k: int, ev: Option<Seq<u8>>, lg0: Seq<Call>, en1: Seq<u32>, lg1: Seq<Call>, en: Seq<u32>, lg: Seq<Call>)
    requires
        0 < k <= atomics.len(),
        select_rel(f, atomics, k - 1, ev, lg0, en1, lg1),
        pick_rel(f, cands(f, atomics[k - 1], ev), en1, lg1, en, lg),
    ensures
        select_rel(f, atomics, k, ev, lg0, en, lg),
{
    assert(sel_w(en1, lg1));
}

/// any list of references to the transitions of s (in list order) is `trs_ref(f, s)`
pub proof fn lemma_trs_ref_all(f: &Fsm, s: u32)
    ensures
        forall|l: Seq<&Transition>| l.len() == st(f, s).transitions.data@.len() && (forall|i: int| 0 <= i < l.len() ==> *(#[trigger] l[i]) == tr(f, st(f, s).transitions.data@[i]))
            ==> #[trigger] l.to_multiset() == trs_ref(f, s).to_multiset() && l == trs_ref(f, s),
{
    assert forall|l: Seq<&Transition>| l.len() == st(f, s).transitions.data@.len() && (forall|i: int| 0 <= i < l.len() ==> *(#[trigger] l[i]) == tr(f, st(f, s).transitions.data@[i]))
        implies #[trigger] l.to_multiset() == trs_ref(f, s).to_multiset() && l == trs_ref(f, s) by {
        assert(l =~= trs_ref(f, s));
    }
}
