// enterStates clears `isFirstEntry` of entered states; everything the specifications talk about is unchanged.

pub open spec fn state_same(a: State, b: State) -> bool {
    &&& a.id == b.id
    &&& a.doc_id == b.doc_id
    &&& a.name == b.name
    &&& a.initial == b.initial
    &&& a.states == b.states
    &&& a.is_parallel == b.is_parallel
    &&& a.is_final == b.is_final
    &&& a.history_type == b.history_type
    &&& a.onentry == b.onentry
    &&& a.onexit == b.onexit
    &&& a.transitions == b.transitions
    &&& a.invoke == b.invoke
    &&& a.history == b.history
    &&& a.parent == b.parent
    &&& a.donedata == b.donedata
}

/// f2 is f1 up to the isFirstEntry flags
pub open spec fn same_doc(f1: &Fsm, f2: &Fsm) -> bool {
    &&& f1.states@.len() == f2.states@.len()
    &&& forall|i: int| 0 <= i < f1.states@.len() ==> state_same(#[trigger] f1.states@[i], f2.states@[i])
    &&& f1.transitions == f2.transitions
    &&& f1.pseudo_root == f2.pseudo_root
    &&& f1.binding == f2.binding
    &&& f1.script == f2.script
    &&& f1.name == f2.name
    &&& f1.caller_invoke_id == f2.caller_invoke_id
    &&& f1.parent_session_id == f2.parent_session_id
    &&& f1.generate_id_count == f2.generate_id_count
}

pub proof fn lemma_same_doc_st(f1: &Fsm, f2: &Fsm)
    requires
        same_doc(f1, f2),
    ensures
        forall|s: u32| valid_id(f1, s) == valid_id(f2, s),
        forall|s: u32| valid_id(f1, s) ==> state_same(#[trigger] st(f1, s), st(f2, s)),
        forall|t: u32| #[trigger] tr(f1, t) == tr(f2, t),
        forall|t: u32| valid_tr(f1, t) == valid_tr(f2, t),
{
}

pub proof fn lemma_same_doc_wf_tree(f1: &Fsm, f2: &Fsm)
    requires
        same_doc(f1, f2),
        wf_tree(f1),
    ensures
        wf_tree(f2),
{
    lemma_same_doc_st(f1, f2);
    let r = rank(f1);
    assert(has_rank(f1, r));
    assert(has_rank(f2, r)) by {
        assert forall|s: u32| valid_id(f2, s) && parent_of(f2, s) != 0 implies #[trigger] rank_step(f2, r, s) by {
            assert(state_same(st(f1, s), st(f2, s)));
            assert(parent_of(f1, s) == parent_of(f2, s));
            assert(rank_step(f1, r, s));
        }
    }
    assert forall|s: u32| valid_id(f2, s) implies #[trigger] child_linked(f2, s) by {
        assert(child_linked(f1, s));
        assert(state_same(st(f1, s), st(f2, s)));
        if st(f1, s).parent != 0 {
            assert(state_same(st(f1, st(f1, s).parent), st(f2, st(f1, s).parent)));
        }
    }
    assert forall|s: u32, i: int| valid_id(f2, s) && 0 <= i < st(f2, s).states@.len() implies valid_id(f2, #[trigger] st(f2, s).states@[i]) && parent_of(f2, st(f2, s).states@[i]) == s by {
        assert(state_same(st(f1, s), st(f2, s)));
        let c = st(f1, s).states@[i];
        assert(valid_id(f1, c) && parent_of(f1, c) == s);
        assert(state_same(st(f1, c), st(f2, c)));
    }
    assert forall|s: u32| valid_id(f2, s) implies #[trigger] st(f2, s).id == s by {
        assert(state_same(st(f1, s), st(f2, s)));
    }
    assert forall|s: u32| valid_id(f2, s) implies ((#[trigger] st(f2, s)).parent == 0 || valid_id(f2, st(f2, s).parent)) by {
        assert(state_same(st(f1, s), st(f2, s)));
    }
}

/// descendant relation is the same in both documents
pub proof fn lemma_same_doc_is_desc(f1: &Fsm, f2: &Fsm, a: u32, b: u32)
    requires
        same_doc(f1, f2),
        wf_tree(f1),
        wf_tree(f2),
    ensures
        is_desc(f1, a, b) == is_desc(f2, a, b),
    decreases rk(f1, a),
{
    lemma_same_doc_st(f1, f2);
    if valid_id(f1, a) && parent_of(f1, a) != 0 {
        assert(state_same(st(f1, a), st(f2, a)));
        lemma_rank(f1, a);
        if parent_of(f1, a) != b {
            lemma_same_doc_is_desc(f1, f2, parent_of(f1, a), b);
        }
    }
}
