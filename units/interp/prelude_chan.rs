// TRUSTED stand-ins (A4, C13 not applicable): the std::sync::mpsc channel ends used for the external event queue.
// `Arc<Mutex<Receiver<T>>>` and `Sender<T>` are replaced by opaque types; nothing is claimed about them except
// that receiving/sending does not touch interpreter state.
#[verifier::external_body]
#[verifier::reject_recursive_types(T)]
pub struct VReceiver<T> {
    _p: std::marker::PhantomData<T>,
}

#[verifier::external_body]
#[verifier::reject_recursive_types(T)]
pub struct VSender<T> {
    _p: std::marker::PhantomData<T>,
}

impl<T> VReceiver<T> {
    /// Arc::clone of the receiver handle
    #[verifier::external_body]
    pub fn clone(&self) -> (r: VReceiver<T>) {
        unimplemented!()
    }

    /// `lock().unwrap().recv().unwrap()`: blocks until an event arrives (the queue keeps its own Sender, so the
    /// channel is never disconnected)
    #[verifier::external_body]
    pub fn recv_blocking(&self) -> (r: T) {
        unimplemented!()
    }
}

impl<T> VSender<T> {
    #[verifier::external_body]
    pub fn send(&self, t: T) -> (r: Result<(), ()>) {
        unimplemented!()
    }
}
