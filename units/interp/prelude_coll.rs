// TRUSTED (A4): std collection functions without vstd specification.

/// <[T]>::contains: some element equals x
pub assume_specification<T: PartialEq> [<[T]>::contains] (s: &[T], x: &T) -> (r: bool)
    ensures
        r == exists|i: int| 0 <= i < s@.len() && #[trigger] s@[i].eq_spec(x);

/// elements of s whose mask bit is set, in order
pub open spec fn mask_filter<T>(s: Seq<T>, keep: Seq<bool>) -> Seq<T>
    decreases s.len(),
{
    if s.len() == 0 || keep.len() != s.len() {
        Seq::empty()
    } else {
        let r = mask_filter(s.drop_last(), keep.drop_last());
        if keep.last() {
            r.push(s.last())
        } else {
            r
        }
    }
}

/// Vec::retain keeps exactly the elements for which the predicate answered true, in order
pub assume_specification<T, A: Allocator, F: FnMut(&T) -> bool> [Vec::<T, A>::retain] (v: &mut Vec<T, A>, f: F)
    requires
        forall|i: int| 0 <= i < old(v)@.len() ==> call_requires(f, (&#[trigger] old(v)@[i],)),
    ensures
        exists|keep: Seq<bool>|
            keep.len() == old(v)@.len() && (forall|i: int|
                0 <= i < keep.len() ==> call_ensures(f, (&old(v)@[i],), #[trigger] keep[i])) && final(v)@ == mask_filter(
                old(v)@,
                keep,
            );

/// some outcome of comparing a with b is not `Greater`
pub open spec fn cmp_not_greater<T, F: FnMut(&T, &T) -> std::cmp::Ordering>(f: F, a: T, b: T) -> bool {
    exists|o: std::cmp::Ordering| call_ensures(f, (&a, &b), o) && !(o is Greater)
}

/// the result of sorting s by the total preorder le: std's (stable) sort is a function of the input sequence and the order
pub uninterp spec fn sorted_seq<T>(s: Seq<T>, le: spec_fn(T, T) -> bool) -> Seq<T>;

/// the comparator f decides "not Greater" exactly as le does
pub open spec fn cmp_matches<T, F: FnMut(&T, &T) -> std::cmp::Ordering>(f: F, le: spec_fn(T, T) -> bool) -> bool {
    forall|a: T, b: T, o: std::cmp::Ordering| call_ensures(f, (&a, &b), o) ==> (!(o is Greater)) == le(a, b)
}

/// <[T]>::sort_by: a permutation of the input in which no earlier element compares Greater than a later one
/// (stability is not specified: the comparators used are total orders over distinct document ids)
pub assume_specification<T, F: FnMut(&T, &T) -> std::cmp::Ordering> [<[T]>::sort_by] (v: &mut [T], f: F)
    requires
        forall|i: int, j: int| 0 <= i < old(v)@.len() && 0 <= j < old(v)@.len() ==> call_requires(f, (&#[trigger] old(v)@[i], &#[trigger] old(v)@[j])),
    ensures
        final(v)@.to_multiset() == old(v)@.to_multiset(),
        final(v)@.len() == old(v)@.len(),
        forall|i: int, j: int| 0 <= i < j < final(v)@.len() ==> cmp_not_greater(f, #[trigger] final(v)@[i], #[trigger] final(v)@[j]),
        forall|le: spec_fn(T, T) -> bool| cmp_matches(f, le) ==> final(v)@ == #[trigger] sorted_seq(old(v)@, le);

/// <[u32]>::to_vec copies the elements (stated for Copy element types via the view equality)
pub assume_specification<T: Clone> [<[T]>::to_vec] (s: &[T]) -> (r: Vec<T>)
    ensures
        r@.len() == s@.len(),
        forall|i: int| 0 <= i < s@.len() ==> cloned(#[trigger] s@[i], r@[i]);

pub assume_specification<T, A: Allocator> [std::collections::VecDeque::<T, A>::is_empty] (q: &std::collections::VecDeque<T, A>) -> (r: bool)
    ensures
        r == (q@.len() == 0);


pub mod trusted_axioms {
    use super::*;

    /// A4: a real `str` never holds more than isize::MAX bytes
    #[verifier::external_body]
    pub broadcast proof fn axiom_str_len_fits(s: &str)
        ensures
            #[trigger] s.spec_bytes().len() <= usize::MAX,
    {
    }

    /// A4: `String` hashes and compares consistently (vstd ships this axiom for the integer types only)
    #[verifier::external_body]
    pub broadcast proof fn axiom_string_key_model()
        ensures
            #[trigger] vstd::std_specs::hash::obeys_key_model::<String>(),
    {
    }
}
