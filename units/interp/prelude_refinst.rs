// TRUSTED: the instance at T = &u32 of three generic collection functions (used only for `transitionsToRemove` in
// removeConflictingTransitions).  Their bodies are the generic bodies whose instance at T = u32 is verified in this
// unit (coll.vc); a textual instantiation at a reference type is not faithful (`e.clone()` would resolve to
// u32::clone), so the contracts are assumed here, with the same shape as the verified ones.
impl<'a> OrderedSet<&'a u32> {
    #[verifier::external_body]
    pub fn new() -> (r: OrderedSet<&'a u32>)
        ensures
            r.data@.len() == 0,
    {
        OrderedSet { data: Vec::new() }
    }

    #[verifier::external_body]
    pub fn add(&mut self, e: &'a u32)
        ensures
            deref_seq(final(self).data@) == set_add(deref_seq(old(self).data@), *e),
    {
        unimplemented!()
    }

    #[verifier::external_body]
    pub fn toList(&self) -> (r: List<&'a u32>)
        ensures
            r.data@ == self.data@,
    {
        unimplemented!()
    }
}

// `#[derive(Clone)]` expansions (Verus gives derived Clone impls no specification): field-wise clone, written out.
impl Clone for OrderedSet<u32> {
    fn clone(&self) -> (r: Self)
        ensures
            r.data@ == self.data@,
    {
        OrderedSet { data: self.data.clone() }
    }
}

impl Clone for List<u32> {
    fn clone(&self) -> (r: Self)
        ensures
            r.data@ == self.data@,
    {
        List { data: self.data.clone() }
    }
}

impl Clone for Invoke {
    #[verifier::external_body]
    fn clone(&self) -> (r: Self)
        ensures
            r == *self,
    {
        unimplemented!()
    }
}

// instance at T = &State of three generic List functions (used for `configStateList` in exitStates); assumed with the
// same shape as the verified u32 instance (see the note above on instances at reference types).
impl<'a> List<&'a State> {
    #[verifier::external_body]
    pub fn new() -> (r: List<&'a State>)
        ensures
            r.data@.len() == 0,
    {
        unimplemented!()
    }

    #[verifier::external_body]
    pub fn push(&mut self, t: &'a State)
        ensures
            final(self).data@ == old(self).data@.push(t),
    {
        unimplemented!()
    }

    #[verifier::external_body]
    pub fn filter_by<F: Fn(&&'a State) -> bool>(&self, f: &F) -> (r: List<&'a State>)
        requires
            forall|i: int| 0 <= i < self.data@.len() ==> call_requires(*f, (&#[trigger] self.data@[i],)),
        ensures
            exists|keep: Seq<bool>|
                keep.len() == self.data@.len() && (forall|i: int|
                    0 <= i < keep.len() ==> call_ensures(*f, (&self.data@[i],), #[trigger] keep[i])) && r.data@ == mask_filter(
                    self.data@,
                    keep,
                ),
    {
        unimplemented!()
    }
}

// instance at T = &Transition (used for the per-state transition list in selectEventlessTransitions); assumed with
// the same shape as the verified u32 instance
impl<'a> List<&'a Transition> {
    #[verifier::external_body]
    pub fn new() -> (r: List<&'a Transition>)
        ensures
            r.data@.len() == 0,
    {
        unimplemented!()
    }

    #[verifier::external_body]
    pub fn push(&mut self, t: &'a Transition)
        ensures
            final(self).data@ == old(self).data@.push(t),
    {
        unimplemented!()
    }

    #[verifier::external_body]
    pub fn sort<F: Fn(&&'a Transition, &&'a Transition) -> std::cmp::Ordering>(&self, compare: &F) -> (r: List<&'a Transition>)
        requires
            forall|i: int, j: int| 0 <= i < self.data@.len() && 0 <= j < self.data@.len() ==> call_requires(*compare, (&#[trigger] self.data@[i], &#[trigger] self.data@[j])),
        ensures
            r.data@.to_multiset() == self.data@.to_multiset(),
            r.data@.len() == self.data@.len(),
            forall|le: spec_fn(&'a Transition, &'a Transition) -> bool| cmp_matches(*compare, le) ==> r.data@ == #[trigger] sorted_seq(self.data@, le),
    {
        unimplemented!()
    }
}

impl Clone for Event {
    #[verifier::external_body]
    fn clone(&self) -> (r: Self)
        ensures
            r == *self,
    {
        unimplemented!()
    }
}

impl Clone for DoneData {
    #[verifier::external_body]
    fn clone(&self) -> (r: Self)
        ensures
            r == *self,
    {
        unimplemented!()
    }
}

// instance at T = Invoke of List::sort (invokes of a state in document order); assumed, same shape as the u32 instance
impl List<Invoke> {
    #[verifier::external_body]
    pub fn sort<F: Fn(&Invoke, &Invoke) -> std::cmp::Ordering>(&self, compare: &F) -> (r: List<Invoke>)
        requires
            forall|i: int, j: int| 0 <= i < self.data@.len() && 0 <= j < self.data@.len() ==> call_requires(*compare, (&#[trigger] self.data@[i], &#[trigger] self.data@[j])),
        ensures
            r.data@.to_multiset() == self.data@.to_multiset(),
            r.data@.len() == self.data@.len(),
            forall|le: spec_fn(Invoke, Invoke) -> bool| cmp_matches(*compare, le) ==> r.data@ == #[trigger] sorted_seq(self.data@, le),
    {
        unimplemented!()
    }
}
