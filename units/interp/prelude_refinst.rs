// TRUSTED: the instance at T = &u32 of three generic collection functions (used only for `transitionsToRemove` in
// removeConflictingTransitions).  Their bodies are the generic bodies whose instance at T = u32 is verified in this
// unit (coll.vc); a textual instantiation at a reference type is not faithful (`e.clone()` would resolve to
// u32::clone), so the contracts are assumed here, with the same shape as the verified ones.
impl<'a> OrderedSet<&'a u32> {
    #[verifier::external_body]
    pub fn new() -> (r: OrderedSet<&'a u32>)
        ensures
            r.data@.len() == 0,
    {
        OrderedSet { data: Vec::new() }
    }

    #[verifier::external_body]
    pub fn add(&mut self, e: &'a u32)
        ensures
            deref_seq(final(self).data@) == set_add(deref_seq(old(self).data@), *e),
    {
        unimplemented!()
    }

    #[verifier::external_body]
    pub fn toList(&self) -> (r: List<&'a u32>)
        ensures
            r.data@ == self.data@,
    {
        unimplemented!()
    }
}
