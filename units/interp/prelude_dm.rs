// TRUSTED stand-in (A1, A3, A8): the data model as the interpreter sees it.
// `gd()` models `datamodel.global().lock().unwrap()`: exclusive access to the session's GlobalData.
// `log()` is a ghost record of the executable-content blocks handed to the data model, in order.

/// the data-model value type: opaque in this unit (values are only passed through)
#[verifier::external_body]
pub struct Data {
    _p: (),
}

/// what executable content / the I/O processors may NOT change (A3, A8): the interpreter's own bookkeeping
pub open spec fn frame_core(g0: GlobalData, g1: GlobalData) -> bool {
    &&& g1.configuration == g0.configuration
    &&& g1.statesToInvoke == g0.statesToInvoke
    &&& g1.historyValue == g0.historyValue
    &&& g1.running == g0.running
    &&& g1.caller_invoke_id == g0.caller_invoke_id
    &&& g1.parent_session_id == g0.parent_session_id
    &&& g1.session_id == g0.session_id
    &&& g1.final_configuration == g0.final_configuration
    &&& g0.internalQueue.data@.is_prefix_of(g1.internalQueue.data@)
}

/// one call into the data-model oracle, as recorded in the ghost log
pub ghost enum Call {
    /// executeContent(block id)
    Exec(u32),
    /// initializeDataModel(state, set_data)
    Init(u32, bool),
    /// execute_condition(script) with its answer (None = evaluation error)
    Cond(Data, Option<bool>),
    /// send(processor type, event name, event invoke id) through an event I/O processor
    Send(Seq<char>, Seq<char>, Option<Seq<char>>),
}

pub open spec fn opt_str(o: Option<String>) -> Option<Seq<char>> {
    match o {
        None => None,
        Some(s) => Some(s@),
    }
}

pub trait Datamodel {
    /// ghost view of the session's global data
    spec fn gview(&self) -> GlobalData;

    /// ghost: the oracle calls made so far (executable-content blocks run, data-model initialisations), in order
    spec fn log(&self) -> Seq<Call>;

    fn gd(&mut self) -> (r: &mut GlobalData)
        ensures
            *r == old(self).gview(),
            final(self).gview() == *final(r),
            final(self).log() == old(self).log(),
            final(self).sysvars() == old(self).sysvars();

    /// gives the <data> elements of a state their values (oracle): touches the data store only
    fn initializeDataModel(&mut self, fsm: &mut Fsm, state: StateId, set_data: bool)
        ensures
            *final(fsm) == *old(fsm),
            final(self).log() == old(self).log().push(Call::Init(state, set_data)),
            frame_core(old(self).gview(), final(self).gview()),
            final(self).gview().child_sessions == old(self).gview().child_sessions;

    /// start-up calls of interpret() (oracle): they touch the data store only
    fn clear(&mut self)
        ensures
            final(self).log() == old(self).log(),
            final(self).gview() == old(self).gview();

    /// the names bound as read-only system variables so far (ghost); every other method leaves it unspecified, only
    /// the start-up sequence of interpret() is tracked through it
    spec fn sysvars(&self) -> Set<Seq<char>>;

    /// binds `name` read-only (RFsmExpressionDatamodel::initialize_read_only_arc is verified in unit eventvar)
    fn initialize_read_only(&mut self, name: &str, value: Data)
        ensures
            final(self).log() == old(self).log(),
            final(self).gview() == old(self).gview(),
            final(self).sysvars() == old(self).sysvars().insert(name@);

    /// registers In() etc.; takes `&mut Fsm` but only reads the states (InAction::new, verified in unit dm)
    fn add_functions(&mut self, fsm: &mut Fsm)
        ensures
            *final(fsm) == *old(fsm),
            final(self).log() == old(self).log(),
            final(self).gview() == old(self).gview(),
            final(self).sysvars() == old(self).sysvars();

    /// publishes `_ioprocessors` (read-only, built from the registered processors)
    fn set_ioprocessors(&mut self)
        ensures
            final(self).log() == old(self).log(),
            final(self).gview() == old(self).gview(),
            final(self).sysvars() == old(self).sysvars().insert("_ioprocessors"@);

    /// evaluates <param> elements into name/value pairs (oracle); errors are raised as events
    fn evaluate_params(&mut self, params: &Option<Vec<Parameter>>, values: &mut Vec<ParamPair>)
        ensures
            final(self).log() == old(self).log(),
            frame_core(old(self).gview(), final(self).gview()),
            final(self).gview().child_sessions == old(self).gview().child_sessions;

    /// evaluates a guard (oracle); the answer is recorded in the ghost log
    fn execute_condition(&mut self, script: &Data) -> (r: Result<bool, String>)
        ensures
            final(self).log() == old(self).log().push(Call::Cond(*script, match r { Ok(b) => Some(b), Err(_) => None })),
            frame_core(old(self).gview(), final(self).gview()),
            final(self).gview().child_sessions == old(self).gview().child_sessions;

    /// places error.execution on the internal queue (default method of the real trait)
    fn internal_error_execution(&mut self)
        ensures
            final(self).log() == old(self).log(),
            frame_core(old(self).gview(), final(self).gview()),
            final(self).gview().child_sessions == old(self).gview().child_sessions,
            final(self).gview().internalQueue.data@.len() == old(self).gview().internalQueue.data@.len() + 1,
            final(self).gview().internalQueue.data@.last().name@ == "error.execution"@;

    /// hands an event to an event I/O processor (oracle): may raise error events, touches nothing else
    fn send(&mut self, ioc_processor: &str, target: &Data, event: Event) -> (r: bool)
        ensures
            final(self).log() == old(self).log(),
            frame_core(old(self).gview(), final(self).gview()),
            final(self).gview().child_sessions == old(self).gview().child_sessions;

    /// publishes the current event as `_event` (oracle): touches the data store only
    fn set_event(&mut self, event: &Event)
        ensures
            final(self).log() == old(self).log(),
            final(self).gview() == old(self).gview();

    /// read-only view of the session's global data (models `global_s().lock().unwrap()`)
    fn gs(&self) -> (r: &GlobalData)
        ensures
            *r == self.gview();

    /// runs one block of executable content (oracle): may raise events and change the data store only
    fn executeContent(&mut self, fsm: &Fsm, contentId: ExecutableContentId) -> (r: bool)
        ensures
            final(self).log() == old(self).log().push(Call::Exec(contentId)),
            frame_core(old(self).gview(), final(self).gview()),
            final(self).gview().child_sessions == old(self).gview().child_sessions;
}

/// R19: the expression `datamodel.evaluate_content(c).map(|data| data.lock().unwrap().clone())` (Option::map over a
/// closure that locks a DataArc) is routed through this wrapper whose real body is that very expression.
/// Assumed (A8): evaluating <content> touches the data store and may raise events, nothing else.
#[verifier::external_body]
pub fn verif_evaluate_content_value(datamodel: &mut dyn Datamodel, content: &Option<CommonContent>) -> (r: Option<Data>)
    ensures
        final(datamodel).log() == old(datamodel).log(),
        frame_core(old(datamodel).gview(), final(datamodel).gview()),
        final(datamodel).gview().child_sessions == old(datamodel).gview().child_sessions,
{
    unimplemented!()
}

/// R4b: `format!("{}{}", prefix, id)` in Event::new -> concatenation (the event name matters for the contracts)
#[verifier::external_body]
pub fn verif_concat(a: &str, b: &str) -> (r: String)
    ensures
        r@ == a@ + b@,
{
    unimplemented!()
}

/// whether a Data value is "empty" (no expression): uninterpreted
pub uninterp spec fn data_is_empty(d: Data) -> bool;

impl Data {
    #[verifier::external_body]
    pub fn is_empty(&self) -> (r: bool)
        ensures
            r == data_is_empty(*self),
    {
        unimplemented!()
    }
}

impl Clone for Data {
    #[verifier::external_body]
    fn clone(&self) -> (r: Self)
        ensures
            r == *self,
    {
        unimplemented!()
    }
}

/// R19: `name.starts_with(e)` (generic over the unstable `Pattern` trait) routed through a monomorphic wrapper
#[verifier::external_body]
pub fn verif_str_starts_with(s: &str, p: &String) -> (r: bool)
    ensures
        r == vstd::utf8::encode_utf8(p@).is_prefix_of(s.spec_bytes()),
{
    s.starts_with(p)
}

/// String::len is the byte length
pub assume_specification [std::string::String::len] (s: &std::string::String) -> (r: usize)
    ensures
        r == vstd::utf8::encode_utf8(s@).len();

impl Data {
    /// stand-in for the enum constructor `Data::Integer(..)` (Data is opaque here)
    #[allow(non_snake_case)]
    #[verifier::external_body]
    pub fn Integer(v: i64) -> (r: Data) {
        unimplemented!()
    }
}

impl Data {
    /// stand-in for the enum constructor `Data::String(..)` (Data is opaque here)
    #[allow(non_snake_case)]
    #[verifier::external_body]
    pub fn String(s: String) -> (r: Data) {
        unimplemented!()
    }
}

/// R19: `s.starts_with(<&str>)` routed through a monomorphic wrapper (byte-prefix test)
#[verifier::external_body]
pub fn verif_starts_with_str(s: &str, p: &str) -> (r: bool)
    ensures
        r == p.spec_bytes().is_prefix_of(s.spec_bytes()),
{
    s.starts_with(p)
}

/// `String == str` compares the character sequences
pub assume_specification [<String as PartialEq<str>>::eq] (a: &String, b: &str) -> (r: bool)
    ensures
        r == (a@ == b@);
