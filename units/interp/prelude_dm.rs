// TRUSTED stand-in (A1, A3, A8): the data model as the interpreter sees it.
// `gd()` models `datamodel.global().lock().unwrap()`: exclusive access to the session's GlobalData.
// `log()` is a ghost record of the executable-content blocks handed to the data model, in order.

/// the data-model value type: opaque in this unit (values are only passed through)
#[verifier::external_body]
pub struct Data {
    _p: (),
}

/// what executable content / the I/O processors may NOT change (A3, A8): the interpreter's own bookkeeping
pub open spec fn frame_core(g0: GlobalData, g1: GlobalData) -> bool {
    &&& g1.configuration == g0.configuration
    &&& g1.statesToInvoke == g0.statesToInvoke
    &&& g1.historyValue == g0.historyValue
    &&& g1.running == g0.running
    &&& g1.caller_invoke_id == g0.caller_invoke_id
    &&& g1.parent_session_id == g0.parent_session_id
    &&& g1.session_id == g0.session_id
    &&& g1.final_configuration == g0.final_configuration
    &&& g0.internalQueue.data@.is_prefix_of(g1.internalQueue.data@)
}

pub trait Datamodel {
    /// ghost view of the session's global data
    spec fn gview(&self) -> GlobalData;

    /// ghost: ids of the executable-content blocks executed so far
    spec fn log(&self) -> Seq<u32>;

    fn gd(&mut self) -> (r: &mut GlobalData)
        ensures
            *r == old(self).gview(),
            final(self).gview() == *final(r),
            final(self).log() == old(self).log();

    /// runs one block of executable content (oracle): may raise events and change the data store only
    fn executeContent(&mut self, fsm: &Fsm, contentId: ExecutableContentId) -> (r: bool)
        ensures
            final(self).log() == old(self).log().push(contentId),
            frame_core(old(self).gview(), final(self).gview()),
            final(self).gview().child_sessions == old(self).gview().child_sessions;
}
