// TRUSTED stand-in (A1, A8): the data model as the interpreter sees it.  `gd()` models
// `datamodel.global().lock().unwrap()`: exclusive access to the session's GlobalData.
pub trait Datamodel {
    /// ghost view of the session's global data
    spec fn gview(&self) -> GlobalData;

    fn gd(&mut self) -> (r: &mut GlobalData)
        ensures
            *r == old(self).gview(),
            final(self).gview() == *final(r);
}
