// TRUSTED stand-ins around the callback a delayed <send> hands to the timer (the `move ||` closure of
// SendParameters::execute, lifted to a function with its captured variables as parameters).  The callback runs on the
// timer thread; the session's data and the I/O processor are reached through their mutexes, seen here as the values
// under the locks (blocking/poisoning: C17, not modelled).  WHEN the timer calls it, and that it calls it at most once,
// is the timer crate's contract and stays bounded (replay tests).

pub struct Event {
    pub name: String,
    pub sendid: Option<String>,
}

impl Clone for Event {
    #[verifier::external_body]
    fn clone(&self) -> (r: Self)
        ensures
            r == *self,
    {
        unimplemented!()
    }
}

/// timer guard of a scheduled callback
#[verifier::external_body]
pub struct Guard {
    _p: (),
}

pub struct GlobalData {
    /// send id -> timer guard of the not yet delivered delayed sends
    pub delayed_send: HashMap<String, Guard>,
}

/// `Arc<Mutex<GlobalData>>` of the sending session
#[verifier::external_body]
pub struct GlobalDataArc {
    _p: (),
}

/// the session data under the lock, threaded through the callback as ghost state of the handle
pub struct GlobalLock<'a> {
    pub g: &'a mut GlobalData,
}

impl GlobalDataArc {
    /// the registrations of not yet delivered delayed sends of the session (keys only)
    pub uninterp spec fn pending(&self) -> Set<String>;

    /// R19 `global_clone.lock().unwrap().delayed_send.remove(sid)`: the registration under `sid` is removed, nothing else
    #[verifier::external_body]
    pub fn remove_delayed(&mut self, sid: &String)
        ensures
            final(self).pending() == old(self).pending().remove(*sid),
            final(self).sent() == old(self).sent(),
    {
        unimplemented!()
    }

    /// what I/O processors were asked to send on behalf of this session, in order (ghost)
    pub uninterp spec fn sent(&self) -> Seq<(Seq<char>, Seq<char>, Event)>;
}

/// handle of an event I/O processor (`Arc<Mutex<Box<dyn EventIOProcessor>>>`)
#[verifier::external_body]
pub struct IopHandle {
    _p: (),
}

impl IopHandle {
    pub uninterp spec fn type_name(&self) -> Seq<char>;

    /// R19 `iopc.lock().unwrap().send(&global_clone, target, event)`: one send request to this processor
    #[verifier::external_body]
    pub fn send_locked(&self, global: &mut GlobalDataArc, target: &str, event: Event) -> (r: bool)
        ensures
            final(global).sent() == old(global).sent().push((self.type_name(), target@, event)),
            final(global).pending() == old(global).pending(),
    {
        unimplemented!()
    }
}

pub mod trusted_axioms {
    use super::*;

    #[verifier::external_body]
    pub broadcast proof fn axiom_string_key_model()
        ensures
            #[trigger] vstd::std_specs::hash::obeys_key_model::<String>(),
    {
    }
}
