/// R4: `format!(..)` is replaced by this stand-in: an unconstrained String (the text is only logged,
/// or its content is irrelevant for the contracts that mention it).
#[verifier::external_body]
pub fn verif_format() -> (r: String) {
    String::new()
}
