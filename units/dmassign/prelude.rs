// TRUSTED stand-ins around RFsmExpressionDatamodel::assign / assign_internal.  The session's GlobalData is seen through
// two ghost logs: the number of error.execution events placed on the internal queue, and the expressions executed
// (which kind of assignment node, with which "may create" flag, whether it succeeded).

pub type SourceId = usize;

#[verifier::external_body]
pub struct DataArc {
    _p: (),
}

pub type ExpressionResult = Result<DataArc, String>;

pub enum NodeKind {
    /// `=`: the target must be a declared, writable location
    Assign,
    /// `?=`: the target is created if it does not exist
    AssignUndefined,
    Other,
}

pub struct ExecRec {
    pub kind: NodeKind,
    pub may_create: bool,
    pub ok: bool,
}

#[verifier::external_body]
pub struct GlobalData {
    _p: (),
}

impl GlobalData {
    /// error.execution events placed on the internal queue so far
    pub uninterp spec fn errors(&self) -> nat;

    /// expressions executed on this session's data so far
    pub uninterp spec fn executed(&self) -> Seq<ExecRec>;
}

pub trait Expression {
    spec fn kind(&self) -> NodeKind;

    fn execute(&self, context: &mut GlobalData, allow_undefined: bool) -> (r: ExpressionResult)
        ensures
            final(context).errors() == old(context).errors(),
            final(context).executed() == old(context).executed().push(ExecRec { kind: self.kind(), may_create: allow_undefined, ok: r.is_ok() });
}

#[verifier::external_body]
pub struct ExpressionAssign {
    _p: (),
}

impl Expression for ExpressionAssign {
    open spec fn kind(&self) -> NodeKind {
        NodeKind::Assign
    }

    #[verifier::external_body]
    fn execute(&self, context: &mut GlobalData, allow_undefined: bool) -> (r: ExpressionResult) {
        unimplemented!()
    }
}

impl ExpressionAssign {
    #[verifier::external_body]
    pub fn new(left: Box<dyn Expression>, right: Box<dyn Expression>) -> (r: ExpressionAssign) {
        unimplemented!()
    }
}

#[verifier::external_body]
pub struct ExpressionAssignUndefined {
    _p: (),
}

impl Expression for ExpressionAssignUndefined {
    open spec fn kind(&self) -> NodeKind {
        NodeKind::AssignUndefined
    }

    #[verifier::external_body]
    fn execute(&self, context: &mut GlobalData, allow_undefined: bool) -> (r: ExpressionResult) {
        unimplemented!()
    }
}

impl ExpressionAssignUndefined {
    #[verifier::external_body]
    pub fn new(left: Box<dyn Expression>, right: Box<dyn Expression>) -> (r: ExpressionAssignUndefined) {
        unimplemented!()
    }
}

pub struct RFsmExpressionDatamodel {
    pub global_data: GlobalData,
}

/// what an assignment attempt may leave in the log: nothing (an operand did not parse) or exactly one executed node
pub open spec fn assign_logged(g0: GlobalData, g1: GlobalData, may_create: bool, r: bool) -> bool {
    let want = ExecRec { kind: if may_create { NodeKind::AssignUndefined } else { NodeKind::Assign }, may_create: may_create, ok: r };
    (g1.executed() == g0.executed() && !r) || g1.executed() == g0.executed().push(want)
}
