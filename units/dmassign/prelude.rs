// TRUSTED stand-ins around RFsmExpressionDatamodel::assign / assign_internal.  The session's GlobalData is seen through
// two ghost logs: the number of error.execution events placed on the internal queue, and the expressions executed
// (which kind of assignment node, with which "may create" flag, whether it succeeded).

pub type SourceId = usize;

#[verifier::external_body]
pub struct DataArc {
    _p: (),
}

pub type ExpressionResult = Result<DataArc, String>;

pub enum NodeKind {
    /// `=`: the target must be a declared, writable location
    Assign,
    /// `?=`: the target is created if it does not exist
    AssignUndefined,
    Other,
}

pub struct ExecRec {
    pub kind: NodeKind,
    pub may_create: bool,
    pub ok: bool,
}

#[verifier::external_body]
pub struct GlobalData {
    _p: (),
}

impl GlobalData {
    /// error.execution events placed on the internal queue so far
    pub uninterp spec fn errors(&self) -> nat;

    /// expressions executed on this session's data so far
    pub uninterp spec fn executed(&self) -> Seq<ExecRec>;
}

pub trait Expression {
    spec fn kind(&self) -> NodeKind;

    /// identity of the parsed expression (its tree), preserved by copies
    spec fn shape(&self) -> int;

    fn execute(&self, context: &mut GlobalData, allow_undefined: bool) -> (r: ExpressionResult)
        ensures
            final(context).errors() == old(context).errors(),
            final(context).executed() == old(context).executed().push(ExecRec { kind: self.kind(), may_create: allow_undefined, ok: r.is_ok() });
}

#[verifier::external_body]
pub struct ExpressionAssign {
    _p: (),
}

impl Expression for ExpressionAssign {
    open spec fn kind(&self) -> NodeKind {
        NodeKind::Assign
    }

    uninterp spec fn shape(&self) -> int;

    #[verifier::external_body]
    fn execute(&self, context: &mut GlobalData, allow_undefined: bool) -> (r: ExpressionResult) {
        unimplemented!()
    }
}

impl ExpressionAssign {
    #[verifier::external_body]
    pub fn new(left: Box<dyn Expression>, right: Box<dyn Expression>) -> (r: ExpressionAssign) {
        unimplemented!()
    }
}

#[verifier::external_body]
pub struct ExpressionAssignUndefined {
    _p: (),
}

impl Expression for ExpressionAssignUndefined {
    open spec fn kind(&self) -> NodeKind {
        NodeKind::AssignUndefined
    }

    uninterp spec fn shape(&self) -> int;

    #[verifier::external_body]
    fn execute(&self, context: &mut GlobalData, allow_undefined: bool) -> (r: ExpressionResult) {
        unimplemented!()
    }
}

impl ExpressionAssignUndefined {
    #[verifier::external_body]
    pub fn new(left: Box<dyn Expression>, right: Box<dyn Expression>) -> (r: ExpressionAssignUndefined) {
        unimplemented!()
    }
}

pub struct RFsmExpressionDatamodel {
    pub global_data: GlobalData,
    pub compilations: HashMap<usize, Box<dyn Expression>>,
}

/// what the parser makes of a source text: the expression's identity, or an error (a function of the text alone)
pub uninterp spec fn parse_of(text: Seq<char>) -> Result<int, ()>;

/// the text the document associates with a source id (ids are handed out once per expression text by the readers)
pub uninterp spec fn text_of(id: usize) -> Seq<char>;

/// the compilation cache holds, under each id, a copy of what parsing that id's text yields
pub open spec fn cache_ok(m: Map<usize, Box<dyn Expression>>) -> bool {
    forall|id: usize| m.contains_key(id) ==> parse_of(text_of(id)) == Ok::<int, ()>((#[trigger] m[id]).shape())
}

pub struct ExpressionParser {}

impl ExpressionParser {
    /// src/expression_engine/parser.rs (units lexer, parser): here only "a function of the text"
    #[verifier::external_body]
    pub fn parse(text: String) -> (r: Result<Box<dyn Expression>, String>)
        ensures
            match r {
                Ok(e) => parse_of(text@) == Ok::<int, ()>(e.shape()),
                Err(_) => parse_of(text@) is Err,
            },
    {
        unimplemented!()
    }
}

/// what an assignment attempt may leave in the log: nothing (an operand did not parse) or exactly one executed node
pub open spec fn assign_logged(g0: GlobalData, g1: GlobalData, may_create: bool, r: bool) -> bool {
    let want = ExecRec { kind: if may_create { NodeKind::AssignUndefined } else { NodeKind::Assign }, may_create: may_create, ok: r };
    (g1.executed() == g0.executed() && !r) || g1.executed() == g0.executed().push(want)
}

/// R19: `e.get_copy()` (Expression::get_copy): a deep copy of the expression tree
#[verifier::external_body]
pub fn verif_get_copy(e: &Box<dyn Expression>) -> (r: Box<dyn Expression>)
    ensures
        r.shape() == e.shape(),
        r.kind() == e.kind(),
{
    unimplemented!()
}

/// R19: `val.lock().unwrap()`: read access to the value behind the handle (blocking/poisoning not modelled, A1)
#[verifier::external_body]
pub struct VerifGuard {
    _p: (),
}

impl VerifGuard {
    pub uninterp spec fn value(&self) -> Data;

    #[verifier::external_body]
    pub fn deref(&self) -> (r: &Data)
        ensures
            *r == self.value(),
    {
        unimplemented!()
    }
}

impl DataArc {
    /// the value behind the handle at the time it was returned by the evaluation
    pub uninterp spec fn held(&self) -> Data;

    #[verifier::external_body]
    pub fn clone(&self) -> (r: DataArc)
        ensures
            r == *self,
    {
        unimplemented!()
    }
}

#[verifier::external_body]
pub fn verif_locked(v: &DataArc) -> (r: VerifGuard)
    ensures
        r.value() == v.held(),
{
    unimplemented!()
}
