impl RFsmExpressionDatamodel {
    /// parses / compiles an operand (touches only the compilation cache)
    #[verifier::external_body]
    fn parse(&mut self, data: &Data) -> (r: Result<Box<dyn Expression>, String>)
        ensures
            final(self).global_data == old(self).global_data,
    {
        unimplemented!()
    }

    /// Datamodel::log
    #[verifier::external_body]
    fn log(&mut self, msg: &str)
        ensures
            final(self).global_data == old(self).global_data,
    {
        unimplemented!()
    }

    /// Datamodel::internal_error_execution: places one error.execution on the internal queue
    #[verifier::external_body]
    fn internal_error_execution(&mut self)
        ensures
            final(self).global_data.errors() == old(self).global_data.errors() + 1,
            final(self).global_data.executed() == old(self).global_data.executed(),
    {
        unimplemented!()
    }

