    closed spec fn prest(&self) -> Seq<u8> { self.reader.rest() }
    closed spec fn pok(&self) -> bool { self.ok }
    closed spec fn preliable(&self) -> bool { self.reader.eof_only() }
