// Byte format of data values (DESIGN appendix A.1: enc_data): tag, then the payload.

/// the scalar variants: everything except Array and Map
pub open spec fn data_scalar(d: Data) -> bool {
    !(d is Array) && !(d is Map)
}

pub open spec fn data_tag(d: Data) -> u64 {
    match d {
        Data::Null() => 0,
        Data::Integer(_) => 1,
        Data::Double(_) => 2,
        Data::String(_) => 3,
        Data::Boolean(_) => 4,
        Data::Array(_) => 5,
        Data::Map(_) => 6,
        Data::Error(_) => 7,
        Data::Source(_) => 8,
        Data::None() => 9,
    }
}

/// payload of a scalar value
pub open spec fn enc_data_payload(d: Data) -> Seq<u8> {
    match d {
        Data::Integer(v) => enc_str(encode_utf8(i64_text(v))),
        Data::Double(v) => enc_str(encode_utf8(f64_text(v))),
        Data::String(s) => enc_str(encode_utf8(s@)),
        Data::Boolean(b) => enc_bool(b),
        Data::Error(s) => enc_str(encode_utf8(s@)),
        Data::Source(s) => enc_str(encode_utf8(s.source@)) + enc_uint(s.source_id as u64),
        _ => Seq::<u8>::empty(),
    }
}

pub open spec fn enc_data_scalar(d: Data) -> Seq<u8> {
    enc_uint(data_tag(d)) + enc_data_payload(d)
}

/// every string inside the value has an encoding (< 4096 bytes)
pub open spec fn data_scalar_encodable(d: Data) -> bool {
    match d {
        Data::Integer(v) => str_encodable(encode_utf8(i64_text(v))),
        Data::Double(v) => str_encodable(encode_utf8(f64_text(v))),
        Data::String(s) => str_encodable(encode_utf8(s@)),
        Data::Error(s) => str_encodable(encode_utf8(s@)),
        Data::Source(s) => str_encodable(encode_utf8(s.source@)),
        _ => true,
    }
}
