// TRUSTED stand-ins for the value model (src/datamodel/mod.rs) as far as the value codec touches it.

pub type SourceId = usize;

/// `Arc<Mutex<Data>>` plus flags: opaque here; container payloads are not under contract
#[verifier::external_body]
pub struct DataArc {
    _p: (),
}

/// the text `to_string` produces for a number (uninterpreted; `str::parse` is assumed to invert it)
pub trait NumText {
    spec fn num_text(&self) -> Seq<char>;
}

impl NumText for i64 {
    uninterp spec fn num_text(&self) -> Seq<char>;
}

impl NumText for f64 {
    uninterp spec fn num_text(&self) -> Seq<char>;
}

pub open spec fn i64_text(v: i64) -> Seq<char> {
    v.num_text()
}

pub open spec fn f64_text(v: f64) -> Seq<char> {
    v.num_text()
}

/// R19: `val.to_string()` on an i64 / f64
#[verifier::external_body]
pub fn verif_num_to_string<T: NumText + std::string::ToString>(v: &T) -> (r: String)
    ensures
        r@ == v.num_text(),
{
    v.to_string()
}

/// R19: the element loops of the container variants (`for v in val { self.write_data_arc(v); }` and the map loop):
/// NOT under contract (they lock each element's mutex and iterate a HashMap); only the sticky error flag is assumed
#[verifier::external_body]
pub fn verif_write_array_items<W: Write>(w: &mut DefaultProtocolWriter<W>, val: &Vec<DataArc>)
    ensures
        !old(w).ok ==> !final(w).ok && final(w).writer.out() == old(w).writer.out(),
{
    unimplemented!()
}

#[verifier::external_body]
pub fn verif_write_map_items<W: Write>(w: &mut DefaultProtocolWriter<W>, val: &HashMap<String, DataArc>)
    ensures
        !old(w).ok ==> !final(w).ok && final(w).writer.out() == old(w).writer.out(),
{
    unimplemented!()
}

/// the error of `str::parse`; only its text is used (in a log line)
#[verifier::external_body]
pub struct VerifParseError {
    _p: (),
}

/// R19: `rv.parse::<i64>()`: std's parser inverts std's `to_string` (assumed)
#[verifier::external_body]
pub fn verif_parse_i64(s: &String) -> (r: Result<i64, VerifParseError>)
    ensures
        forall|v: i64| s@ == i64_text(v) ==> r == Ok::<i64, VerifParseError>(v),
{
    unimplemented!()
}

/// R19: `rv.parse::<f64>()`
#[verifier::external_body]
pub fn verif_parse_f64(s: &String) -> (r: Result<f64, VerifParseError>)
    ensures
        forall|v: f64| s@ == f64_text(v) ==> r == Ok::<f64, VerifParseError>(v),
{
    unimplemented!()
}

impl SourceCode {
    /// `SourceCode { source: source.to_string(), source_id }` (src/datamodel/mod.rs)
    #[verifier::external_body]
    pub fn new(source: &str, source_id: SourceId) -> (r: SourceCode)
        ensures
            r.source@ == source@,
            r.source_id == source_id,
    {
        unimplemented!()
    }
}

/// R19: the element loops of the container variants in read_data_value_payload (`val.push(self.read_data_arc())`,
/// `val.insert(k, self.read_data_arc())`): NOT under contract; only the sticky error flag is assumed
#[verifier::external_body]
pub fn verif_read_array_items<R: Read>(r: &mut DefaultProtocolReader<R>, val: &mut Vec<DataArc>, len: usize)
    ensures
        !old(r).ok ==> !final(r).ok && final(r).reader == old(r).reader,
        final(r).reader.eof_only() == old(r).reader.eof_only(),
{
    unimplemented!()
}

#[verifier::external_body]
pub fn verif_read_map_items<R: Read>(r: &mut DefaultProtocolReader<R>, val: &mut HashMap<String, DataArc>, len: usize)
    ensures
        !old(r).ok ==> !final(r).ok && final(r).reader == old(r).reader,
        final(r).reader.eof_only() == old(r).reader.eof_only(),
{
    unimplemented!()
}

#[verifier::external_body]
pub fn verif_map_with_capacity(len: usize) -> (r: HashMap<String, DataArc>) {
    HashMap::with_capacity(len)
}
