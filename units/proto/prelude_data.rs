// TRUSTED stand-ins for the value model (src/datamodel/mod.rs) as far as the value codec touches it.

pub type SourceId = usize;

/// `Arc<Mutex<Data>>` plus flags: opaque here; container payloads are not under contract
#[verifier::external_body]
pub struct DataArc {
    _p: (),
}

/// the text `to_string` produces for a number (uninterpreted; `str::parse` is assumed to invert it)
pub trait NumText {
    spec fn num_text(&self) -> Seq<char>;
}

impl NumText for i64 {
    uninterp spec fn num_text(&self) -> Seq<char>;
}

impl NumText for f64 {
    uninterp spec fn num_text(&self) -> Seq<char>;
}

pub open spec fn i64_text(v: i64) -> Seq<char> {
    v.num_text()
}

pub open spec fn f64_text(v: f64) -> Seq<char> {
    v.num_text()
}

/// R19: `val.to_string()` on an i64 / f64
#[verifier::external_body]
pub fn verif_num_to_string<T: NumText + std::string::ToString>(v: &T) -> (r: String)
    ensures
        r@ == v.num_text(),
{
    v.to_string()
}

/// R19: the element loops of the container variants (`for v in val { self.write_data_arc(v); }` and the map loop):
/// NOT under contract (they lock each element's mutex and iterate a HashMap); only the sticky error flag is assumed
#[verifier::external_body]
pub fn verif_write_array_items<W: Write>(w: &mut DefaultProtocolWriter<W>, val: &Vec<DataArc>)
    ensures
        !old(w).ok ==> !final(w).ok && final(w).writer.out() == old(w).writer.out(),
{
    unimplemented!()
}

#[verifier::external_body]
pub fn verif_write_map_items<W: Write>(w: &mut DefaultProtocolWriter<W>, val: &HashMap<String, DataArc>)
    ensures
        !old(w).ok ==> !final(w).ok && final(w).writer.out() == old(w).writer.out(),
{
    unimplemented!()
}
