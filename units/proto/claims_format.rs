// Property-level claim about the format itself (known finding, see KNOWN_FINDINGS.json).
// serves: C05
/// C05 asks for "strings of every length": the format must have an encoding for every byte string.
/// (It has none for 4096 bytes and more - see KNOWN_FINDINGS.json.)
pub proof fn format_covers_every_string(b: Seq<u8>)
    ensures
        str_encodable(b),
{
}

