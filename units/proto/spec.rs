// The binary format, written down once from default_protocol_definitions.rs and the property
// text (C05: "unsigned integers over the full 64-bit range and every width boundary, strings of
// every length").  Pure mathematics; contains no assumption.

/// number of payload bytes of the width class of v: least k with v < 2^(4+8k), 8 for v >= 2^60
pub open spec fn uint_class(v: u64) -> int {
    if v < 0x10 { 0 }
    else if v < 0x1000 { 1 }
    else if v < 0x10_0000 { 2 }
    else if v < 0x1000_0000 { 3 }
    else if v < 0x10_0000_0000 { 4 }
    else if v < 0x1000_0000_0000 { 5 }
    else if v < 0x10_0000_0000_0000 { 6 }
    else if v < 0x1000_0000_0000_0000 { 7 }
    else { 8 }
}

/// k payload bytes of v, most significant first: byte i is bits [8(k-1-i), 8(k-i)) of v
pub open spec fn be_bytes(v: u64, k: int) -> Seq<u8> {
    Seq::new(k as nat, |i: int| (v >> ((8 * (k - 1 - i)) as u64)) as u8)
}

/// first byte: type nibble | the 4 bits above the payload (none left for the 68-bit class)
pub open spec fn head_byte(type_id: u8, v: u64, k: int) -> u8 {
    if k >= 8 { type_id } else { type_id | (((v >> ((8 * k) as u64)) as u8) & 0x0F) }
}

pub open spec fn tv_bytes(type_id: u8, v: u64, k: int) -> Seq<u8> {
    seq![head_byte(type_id, v, k)] + be_bytes(v, k)
}

pub open spec fn is_type_id(t: u8) -> bool {
    t == 0x30 || t == 0x40 || t == 0x50 || t == 0x60 || t == 0x70 || t == 0x80 || t == 0x90 || t == 0xA0
        || t == 0xB0 || t == 0xC0 || t == 0xD0
}

pub open spec fn uint_type(k: int) -> u8 {
    (0x30 + 0x10 * k) as u8
}

pub open spec fn enc_uint(v: u64) -> Seq<u8> {
    tv_bytes(uint_type(uint_class(v)), v, uint_class(v))
}

pub open spec fn enc_bool(b: bool) -> Seq<u8> {
    if b { seq![0x1Fu8] } else { seq![0x10u8] }
}

/// a string is its UTF-8 bytes behind a 4- or 12-bit length; the format has no encoding for 4096+ bytes
pub open spec fn str_encodable(bytes: Seq<u8>) -> bool {
    bytes.len() < 4096
}

pub open spec fn enc_str(bytes: Seq<u8>) -> Seq<u8> {
    if bytes.len() < 16 {
        tv_bytes(0xC0u8, bytes.len() as u64, 0) + bytes
    } else {
        tv_bytes(0xD0u8, bytes.len() as u64, 1) + bytes
    }
}

pub open spec fn enc_opt_str(o: Option<Seq<u8>>) -> Seq<u8> {
    match o {
        None => seq![0x10u8],
        Some(b) => enc_str(b),
    }
}

/// shape of every writer postcondition: success means "was ok and exactly these bytes were appended";
/// a writer already in error state appends nothing (and stays in error state, by the first part)
pub open spec fn wr_post(ok0: bool, out0: Seq<u8>, ok1: bool, out1: Seq<u8>, bytes: Seq<u8>) -> bool {
    (ok1 ==> ok0 && out1 == out0 + bytes) && (!ok0 ==> out1 == out0)
}

pub open spec fn opt_str_bytes(o: Option<String>) -> Option<Seq<u8>> {
    match o {
        None => None,
        Some(s) => Some(encode_utf8(s@)),
    }
}

pub open spec fn opt_str_encodable(o: Option<String>) -> bool {
    match o {
        None => true,
        Some(s) => str_encodable(encode_utf8(s@)),
    }
}

// ---------------------------------------------------------------------------------------------
// Decoder side: what one "type and value" token at the head of a byte sequence means.
// ---------------------------------------------------------------------------------------------

/// left fold: acc, then each payload byte shifted in from the right (big endian)
pub open spec fn be_value(acc: u64, p: Seq<u8>) -> u64
    decreases p.len(),
{
    if p.len() == 0 {
        acc
    } else {
        be_value((acc << 8) | (p[0] as u64), p.subrange(1, p.len() as int))
    }
}

pub enum Tv {
    /// the sequence ends before the token is complete
    Eof,
    /// string payload is not valid UTF-8
    BadUtf8,
    /// head byte of no known class (0x0_, 0x2_, 0xE_, 0xF_): the reader keeps stale state, nothing is promised
    Unknown,
    /// 0x1_ : a one-byte tag (boolean / "none" marker)
    Tag(u8),
    /// number of width class k with value v; n bytes consumed
    Num(int, u64, int),
    /// string token of type t (0xC0 | 0xD0) with these bytes; n bytes consumed
    Str(u8, Seq<u8>, int),
}

pub open spec fn dec_tv(s: Seq<u8>) -> Tv {
    if s.len() == 0 {
        Tv::Eof
    } else {
        let h = s[0];
        let low = (h % 16) as u8;
        if 0x10 <= h && h <= 0x1F {
            Tv::Tag(h)
        } else if 0x30 <= h && h <= 0xBF {
            let k = (h as int - 0x30) / 0x10;
            if s.len() < 1 + k {
                Tv::Eof
            } else {
                Tv::Num(k, be_value(low as u64, s.subrange(1, 1 + k)), 1 + k)
            }
        } else if 0xC0 <= h && h <= 0xCF {
            let n = low as int;
            if s.len() < 1 + n {
                Tv::Eof
            } else if !valid_utf8(s.subrange(1, 1 + n)) {
                Tv::BadUtf8
            } else {
                Tv::Str(0xC0u8, s.subrange(1, 1 + n), 1 + n)
            }
        } else if 0xD0 <= h && h <= 0xDF {
            if s.len() < 2 {
                Tv::Eof
            } else {
                let n = ((low as int) * 256) + s[1] as int;
                if s.len() < 2 + n {
                    Tv::Eof
                } else if !valid_utf8(s.subrange(2, 2 + n)) {
                    Tv::BadUtf8
                } else {
                    Tv::Str(0xD0u8, s.subrange(2, 2 + n), 2 + n)
                }
            }
        } else {
            Tv::Unknown
        }
    }
}

pub open spec fn skip(s: Seq<u8>, n: int) -> Seq<u8> {
    s.subrange(n, s.len() as int)
}

pub open spec fn is_uint_type(t: u8) -> bool {
    t == 0x30 || t == 0x40 || t == 0x50 || t == 0x60 || t == 0x70 || t == 0x80 || t == 0x90 || t == 0xA0 || t == 0xB0
}

/// postcondition shape of read_type_and_size for a reader that was ok
pub open spec fn tv_post(rest0: Seq<u8>, rel: bool, ok1: bool, rest1: Seq<u8>, type1: u8, num1: u64, str1: Seq<u8>) -> bool {
    match dec_tv(rest0) {
        Tv::Eof => !ok1,
        Tv::BadUtf8 => !ok1,
        Tv::Unknown => true,
        Tv::Tag(b) => (rel ==> ok1) && (ok1 ==> type1 == b && rest1 == skip(rest0, 1)),
        Tv::Num(k, v, n) => (rel ==> ok1) && (ok1 ==> type1 == uint_type(k) && num1 == v && rest1 == skip(rest0, n)),
        Tv::Str(t, b, n) => (rel ==> ok1) && (ok1 ==> type1 == t && str1 == b && rest1 == skip(rest0, n)),
    }
}

/// the token is a number: Some((value, bytes consumed)); a token of another kind / cut off / malformed: None
pub open spec fn num_token(rest0: Seq<u8>) -> Option<(u64, int)> {
    match dec_tv(rest0) {
        Tv::Num(k, v, n) => Some((v, n)),
        _ => None,
    }
}

pub open spec fn str_token(rest0: Seq<u8>) -> Option<(Seq<u8>, int)> {
    match dec_tv(rest0) {
        Tv::Str(t, b, n) => Some((b, n)),
        _ => None,
    }
}

pub open spec fn unknown_head(rest0: Seq<u8>) -> bool {
    dec_tv(rest0) == Tv::Unknown
}

/// shape shared by all read_* postconditions (reader ok before the call):
/// tok = what the spec decoder sees, got = what the call returned matches it
pub open spec fn rd_post(present: bool, unknown: bool, rel: bool, ok1: bool, rest0: Seq<u8>, n: int, rest1: Seq<u8>, value_ok: bool) -> bool {
    if unknown {
        true
    } else if present {
        (rel ==> ok1) && (ok1 ==> value_ok && rest1 == skip(rest0, n))
    } else {
        !ok1
    }
}

/// UTF-8 encoding is injective (vstd: decode_utf8(encode_utf8(c)) == c)
pub proof fn lemma_utf8_injective(a: Seq<char>, b: Seq<char>)
    requires
        encode_utf8(a) == encode_utf8(b),
    ensures
        a == b,
{
    encode_utf8_decode_utf8(a);
    encode_utf8_decode_utf8(b);
}
