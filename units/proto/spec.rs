// The binary format, written down once from default_protocol_definitions.rs and the property
// text (C05: "unsigned integers over the full 64-bit range and every width boundary, strings of
// every length").  Pure mathematics; contains no assumption.

/// number of payload bytes of the width class of v: least k with v < 2^(4+8k), 8 for v >= 2^60
pub open spec fn uint_class(v: u64) -> int {
    if v < 0x10 { 0 }
    else if v < 0x1000 { 1 }
    else if v < 0x10_0000 { 2 }
    else if v < 0x1000_0000 { 3 }
    else if v < 0x10_0000_0000 { 4 }
    else if v < 0x1000_0000_0000 { 5 }
    else if v < 0x10_0000_0000_0000 { 6 }
    else if v < 0x1000_0000_0000_0000 { 7 }
    else { 8 }
}

/// k payload bytes of v, most significant first: byte i is bits [8(k-1-i), 8(k-i)) of v
pub open spec fn be_bytes(v: u64, k: int) -> Seq<u8> {
    Seq::new(k as nat, |i: int| (v >> ((8 * (k - 1 - i)) as u64)) as u8)
}

/// first byte: type nibble | the 4 bits above the payload (none left for the 68-bit class)
pub open spec fn head_byte(type_id: u8, v: u64, k: int) -> u8 {
    if k >= 8 { type_id } else { type_id | (((v >> ((8 * k) as u64)) as u8) & 0x0F) }
}

pub open spec fn tv_bytes(type_id: u8, v: u64, k: int) -> Seq<u8> {
    seq![head_byte(type_id, v, k)] + be_bytes(v, k)
}

pub open spec fn is_type_id(t: u8) -> bool {
    t == 0x30 || t == 0x40 || t == 0x50 || t == 0x60 || t == 0x70 || t == 0x80 || t == 0x90 || t == 0xA0
        || t == 0xB0 || t == 0xC0 || t == 0xD0
}

pub open spec fn uint_type(k: int) -> u8 {
    (0x30 + 0x10 * k) as u8
}

pub open spec fn enc_uint(v: u64) -> Seq<u8> {
    tv_bytes(uint_type(uint_class(v)), v, uint_class(v))
}

pub open spec fn enc_bool(b: bool) -> Seq<u8> {
    if b { seq![0x1Fu8] } else { seq![0x10u8] }
}

/// a string is its UTF-8 bytes behind a 4- or 12-bit length; the format has no encoding for 4096+ bytes
pub open spec fn str_encodable(bytes: Seq<u8>) -> bool {
    bytes.len() < 4096
}

pub open spec fn enc_str(bytes: Seq<u8>) -> Seq<u8> {
    if bytes.len() < 16 {
        tv_bytes(0xC0u8, bytes.len() as u64, 0) + bytes
    } else {
        tv_bytes(0xD0u8, bytes.len() as u64, 1) + bytes
    }
}

pub open spec fn enc_opt_str(o: Option<Seq<u8>>) -> Seq<u8> {
    match o {
        None => seq![0x10u8],
        Some(b) => enc_str(b),
    }
}

/// shape of every writer postcondition: success means "was ok and exactly these bytes were appended";
/// a writer already in error state appends nothing (and stays in error state, by the first part)
pub open spec fn wr_post(ok0: bool, out0: Seq<u8>, ok1: bool, out1: Seq<u8>, bytes: Seq<u8>) -> bool {
    (ok1 ==> ok0 && out1 == out0 + bytes) && (!ok0 ==> out1 == out0)
}

pub open spec fn opt_str_bytes(o: Option<String>) -> Option<Seq<u8>> {
    match o {
        None => None,
        Some(s) => Some(encode_utf8(s@)),
    }
}

pub open spec fn opt_str_encodable(o: Option<String>) -> bool {
    match o {
        None => true,
        Some(s) => str_encodable(encode_utf8(s@)),
    }
}
