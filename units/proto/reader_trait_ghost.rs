    // ghost view members added by rule R15 (no executable text)
    spec fn prest(&self) -> Seq<u8>;
    spec fn pok(&self) -> bool;
    spec fn preliable(&self) -> bool;
