// serves: C05
/// Round trip of a script/expression value (Data::Source), the value kind a persisted model consists of: the payload
/// write_data emits decodes, token by token, to the same text and the same source id, with nothing left over.
/// Together with write_data.bytes and read_data_value_payload.source_payload / source_payload_is_accepted this is
/// `read(write(Source(text, id))) == Source(text, id)` for every text below 4096 bytes and every id.
pub proof fn lemma_rt_data_source(text: Seq<char>, id: usize, tail: Seq<u8>)
    requires
        str_encodable(encode_utf8(text)),
    ensures
        ({
            let b = encode_utf8(text);
            let rest = enc_str(b) + enc_uint(id as u64) + tail;
            let ra = skip(rest, enc_str(b).len() as int);
            &&& !unknown_head(rest)
            &&& str_token(rest) == Some((b, enc_str(b).len() as int))
            &&& !unknown_head(ra)
            &&& num_token(ra).is_some()
            &&& num_token(ra).unwrap().0 == id as u64
            &&& skip(ra, num_token(ra).unwrap().1) == tail
        }),
{
    let b = encode_utf8(text);
    vstd::utf8::encode_utf8_valid_utf8(text);
    assert(enc_str(b) + enc_uint(id as u64) + tail =~= enc_str(b) + (enc_uint(id as u64) + tail));
    lemma_rt_str(b, enc_uint(id as u64) + tail);
    lemma_rt_uint(id as u64, tail);
}
