// serves: C05
/// Round trip of a script/expression value (Data::Source), the value kind a persisted model consists of: the payload
/// write_data emits decodes, token by token, to the same text and the same source id, with nothing left over.
/// Together with write_data.bytes and read_data_value_payload.source_payload / source_payload_is_accepted this is
/// `read(write(Source(text, id))) == Source(text, id)` for every text below 4096 bytes and every id.
pub proof fn lemma_rt_data_source(text: Seq<char>, id: usize, tail: Seq<u8>)
    requires
        str_encodable(encode_utf8(text)),
    ensures
        ({
            let b = encode_utf8(text);
            let rest = enc_str(b) + enc_uint(id as u64) + tail;
            let ra = skip(rest, enc_str(b).len() as int);
            &&& !unknown_head(rest)
            &&& str_token(rest) == Some((b, enc_str(b).len() as int))
            &&& !unknown_head(ra)
            &&& num_token(ra).is_some()
            &&& num_token(ra).unwrap().0 == id as u64
            &&& skip(ra, num_token(ra).unwrap().1) == tail
        }),
{
    let b = encode_utf8(text);
    vstd::utf8::encode_utf8_valid_utf8(text);
    assert(enc_str(b) + enc_uint(id as u64) + tail =~= enc_str(b) + (enc_uint(id as u64) + tail));
    lemma_rt_str(b, enc_uint(id as u64) + tail);
    lemma_rt_uint(id as u64, tail);
}

// serves: C05
/// Round trip of the text payload shared by Data::String, Data::Error, Data::Integer and Data::Double (the numbers are
/// written as their decimal text): the payload decodes to the same bytes with nothing left over.  With
/// read_data_value_payload.text_payload / number_payload (and the assumed inverse of to_string/parse for numbers) this is
/// `read(write(v)) == v` for these variants.
pub proof fn lemma_rt_data_text(text: Seq<char>, tail: Seq<u8>)
    requires
        str_encodable(encode_utf8(text)),
    ensures
        ({
            let b = encode_utf8(text);
            let rest = enc_str(b) + tail;
            &&& !unknown_head(rest)
            &&& str_token(rest) == Some((b, enc_str(b).len() as int))
            &&& skip(rest, enc_str(b).len() as int) == tail
        }),
{
    let b = encode_utf8(text);
    vstd::utf8::encode_utf8_valid_utf8(text);
    lemma_rt_str(b, tail);
}

// serves: C05
/// Round trip of the Boolean payload: one tag byte that read_boolean (and read_data_value_payload.boolean_payload)
/// maps back to the same value.
pub proof fn lemma_rt_data_bool(v: bool, tail: Seq<u8>)
    ensures
        ({
            let rest = enc_bool(v) + tail;
            &&& rest.len() >= 1
            &&& (rest[0] == 0x1F || rest[0] == 0x10)
            &&& (rest[0] == 0x1F) == v
            &&& skip(rest, 1) == tail
        }),
{
    lemma_rt_tags(tail);
    assert(skip(enc_bool(v) + tail, 1) =~= tail);
}

// serves: C05
/// The tag byte of a value decodes to the tag (read_data reads it with read_u8 before the payload).
pub proof fn lemma_rt_data_tag(d: Data, tail: Seq<u8>)
    ensures
        num_token(enc_uint(data_tag(d)) + tail).is_some(),
        num_token(enc_uint(data_tag(d)) + tail).unwrap().0 == data_tag(d),
        data_tag(d) <= 9,
        skip(enc_uint(data_tag(d)) + tail, num_token(enc_uint(data_tag(d)) + tail).unwrap().1) == tail,
{
    lemma_rt_uint(data_tag(d), tail);
}
