// Property-level lemmas over the contracts above.  Each proof fn is one obligation.
// serves: C05 C18
/// folding the payload bytes of v back in, starting from the bits above them, yields v
pub proof fn lemma_be_fold(v: u64, k: int, i: int, acc: u64)
    requires
        0 <= i <= k <= 8,
        acc == (if 8 * (k - i) >= 64 { 0u64 } else { v >> ((8 * (k - i)) as u64) }),
    ensures
        be_value(acc, be_bytes(v, k).subrange(i, k)) == v,
    decreases k - i,
{
    let p = be_bytes(v, k).subrange(i, k);
    if i == k {
        assert(v >> 0u64 == v) by (bit_vector);
    } else {
        let s = (8 * (k - 1 - i)) as u64;
        let b = p[0];
        assert(b == (v >> s) as u8);
        let acc2 = (acc << 8) | (b as u64);
        assert(p.subrange(1, p.len() as int) == be_bytes(v, k).subrange(i + 1, k));
        if s == 56 {
            assert(((0u64 << 8) | (((v >> 56u64) as u8) as u64)) == v >> 56u64) by (bit_vector);
        } else {
            let s8 = (s + 8) as u64;
            assert(s <= 48 && s8 == s + 8 ==> (((v >> s8) << 8) | (((v >> s) as u8) as u64)) == v >> s) by (bit_vector);
        }
        assert(acc2 == v >> s);
        lemma_be_fold(v, k, i + 1, acc2);
    }
}

// serves: C05 C18
/// the head byte of enc_uint(v) carries the width class and the bits above the payload
pub proof fn lemma_uint_head(v: u64)
    ensures
        ({
            let k = uint_class(v);
            let h = head_byte(uint_type(k), v, k);
            &&& 0 <= k <= 8
            &&& 0x30 <= h <= 0xBF
            &&& (h as int - 0x30) / 0x10 == k
            &&& (h % 16) as u64 == (if k >= 8 { 0u64 } else { v >> ((8 * k) as u64) })
        }),
{
    let k = uint_class(v);
    let t = uint_type(k);
    assert(t == 0x30 + 0x10 * k);
    if k < 8 {
        let s = (8 * k) as u64;
        let x = v >> s;
        assert(v < 0x10 ==> (v >> 0u64) < 16) by (bit_vector);
        assert(v < 0x1000 ==> (v >> 8u64) < 16) by (bit_vector);
        assert(v < 0x10_0000 ==> (v >> 16u64) < 16) by (bit_vector);
        assert(v < 0x1000_0000 ==> (v >> 24u64) < 16) by (bit_vector);
        assert(v < 0x10_0000_0000 ==> (v >> 32u64) < 16) by (bit_vector);
        assert(v < 0x1000_0000_0000 ==> (v >> 40u64) < 16) by (bit_vector);
        assert(v < 0x10_0000_0000_0000 ==> (v >> 48u64) < 16) by (bit_vector);
        assert(v < 0x1000_0000_0000_0000 ==> (v >> 56u64) < 16) by (bit_vector);
        assert(x < 16);
        assert(t & 0x0F == 0 && x < 16 ==> ((t | ((x as u8) & 0x0F)) % 16) as u64 == x && (t | ((x as u8) & 0x0F)) / 16 == t / 16) by (bit_vector);
        assert(t == 0x30 || t == 0x40 || t == 0x50 || t == 0x60 || t == 0x70 || t == 0x80 || t == 0x90 || t == 0xA0);
        assert(t == 0x30 || t == 0x40 || t == 0x50 || t == 0x60 || t == 0x70 || t == 0x80 || t == 0x90 || t == 0xA0 ==> t & 0x0F == 0) by (bit_vector);
    }
}

// serves: C05
/// C05 (integers): reading what write_uint wrote yields the same number, for every u64, whatever follows
pub proof fn lemma_rt_uint(v: u64, tail: Seq<u8>)
    ensures
        dec_tv(enc_uint(v) + tail) == Tv::Num(uint_class(v), v, 1 + uint_class(v)),
        skip(enc_uint(v) + tail, 1 + uint_class(v)) == tail,
{
    let k = uint_class(v);
    let s = enc_uint(v) + tail;
    lemma_uint_head(v);
    lemma_be_fold(v, k, 0, (head_byte(uint_type(k), v, k) % 16) as u64);
    assert(s.subrange(1, 1 + k) == be_bytes(v, k));
    assert(be_bytes(v, k).subrange(0, k) == be_bytes(v, k));
    assert(skip(s, 1 + k) == tail);
}


// serves: C05
/// C05 (strings): reading what write_str wrote yields the same bytes, for every encodable string
pub proof fn lemma_rt_str(b: Seq<u8>, tail: Seq<u8>)
    requires
        valid_utf8(b),
        str_encodable(b),
    ensures
        str_token(enc_str(b) + tail) == Some((b, enc_str(b).len() as int)),
        skip(enc_str(b) + tail, enc_str(b).len() as int) == tail,
{
    let s = enc_str(b) + tail;
    let n = b.len() as u64;
    if b.len() < 16 {
        assert(n < 16 ==> (0xC0u8 | (((n >> 0u64) as u8) & 0x0F)) % 16 == n && 0xC0 <= (0xC0u8 | (((n >> 0u64) as u8) & 0x0F)) <= 0xCF) by (bit_vector);
        assert(be_bytes(n, 0) =~= Seq::<u8>::empty());
        assert(s.subrange(1, 1 + b.len() as int) == b);
        assert(skip(s, 1 + b.len() as int) == tail);
    } else {
        assert(n < 4096 ==> (0xD0u8 | (((n >> 8u64) as u8) & 0x0F)) % 16 == n / 256 && 0xD0 <= (0xD0u8 | (((n >> 8u64) as u8) & 0x0F)) <= 0xDF
            && ((n >> 0u64) as u8) == n % 256) by (bit_vector);
        assert(be_bytes(n, 1) =~= seq![(n >> 0u64) as u8]);
        assert(s[1] == (n >> 0u64) as u8);
        assert(s.subrange(2, 2 + b.len() as int) == b);
        assert(skip(s, 2 + b.len() as int) == tail);
    }
}

// serves: C05
pub proof fn lemma_rt_tags(tail: Seq<u8>)
    ensures
        dec_tv(enc_bool(true) + tail) == Tv::Tag(0x1Fu8),
        dec_tv(enc_bool(false) + tail) == Tv::Tag(0x10u8),
        dec_tv(enc_opt_str(None) + tail) == Tv::Tag(0x10u8),
        (enc_bool(true) + tail)[0] == 0x1F,
        (enc_bool(false) + tail)[0] == 0x10,
        skip(enc_bool(true) + tail, 1) == tail,
        skip(enc_bool(false) + tail, 1) == tail,
        skip(enc_opt_str(None) + tail, 1) == tail,
{
}

// serves: C18
/// C18 (token level): an image cut off inside a token is seen as end-of-data, which every read_* turns into the error state
pub proof fn lemma_cut_token_is_eof(s: Seq<u8>, j: int)
    requires
        0 <= j,
        match dec_tv(s) {
            Tv::Tag(b) => j < 1,
            Tv::Num(k, v, n) => j < n,
            Tv::Str(t, b, n) => j < n,
            _ => false,
        },
    ensures
        dec_tv(s.subrange(0, j)) == Tv::Eof,
{
    let p = s.subrange(0, j);
    if j > 0 {
        assert(p[0] == s[0]);
        if j > 1 {
            assert(p[1] == s[1]);
        }
    }
}
