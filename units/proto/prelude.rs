// TRUSTED stand-ins (assumption ledger A4): std::io::Write + byteorder::WriteBytesExt seen as one
// trait over an abstract byte sink `out()`.  Nothing here is proved; every item is listed in the
// evidence under trusted_base.
#[verifier::external_type_specification]
#[verifier::external_body]
pub struct ExIoError(std::io::Error);

pub trait Write {
    /// all bytes accepted by the sink so far
    spec fn out(&self) -> Seq<u8>;

    /// std::io::Write::write: may accept any prefix of buf (short write)
    fn write(&mut self, buf: &[u8]) -> (r: std::io::Result<usize>)
        ensures
            match r {
                Ok(n) => n <= buf@.len() && final(self).out() == old(self).out() + buf@.subrange(0, n as int),
                Err(_) => true,
            };

    /// std::io::Write::write_all: everything or Err
    fn write_all(&mut self, buf: &[u8]) -> (r: std::io::Result<()>)
        ensures
            r.is_ok() ==> final(self).out() == old(self).out() + buf@;

    /// byteorder::WriteBytesExt::write_u8 == write_all(&[n])
    fn write_u8(&mut self, n: u8) -> (r: std::io::Result<()>)
        ensures
            r.is_ok() ==> final(self).out() == old(self).out().push(n);

    fn flush(&mut self) -> (r: std::io::Result<()>)
        ensures
            final(self).out() == old(self).out();
}

pub mod trusted_axioms {
    use super::*;

    /// A4: a real `str` never holds more than isize::MAX bytes (vstd's `str::len` clips to usize otherwise)
    #[verifier::external_body]
    pub broadcast proof fn axiom_str_len_fits(s: &str)
        ensures
            #[trigger] s.spec_bytes().len() <= usize::MAX,
    {
    }
}


/// stand-in for std::io::Read + byteorder::ReadBytesExt over an abstract byte source `rest()`.
/// `eof_only()`: the source fails only when it runs out of data (no transient I/O errors).
pub trait Read {
    spec fn rest(&self) -> Seq<u8>;
    spec fn eof_only(&self) -> bool;

    /// byteorder::ReadBytesExt::read_u8 == read_exact into a 1-byte buffer
    fn read_u8(&mut self) -> (r: std::io::Result<u8>)
        ensures
            final(self).eof_only() == old(self).eof_only(),
            match r {
                Ok(b) => old(self).rest().len() >= 1 && b == old(self).rest()[0]
                    && final(self).rest() == old(self).rest().subrange(1, old(self).rest().len() as int),
                Err(_) => old(self).eof_only() ==> old(self).rest().len() == 0,
            };

    /// std::io::Read::read_exact: fills buf completely or fails
    fn read_exact(&mut self, buf: &mut [u8]) -> (r: std::io::Result<()>)
        ensures
            final(self).eof_only() == old(self).eof_only(),
            final(buf)@.len() == old(buf)@.len(),
            match r {
                Ok(_) => old(self).rest().len() >= old(buf)@.len() && final(buf)@ == old(self).rest().subrange(0, old(buf)@.len() as int)
                    && final(self).rest() == old(self).rest().subrange(old(buf)@.len() as int, old(self).rest().len() as int),
                Err(_) => old(self).eof_only() ==> old(self).rest().len() < old(buf)@.len(),
            };

    /// std::io::Read::read: transfers SOME prefix of the remaining bytes, possibly fewer than `buf` holds (0 at the
    /// end of the data); the rest of `buf` keeps its old contents.  Not used by the code as it stands; present so
    /// that a change from read_exact to read is judged against the contracts instead of falling out of the subset.
    fn read(&mut self, buf: &mut [u8]) -> (r: std::io::Result<usize>)
        ensures
            final(self).eof_only() == old(self).eof_only(),
            final(buf)@.len() == old(buf)@.len(),
            match r {
                Ok(n) => n <= old(buf)@.len() && n <= old(self).rest().len()
                    && final(buf)@.subrange(0, n as int) == old(self).rest().subrange(0, n as int)
                    && final(buf)@.subrange(n as int, old(buf)@.len() as int) == old(buf)@.subrange(n as int, old(buf)@.len() as int)
                    && final(self).rest() == old(self).rest().subrange(n as int, old(self).rest().len() as int),
                Err(_) => true,
            };
}

// ---- A4 / A6: std string functions without vstd specification --------------------------------
#[verifier::external_type_specification]
#[verifier::external_body]
pub struct ExUtf8Error(std::str::Utf8Error);

/// std::str::from_utf8 succeeds exactly on valid UTF-8 and then yields those very bytes
pub assume_specification [std::str::from_utf8] (b: &[u8]) -> (r: std::result::Result<&str, std::str::Utf8Error>)
    ensures
        r.is_ok() == valid_utf8(b@),
        r.is_ok() ==> r.unwrap().spec_bytes() == b@;

/// String::insert_str(0, s) on an empty string makes it equal to s (only this use occurs)
pub assume_specification [std::string::String::insert_str] (s: &mut std::string::String, idx: usize, t: &str)
    requires
        idx == 0,
        old(s)@.len() == 0,
    ensures
        final(s)@ == t@;

/// `String == str` compares the character sequences
pub assume_specification [<String as PartialEq<str>>::eq] (a: &String, b: &str) -> (r: bool)
    ensures
        r == (a@ == b@);
