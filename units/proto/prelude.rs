// TRUSTED stand-ins (assumption ledger A4): std::io::Write + byteorder::WriteBytesExt seen as one
// trait over an abstract byte sink `out()`.  Nothing here is proved; every item is listed in the
// evidence under trusted_base.
#[verifier::external_type_specification]
#[verifier::external_body]
pub struct ExIoError(std::io::Error);

pub trait Write {
    /// all bytes accepted by the sink so far
    spec fn out(&self) -> Seq<u8>;

    /// std::io::Write::write: may accept any prefix of buf (short write)
    fn write(&mut self, buf: &[u8]) -> (r: std::io::Result<usize>)
        ensures
            match r {
                Ok(n) => n <= buf@.len() && final(self).out() == old(self).out() + buf@.subrange(0, n as int),
                Err(_) => true,
            };

    /// std::io::Write::write_all: everything or Err
    fn write_all(&mut self, buf: &[u8]) -> (r: std::io::Result<()>)
        ensures
            r.is_ok() ==> final(self).out() == old(self).out() + buf@;

    /// byteorder::WriteBytesExt::write_u8 == write_all(&[n])
    fn write_u8(&mut self, n: u8) -> (r: std::io::Result<()>)
        ensures
            r.is_ok() ==> final(self).out() == old(self).out().push(n);

    fn flush(&mut self) -> (r: std::io::Result<()>)
        ensures
            final(self).out() == old(self).out();
}

pub mod trusted_axioms {
    use super::*;

    /// A4: a real `str` never holds more than isize::MAX bytes (vstd's `str::len` clips to usize otherwise)
    #[verifier::external_body]
    pub broadcast proof fn axiom_str_len_fits(s: &str)
        ensures
            #[trigger] s.spec_bytes().len() <= usize::MAX,
    {
    }
}

broadcast use trusted_axioms::axiom_str_len_fits;
