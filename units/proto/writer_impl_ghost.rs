    closed spec fn pout(&self) -> Seq<u8> { self.writer.out() }
    closed spec fn pok(&self) -> bool { self.ok }
