// TRUSTED stand-ins for the std calls of the lexer that Verus cannot name (rewrite R19).  Each carries the std contract.

/// `String::push`
#[verifier::external_body]
pub fn verif_string_push(s: &mut String, c: char)
    ensures
        final(s)@ == old(s)@.push(c),
{
    s.push(c)
}

/// `String::clear`
#[verifier::external_body]
pub fn verif_string_clear(s: &mut String)
    ensures
        final(s)@ == Seq::<char>::empty(),
{
    s.clear()
}

/// `String::len` (bytes): zero exactly for the empty string, one for a single ASCII character, and never less than
/// the number of characters
#[verifier::external_body]
pub fn verif_string_len(s: &String) -> (r: usize)
    ensures
        (r == 0) == (s@.len() == 0),
        r >= s@.len(),
        s@.len() == 1 && (s@[0] as u32) < 0x80 ==> r == 1,
        r == 1 ==> s@.len() == 1,
{
    s.len()
}

/// `String::is_empty`
#[verifier::external_body]
pub fn verif_string_is_empty(s: &String) -> (r: bool)
    ensures
        r == (s@.len() == 0),
{
    s.is_empty()
}

/// `String::with_capacity`
#[verifier::external_body]
pub fn verif_string_with_capacity(n: usize) -> (r: String)
    ensures
        r@ == Seq::<char>::empty(),
{
    String::with_capacity(n)
}

/// `"literal".to_string()`
#[verifier::external_body]
pub fn verif_to_string(s: &str) -> (r: String)
    ensures
        r@ == s@,
{
    s.to_string()
}

/// the error of `str::parse` / `from_str_radix`; only its text is used
#[verifier::external_body]
pub struct VerifParseError {
    _p: (),
}

impl VerifParseError {
    #[verifier::external_body]
    pub fn to_string(&self) -> (r: String) {
        unimplemented!()
    }
}

/// `s.parse::<i64>()`: total, the value is std's
#[verifier::external_body]
pub fn verif_parse_i64(s: &String) -> (r: Result<i64, VerifParseError>) {
    unimplemented!()
}

/// `s.parse::<f64>()`
#[verifier::external_body]
pub fn verif_parse_f64(s: &String) -> (r: Result<f64, VerifParseError>) {
    unimplemented!()
}

/// `u32::from_str_radix(s, 16)`
#[verifier::external_body]
pub fn verif_u32_from_hex(s: &str) -> (r: Result<u32, VerifParseError>) {
    unimplemented!()
}

/// `char::from_u32`
#[verifier::external_body]
pub fn verif_char_from_u32(v: u32) -> (r: Option<char>) {
    char::from_u32(v)
}

/// `char::is_ascii_digit`
#[verifier::external_body]
pub fn verif_is_ascii_digit(c: char) -> (r: bool)
    ensures
        r == ('0' <= c && c <= '9'),
{
    c.is_ascii_digit()
}

/// `char::is_ascii_hexdigit`
#[verifier::external_body]
pub fn verif_is_ascii_hexdigit(c: char) -> (r: bool)
    ensures
        r == (('0' <= c && c <= '9') || ('a' <= c && c <= 'f') || ('A' <= c && c <= 'F')),
{
    c.is_ascii_hexdigit()
}

/// <[T]>::contains: some element equals x
pub assume_specification<T: PartialEq> [<[T]>::contains] (s: &[T], x: &T) -> (r: bool)
    ensures
        r == s@.contains(*x),
;
