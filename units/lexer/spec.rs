// Mathematics of the lexer contracts (verified, no assumptions).

/// the JSON whitespace characters: what the property calls "incidental whitespace"
pub open spec fn lx_ws(c: char) -> bool {
    c == ' ' || c == '\n' || c == '\r' || c == '\t'
}

/// characters that end an identifier (README: identifiers are letters/digits; operators, brackets, separators,
/// string delimiters, whitespace and the end marker stop them)
pub open spec fn lx_stop(c: char) -> bool {
    lx_ws(c) || c == '\0' || c == '.' || c == '!' || c == ',' || c == '\\' || c == '-' || c == '+' || c == '/' || c == ':'
        || c == '*' || c == '&' || c == '|' || c == '<' || c == '>' || c == '=' || c == '%' || c == '?' || c == '['
        || c == ']' || c == '(' || c == ')' || c == '{' || c == '}' || c == '"' || c == '\'' || c == ';'
}

/// representation invariant of the lexer: the read position never leaves the text
pub open spec fn lx_wf(l: ExpressionLexer) -> bool {
    l.pos <= l.text.len()
}

/// a call neither changes the text nor moves the position backwards
pub open spec fn lx_step(a: ExpressionLexer, b: ExpressionLexer) -> bool {
    lx_wf(b) && b.text == a.text && b.pos >= a.pos
}

/// README operator table: the operator a one- or two-character lexeme denotes
pub open spec fn lx_op1(first: char) -> Option<Operator> {
    if first == '-' { Some(Operator::Minus) }
    else if first == '+' { Some(Operator::Plus) }
    else if first == '*' { Some(Operator::Multiply) }
    else if first == ':' || first == '/' { Some(Operator::Divide) }
    else if first == '&' { Some(Operator::And) }
    else if first == '|' { Some(Operator::Or) }
    else if first == '%' { Some(Operator::Modulus) }
    else { None }
}

pub open spec fn lx_op_eq(first: char) -> Option<Operator> {
    if first == '?' { Some(Operator::AssignUndefined) }
    else if first == '<' { Some(Operator::LessEqual) }
    else if first == '>' { Some(Operator::GreaterEqual) }
    else if first == '=' { Some(Operator::Equal) }
    else if first == '!' { Some(Operator::NotEqual) }
    else { None }
}

pub open spec fn lx_op_plain(first: char) -> Option<Operator> {
    if first == '<' { Some(Operator::Less) }
    else if first == '>' { Some(Operator::Greater) }
    else if first == '=' { Some(Operator::Assign) }
    else if first == '!' { Some(Operator::Not) }
    else { None }
}

/// an expression text without NUL characters (the lexer uses NUL as its end marker; the clauses about what a token
/// consumes are stated for such texts)
pub open spec fn lx_clean(l: ExpressionLexer) -> bool {
    forall|i: int| 0 <= i < l.text.len() ==> #[trigger] l.text@[i] != '\0'
}
