// Mathematics of the parser contracts.

/// what the parser may leave on its stack as a token: names, operators and the member separator
pub open spec fn item_ok(i: ExpressionParserItem) -> bool {
    match i {
        ExpressionParserItem::SToken(t) => t is Identifier || t is Operator || (t is Separator && t->Separator_0 == '.'),
        ExpressionParserItem::SExpression(_) => true,
    }
}

pub open spec fn stack_ok(s: Seq<ExpressionParserItem>) -> bool {
    forall|i: int| 0 <= i < s.len() ==> item_ok(#[trigger] s[i])
}

/// the unread part of the text: the termination measure of the recursive descent
pub open spec fn lx_left(l: ExpressionLexer) -> int {
    l.text.len() - l.pos
}
