// Mathematics of the parser contracts.

/// what the parser may leave on its stack as a token: names, operators and the member separator
pub open spec fn item_ok(i: ExpressionParserItem) -> bool {
    match i {
        ExpressionParserItem::SToken(t) => t is Identifier || t is Operator || (t is Separator && t->Separator_0 == '.'),
        ExpressionParserItem::SExpression(_) => true,
    }
}

pub open spec fn stack_ok(s: Seq<ExpressionParserItem>) -> bool {
    forall|i: int| 0 <= i < s.len() ==> item_ok(#[trigger] s[i])
}

/// the unread part of the text: the termination measure of the recursive descent
pub open spec fn lx_left(l: ExpressionLexer) -> int {
    l.text.len() - l.pos
}

/// priority classes of the operators (DESIGN appendix A.3, fixed before the code): a lower number binds tighter
pub open spec fn op_prio(o: Operator) -> int {
    match o {
        Operator::Not => 3,
        Operator::And | Operator::Multiply | Operator::Divide | Operator::Modulus => 5,
        Operator::Or | Operator::Plus | Operator::Minus => 6,
        Operator::Less | Operator::LessEqual | Operator::Greater | Operator::GreaterEqual => 9,
        Operator::Equal | Operator::NotEqual => 10,
        Operator::Assign | Operator::AssignUndefined => 16,
    }
}

/// the prefix '!' and the assignments nest to the right; every other class groups left to right
pub open spec fn prio_rtl(p: int) -> bool {
    p == 3 || p == 16
}

/// priority of a stack item: operators by class, the member separator binds tightest, operands have none (0xff)
pub open spec fn item_prio(i: ExpressionParserItem) -> int {
    match i {
        ExpressionParserItem::SToken(t) => match t {
            Token::Operator(o) => op_prio(o),
            Token::Separator(c) => if c == '.' { 2 } else { 0xff },
            _ => 0xff,
        },
        ExpressionParserItem::SExpression(_) => 0xff,
    }
}

/// b is the position that has to be folded first among the items [0, upto): an operator of the tightest class present,
/// the leftmost of its class if the class groups left to right, the rightmost if it nests to the right
pub open spec fn is_best(s: Seq<ExpressionParserItem>, upto: int, b: int, p: int) -> bool {
    &&& 0 <= b < upto <= s.len()
    &&& p < 0xff
    &&& item_prio(s[b]) == p
    &&& forall|j: int| 0 <= j < upto ==> #[trigger] item_prio(s[j]) >= p
    &&& forall|j: int| 0 <= j < b && !prio_rtl(p) ==> #[trigger] item_prio(s[j]) > p
    &&& forall|j: int| b < j < upto && prio_rtl(p) ==> #[trigger] item_prio(s[j]) > p
}

/// nothing to fold among the items [0, upto)
pub open spec fn no_operator(s: Seq<ExpressionParserItem>, upto: int) -> bool {
    forall|j: int| 0 <= j < upto ==> #[trigger] item_prio(s[j]) == 0xff
}
