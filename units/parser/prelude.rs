// TRUSTED stand-ins for the expression tree the parser builds.  The node types of src/expression_engine/expressions.rs
// are opaque here: the parser only constructs them.  Each constructor records the shape of what it builds in a ghost
// tree (`tree()`), so that contracts of the parser can talk about grouping.

pub type SourceId = u32;

#[verifier::external_body]
pub struct DataArc {
    _p: (),
}

/// `#[derive(Clone)]` of Operator (the enum itself is extracted from src/expression_engine/lexer.rs)
impl Clone for Operator {
    #[verifier::external_body]
    fn clone(&self) -> (r: Self)
        ensures
            r == *self,
    {
        unimplemented!()
    }
}

/// shape of an expression
pub enum ETree {
    /// constant, variable, method call, array, map, index, sequence: not looked into
    Atom(int),
    Bin(Operator, Box<ETree>, Box<ETree>),
    Assign(Box<ETree>, Box<ETree>),
    AssignUndefined(Box<ETree>, Box<ETree>),
    Not(Box<ETree>),
    Member(Box<ETree>, int),
}

pub trait Expression {
    spec fn tree(&self) -> ETree;
}

#[verifier::external_body]
pub struct ExpressionConstant {
    _p: (),
}

impl Expression for ExpressionConstant {
    uninterp spec fn tree(&self) -> ETree;
}

#[verifier::external_body]
pub struct ExpressionArray {
    _p: (),
}

impl Expression for ExpressionArray {
    uninterp spec fn tree(&self) -> ETree;
}

#[verifier::external_body]
pub struct ExpressionMap {
    _p: (),
}

impl Expression for ExpressionMap {
    uninterp spec fn tree(&self) -> ETree;
}

#[verifier::external_body]
pub struct ExpressionIndex {
    _p: (),
}

impl Expression for ExpressionIndex {
    uninterp spec fn tree(&self) -> ETree;
}

#[verifier::external_body]
pub struct ExpressionMemberAccess {
    _p: (),
}

impl Expression for ExpressionMemberAccess {
    uninterp spec fn tree(&self) -> ETree;
}

#[verifier::external_body]
pub struct ExpressionAssign {
    _p: (),
}

impl Expression for ExpressionAssign {
    uninterp spec fn tree(&self) -> ETree;
}

#[verifier::external_body]
pub struct ExpressionAssignUndefined {
    _p: (),
}

impl Expression for ExpressionAssignUndefined {
    uninterp spec fn tree(&self) -> ETree;
}

#[verifier::external_body]
pub struct ExpressionOperator {
    _p: (),
}

impl Expression for ExpressionOperator {
    uninterp spec fn tree(&self) -> ETree;
}

#[verifier::external_body]
pub struct ExpressionNot {
    _p: (),
}

impl Expression for ExpressionNot {
    uninterp spec fn tree(&self) -> ETree;
}

#[verifier::external_body]
pub struct ExpressionSequence {
    _p: (),
}

impl Expression for ExpressionSequence {
    uninterp spec fn tree(&self) -> ETree;
}

impl ExpressionConstant {
    #[verifier::external_body]
    pub fn new(d: Data) -> (r: ExpressionConstant)
        ensures
            r.tree() is Atom,
    {
        unimplemented!()
    }
}

impl ExpressionArray {
    #[verifier::external_body]
    pub fn new(array: Vec<Box<dyn Expression>>) -> (r: ExpressionArray)
        ensures
            r.tree() is Atom,
    {
        unimplemented!()
    }
}

impl ExpressionMap {
    #[verifier::external_body]
    pub fn new(map: Vec<(Box<dyn Expression>, Box<dyn Expression>)>) -> (r: ExpressionMap)
        ensures
            r.tree() is Atom,
    {
        unimplemented!()
    }
}

impl ExpressionIndex {
    #[verifier::external_body]
    pub fn new(left: Box<dyn Expression>, index: Box<dyn Expression>) -> (r: ExpressionIndex)
        ensures
            r.tree() is Atom,
    {
        unimplemented!()
    }
}

impl ExpressionSequence {
    #[verifier::external_body]
    pub fn new(expressions: Vec<Box<dyn Expression>>) -> (r: ExpressionSequence)
        ensures
            r.tree() is Atom,
    {
        unimplemented!()
    }
}

impl ExpressionMemberAccess {
    #[verifier::external_body]
    pub fn new(left: Box<dyn Expression>, member_name: String) -> (r: ExpressionMemberAccess)
        ensures
            r.tree() is Member,
            *r.tree()->Member_0 == left.tree(),
    {
        unimplemented!()
    }
}

impl ExpressionAssign {
    #[verifier::external_body]
    pub fn new(left: Box<dyn Expression>, right: Box<dyn Expression>) -> (r: ExpressionAssign)
        ensures
            r.tree() == ETree::Assign(Box::new(left.tree()), Box::new(right.tree())),
    {
        unimplemented!()
    }
}

impl ExpressionAssignUndefined {
    #[verifier::external_body]
    pub fn new(left: Box<dyn Expression>, right: Box<dyn Expression>) -> (r: ExpressionAssignUndefined)
        ensures
            r.tree() == ETree::AssignUndefined(Box::new(left.tree()), Box::new(right.tree())),
    {
        unimplemented!()
    }
}

impl ExpressionOperator {
    #[verifier::external_body]
    pub fn new(op: Operator, left: Box<dyn Expression>, right: Box<dyn Expression>) -> (r: ExpressionOperator)
        ensures
            r.tree() == ETree::Bin(op, Box::new(left.tree()), Box::new(right.tree())),
    {
        unimplemented!()
    }
}

impl ExpressionNot {
    #[verifier::external_body]
    pub fn new(right: Box<dyn Expression>) -> (r: ExpressionNot)
        ensures
            r.tree() == ETree::Not(Box::new(right.tree())),
    {
        unimplemented!()
    }
}

/// variables and methods keep the two fields the parser reads
pub struct ExpressionVariable {
    pub name: String,
}

impl Expression for ExpressionVariable {
    uninterp spec fn tree(&self) -> ETree;
}

impl ExpressionVariable {
    #[verifier::external_body]
    pub fn new(name: &str) -> (r: ExpressionVariable)
        ensures
            r.tree() is Atom,
    {
        unimplemented!()
    }
}

pub struct ExpressionMethod {
    pub arguments: Vec<Box<dyn Expression>>,
    pub method: String,
}

impl Expression for ExpressionMethod {
    uninterp spec fn tree(&self) -> ETree;
}

impl ExpressionMethod {
    #[verifier::external_body]
    pub fn new(method: &str, arguments: Vec<Box<dyn Expression>>) -> (r: ExpressionMethod)
        ensures
            r.tree() is Atom,
    {
        unimplemented!()
    }

    #[verifier::external_body]
    pub fn get_copy(&self) -> (r: Box<ExpressionMethod>) {
        unimplemented!()
    }
}

/// the `Any` downcast of src/expression_engine/expressions.rs
#[verifier::external_body]
pub fn get_expression_as_variable(ec: &dyn Expression) -> (r: Option<&ExpressionVariable>) {
    unimplemented!()
}

#[verifier::external_body]
pub fn get_expression_as_method(ec: &dyn Expression) -> (r: Option<&ExpressionMethod>) {
    unimplemented!()
}

/// `f64::is_sign_negative`
#[verifier::external_body]
pub fn verif_f64_is_sign_negative(d: f64) -> (r: bool) {
    d.is_sign_negative()
}

/// R19: `Box::new(node)` coerced to `Box<dyn Expression>`: the same node behind the trait object
#[verifier::external_body]
pub fn verif_boxed<T: Expression + 'static>(x: T) -> (r: Box<dyn Expression>)
    ensures
        r.tree() == x.tree(),
{
    Box::new(x)
}
