pub type ExecutableContentId = u32;
pub type InvokeId = String;
pub type SessionId = u32;

// ---------------------------------------------------------------------------------------------------------------
// TRUSTED stand-ins.  <send>/<cancel> hand expressions to the data model and values to the event I/O processors;
// this unit verifies what SendParameters::execute / Cancel::execute do with the answers.
// ---------------------------------------------------------------------------------------------------------------

/// the data-model value type: opaque; `text()` is its Display form, `empty()` is Data::is_empty()
#[verifier::external_body]
pub struct Data {
    _p: (),
}

impl Data {
    pub uninterp spec fn text(&self) -> Seq<char>;

    pub uninterp spec fn empty(&self) -> bool;

    #[verifier::external_body]
    pub fn is_empty(&self) -> (r: bool)
        ensures
            r == self.empty(),
    {
        unimplemented!()
    }

    /// Display::to_string
    #[verifier::external_body]
    pub fn to_string(&self) -> (r: String)
        ensures
            r@ == self.text(),
    {
        unimplemented!()
    }

    #[verifier::external_body]
    pub fn clone(&self) -> (r: Data)
        ensures
            r == *self,
    {
        unimplemented!()
    }
}

/// R19: `Data::String(s)`
pub uninterp spec fn data_string(s: Seq<char>) -> Data;

#[verifier::external_body]
pub fn verif_data_string(s: String) -> (r: Data)
    ensures
        r == data_string(s@),
{
    unimplemented!()
}

/// `Arc<Mutex<Data>>`: `val()` is the value seen under the lock (`.lock().unwrap()` is rewritten to `.vget()`,
/// regex rule of this unit; lock poisoning / blocking is C11/C17's subject, not modelled)
#[verifier::external_body]
pub struct DataArc {
    _p: (),
}

impl DataArc {
    pub uninterp spec fn val(&self) -> Data;

    #[verifier::external_body]
    pub fn vget(&self) -> (r: &Data)
        ensures
            *r == self.val(),
    {
        unimplemented!()
    }
}

/// timer guard of a scheduled send (timer::Guard)
#[verifier::external_body]
pub struct Guard {
    _p: (),
}

impl Guard {
    #[verifier::external_body]
    pub fn ignore(self) {
        unimplemented!()
    }
}

/// handle of an event I/O processor (`Arc<Mutex<Box<dyn EventIOProcessor>>>`)
#[verifier::external_body]
pub struct IopHandle {
    _p: (),
}

impl IopHandle {
    /// the processor type name this handle was looked up with
    pub uninterp spec fn type_name(&self) -> Seq<char>;

    #[verifier::external_body]
    pub fn clone(&self) -> (r: IopHandle)
        ensures
            r == *self,
    {
        unimplemented!()
    }
}

/// `GlobalDataArc` (only cloned into the timer action)
#[verifier::external_body]
pub struct GlobalDataArc {
    _p: (),
}

impl GlobalDataArc {
    #[verifier::external_body]
    pub fn clone(&self) -> (r: GlobalDataArc)
        ensures
            r == *self,
    {
        unimplemented!()
    }
}

/// the part of the session data <send>/<cancel>/<invoke> touch directly
pub struct GlobalData {
    /// send id -> timer guard of the not yet delivered delayed sends
    pub delayed_send: HashMap<String, Guard>,
    pub session_id: SessionId,
    pub actions: ActionWrapper,
    pub executor: Option<Box<FsmExecutor>>,
    /// invoke id -> child session started by an <invoke> of this session
    pub child_sessions: HashMap<InvokeId, ScxmlSession>,
}

pub type StateId = u32;
pub type DocumentId = u32;

/// the host's custom actions (copied into a child session)
#[verifier::external_body]
pub struct ActionWrapper {
    _p: (),
}

impl ActionWrapper {
    #[verifier::external_body]
    pub fn get_copy(&self) -> (r: ActionWrapper) {
        unimplemented!()
    }
}

/// one request to the executor to start a child session (ghost)
pub struct Start {
    /// true: the document text was given inline (<content>), false: a source URI (src / srcexpr)
    pub inline: bool,
    pub source: Seq<char>,
    pub data: Seq<ParamPair>,
    pub parent: Option<SessionId>,
    pub invoke_id: String,
}

// TRUSTED stand-in: the executor that parses the child document and starts its session thread (threads, XML reader)
#[verifier::external_body]
pub struct FsmExecutor {
    _p: (),
}

impl FsmExecutor {
    pub uninterp spec fn started(&self) -> Seq<Start>;

    #[verifier::external_body]
    pub fn execute_with_data_from_xml(&mut self, xml: &str, actions: ActionWrapper, data: &[ParamPair], parent: Option<SessionId>, invoke_id: &InvokeId, finish_mode: FinishMode) -> (r: Result<ScxmlSession, String>)
        ensures
            final(self).started() == old(self).started().push(Start { inline: true, source: xml@, data: data@, parent: parent, invoke_id: *invoke_id }),
    {
        unimplemented!()
    }

    #[verifier::external_body]
    pub fn execute_with_data(&mut self, uri: &str, actions: ActionWrapper, data: &[ParamPair], parent: Option<SessionId>, invoke_id: &InvokeId) -> (r: Result<ScxmlSession, String>)
        ensures
            final(self).started() == old(self).started().push(Start { inline: false, source: uri@, data: data@, parent: parent, invoke_id: *invoke_id }),
    {
        unimplemented!()
    }
}

/// R19: `global.executor.as_mut().unwrap()`: panics when the session has no executor
#[verifier::external_body]
pub fn verif_executor(e: &mut Option<Box<FsmExecutor>>) -> (r: &mut FsmExecutor)
    requires
        old(e).is_some(),
    ensures
        *r == *old(e).unwrap(),
        final(e).is_some(),
        *final(e).unwrap() == *final(r),
{
    unimplemented!()
}

/// R19: the type test of <invoke>: `type_name.eq(SHORT)`, `type_name.is_empty() || (type_name.starts_with(LONG) && type_name.len() <= LONG.len() + 1)`
pub uninterp spec fn scxml_invoke_type(t: Seq<char>) -> bool;

#[verifier::external_body]
pub fn verif_is_scxml_invoke_type(type_name: &String) -> (r: bool)
    ensures
        r == scxml_invoke_type(type_name@),
{
    unimplemented!()
}

#[verifier::external_body]
pub fn verif_string_is(s: &String, lit: &str) -> (r: bool)
    ensures
        r == (s@ == lit@),
{
    unimplemented!()
}

/// R19: the closure handed to the timer
/// `move || { if let Some(sid) = &send_id_clone { global_clone.lock().unwrap().delayed_send.remove(sid); }
///            iopc.lock().unwrap().send(&global_clone, target_str.as_str(), event.clone()); }`
/// is replaced by this value, which records what it captured; its body is NOT verified (it runs on the timer thread)
pub struct TimerAction {
    pub processor: IopHandle,
    pub send_id: Option<String>,
    pub target: String,
    pub event: Event,
}

#[verifier::external_body]
pub fn verif_timer_action(global_clone: GlobalDataArc, send_id_clone: Option<String>, iopc: IopHandle, target_str: String, event: Event) -> (r: TimerAction)
    ensures
        r.processor == iopc,
        r.send_id == send_id_clone,
        r.target == target_str,
        r.event == event,
{
    unimplemented!()
}

/// what the data model / platform was asked to do, in order (ghost)
pub enum Sv {
    /// get_expression_alternative_value(value, expr) -> Ok(v) / Err
    Alt(Data, Data, Option<Data>),
    /// set(location, value, allow_undefined)
    Set(Seq<char>, Data, bool),
    /// evaluate_content(content) -> Some(v) / None
    Content(Option<Data>),
    /// evaluate_params(params): the pairs appended
    Params(Seq<ParamPair>),
    /// get_by_location(name) -> Ok(v) / Err
    Location(Seq<char>, Option<Data>),
    /// execute(expr) -> Ok(v) / Err
    Exec(Data, Option<Data>),
    /// internal_error_execution_for_event(send_id, invoke_id): error.execution placed on the internal queue
    ErrorExecution(Option<String>, Option<String>),
    /// log(message): the <log> element's output
    Log(Seq<char>),
    /// send(processor type, target, event) through an event I/O processor, with its answer
    Send(Seq<char>, Data, Event, bool),
}

pub open spec fn opt_val(r: Result<DataArc, String>) -> Option<Data> {
    match r {
        Ok(a) => Some(a.val()),
        Err(_) => None,
    }
}

pub open spec fn opt_arc_val(r: Option<DataArc>) -> Option<Data> {
    match r {
        Some(a) => Some(a.val()),
        None => None,
    }
}

// TRUSTED stand-in: the data model and platform services as <send>/<cancel> see them; every call appends one entry
// to the ghost log
pub trait Datamodel {
    spec fn trace(&self) -> Seq<Sv>;

    spec fn gview(&self) -> GlobalData;

    /// models `global().lock().unwrap()` (rewrite R5)
    fn gd(&mut self) -> (r: &mut GlobalData)
        ensures
            *r == old(self).gview(),
            final(self).gview() == *final(r),
            final(self).trace() == old(self).trace();

    fn get_expression_alternative_value(&mut self, value: &Data, value_expression: &Data) -> (r: Result<DataArc, String>)
        ensures
            final(self).trace() == old(self).trace().push(Sv::Alt(*value, *value_expression, opt_val(r))),
            final(self).gview() == old(self).gview();

    fn set(&mut self, name: &str, data: Data, allow_undefined: bool)
        ensures
            final(self).trace() == old(self).trace().push(Sv::Set(name@, data, allow_undefined)),
            final(self).gview() == old(self).gview();

    fn evaluate_content(&mut self, content: &Option<CommonContent>) -> (r: Option<DataArc>)
        ensures
            final(self).trace() == old(self).trace().push(Sv::Content(opt_arc_val(r))),
            final(self).gview() == old(self).gview();

    fn evaluate_params(&mut self, params: &Option<Vec<Parameter>>, values: &mut Vec<ParamPair>)
        ensures
            old(values)@.is_prefix_of(final(values)@),
            final(self).trace() == old(self).trace().push(Sv::Params(final(values)@.subrange(old(values)@.len() as int, final(values)@.len() as int))),
            final(self).gview() == old(self).gview();

    fn get_by_location(&mut self, location: &str) -> (r: Result<DataArc, String>)
        ensures
            final(self).trace() == old(self).trace().push(Sv::Location(location@, opt_val(r))),
            final(self).gview() == old(self).gview();

    fn execute(&mut self, script: &Data) -> (r: Result<DataArc, String>)
        ensures
            final(self).trace() == old(self).trace().push(Sv::Exec(*script, opt_val(r))),
            final(self).gview() == old(self).gview();

    fn internal_error_execution_for_event(&mut self, send_id: &Option<String>, invoke_id: &Option<InvokeId>)
        ensures
            final(self).trace() == old(self).trace().push(Sv::ErrorExecution(*send_id, *invoke_id)),
            final(self).gview() == old(self).gview();

    fn get_io_processor(&mut self, name: &str) -> (r: Option<IopHandle>)
        ensures
            final(self).trace() == old(self).trace(),
            final(self).gview() == old(self).gview(),
            r.is_some() ==> r.unwrap().type_name() == name@;

    fn global_s(&self) -> (r: &GlobalDataArc);

    fn log(&mut self, msg: &str)
        ensures
            final(self).trace() == old(self).trace().push(Sv::Log(msg@)),
            final(self).gview() == old(self).gview();

    fn send(&mut self, ioc_processor: &str, target: &Data, event: Event) -> (r: bool)
        ensures
            final(self).trace() == old(self).trace().push(Sv::Send(ioc_processor@, *target, event, r)),
            final(self).gview() == old(self).gview();
}

// TRUSTED stand-in: the model; only the invoke id of the caller and the timer are used here
pub struct Fsm {
    pub caller_invoke_id: Option<InvokeId>,
}

impl Fsm {
    /// Fsm::schedule(delay_ms, closure): arms the session's timer (timer crate, own thread); the closure literal is
    /// replaced by a TimerAction value (R19), what is scheduled is pinned by a site assertion at the call
    #[verifier::external_body]
    pub fn schedule(&self, delay_ms: i64, cb: TimerAction) -> (r: Option<Guard>)
        requires
            delay_ms > 0,
    {
        unimplemented!()
    }
}

/// `#[derive(Clone)]` of Event / ParamPair
impl Clone for Event {
    #[verifier::external_body]
    fn clone(&self) -> (r: Self)
        ensures
            r == *self,
    {
        unimplemented!()
    }
}

impl Clone for ParamPair {
    #[verifier::external_body]
    fn clone(&self) -> (r: Self)
        ensures
            r == *self,
    {
        unimplemented!()
    }
}

/// R19: `format!("{}.{}", &self.parent_state_name, PLATFORM_ID_COUNTER.fetch_add(1, Ordering::Relaxed))`:
/// "<state name>.<platform counter>", a fresh counter value each call
pub uninterp spec fn gen_id_text(state_name: Seq<char>, n: int) -> Seq<char>;

#[verifier::external_body]
pub fn verif_generated_id(parent_state_name: &String) -> (r: String)
    ensures
        exists|n: int| r@ == gen_id_text(parent_state_name@, n),
{
    unimplemented!()
}

/// R19: `x.to_string().eq(SCXML_TARGET_INTERNAL)`
#[verifier::external_body]
pub fn verif_text_is(d: &Data, s: &str) -> (r: bool)
    ensures
        r == (d.text() == s@),
{
    unimplemented!()
}

/// parse_duration_to_milliseconds (src/executable_content.rs; lexer based, bounded Kani harness only): a function of
/// the text
pub uninterp spec fn duration_ms(text: Seq<char>) -> int;

#[verifier::external_body]
pub fn parse_duration_to_milliseconds(d: &str) -> (r: i64)
    ensures
        r == duration_ms(d@),
{
    unimplemented!()
}

/// R19: `chrono::Duration::try_milliseconds(delay_ms).and_then(|d| chrono::Utc::now().checked_add_signed(d)).is_some()`
pub uninterp spec fn due_time_representable(delay_ms: int) -> bool;

#[verifier::external_body]
pub fn verif_delay_representable(delay_ms: i64) -> (r: bool)
    ensures
        r == due_time_representable(delay_ms as int),
{
    unimplemented!()
}

pub mod trusted_axioms {
    use super::*;

    /// A4: `String` hashes and compares consistently (vstd ships this axiom for the integer types only)
    #[verifier::external_body]
    pub broadcast proof fn axiom_string_key_model()
        ensures
            #[trigger] vstd::std_specs::hash::obeys_key_model::<String>(),
    {
    }
}

/// R19: `"literal".to_string()` / `CONST.to_string()` on a &str
#[verifier::external_body]
pub fn verif_to_string(s: &str) -> (r: String)
    ensures
        r@ == s@,
{
    unimplemented!()
}

/// `str_to_source(text)`: wraps a literal id / location as a data-model source value
pub uninterp spec fn source_of(text: Seq<char>) -> Data;

#[verifier::external_body]
pub fn verif_str_to_source(s: &str) -> (r: Data)
    ensures
        r == source_of(s@),
{
    unimplemented!()
}
