// What <send> and <cancel> are required to do with the answers of the data model (C12, C15; the delayed part also
// serves as the per-call half of C16, which stays not_applicable as a whole).

/// the last entry of the log is error.execution for this send id / invoke id
pub open spec fn ends_with_error_execution(l: Seq<Sv>, send_id: Option<String>, invoke_id: Option<String>) -> bool {
    l.len() > 0 && l.last() == Sv::ErrorExecution(send_id, invoke_id)
}

/// no event left the session between the two log states (neither handed to a processor nor scheduled)
pub open spec fn nothing_sent(l0: Seq<Sv>, l1: Seq<Sv>) -> bool {
    l0.is_prefix_of(l1) && forall|i: int| l0.len() <= i < l1.len() ==> !(#[trigger] l1[i] is Send)
}
