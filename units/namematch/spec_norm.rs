// C19, descriptor normalisation: 'e', 'e.' and 'e.*' denote the same descriptor; the reader stores the form without
// the redundant suffixes, which is what Transition::nameMatch compares names with.

pub open spec fn ends_dot(b: Seq<u8>) -> bool {
    b.len() >= 1 && b[b.len() - 1] == 0x2Eu8
}

pub open spec fn ends_dot_star(b: Seq<u8>) -> bool {
    b.len() >= 2 && b[b.len() - 2] == 0x2Eu8 && b[b.len() - 1] == 0x2Au8
}

/// t is a concatenation of the redundant suffixes "." and ".*"
pub open spec fn redundant_suffixes(t: Seq<u8>) -> bool
    decreases t.len(),
{
    t.len() == 0 || (ends_dot(t) && redundant_suffixes(t.subrange(0, t.len() - 1)))
        || (ends_dot_star(t) && redundant_suffixes(t.subrange(0, t.len() - 2)))
}

/// r is the normal form of the descriptor text s: s without its redundant suffixes
pub open spec fn normal_form_of(r: Seq<u8>, s: Seq<u8>) -> bool {
    r.is_prefix_of(s) && redundant_suffixes(s.subrange(r.len() as int, s.len() as int)) && !ends_dot(r) && !ends_dot_star(r)
}

/// prepending one more suffix piece to a run of redundant suffixes gives a run of redundant suffixes
pub proof fn lemma_redundant_prepend(piece: Seq<u8>, t: Seq<u8>)
    requires
        piece == seq![0x2Eu8] || piece == seq![0x2Eu8, 0x2Au8],
        redundant_suffixes(t),
    ensures
        redundant_suffixes(piece + t),
    decreases t.len(),
{
    let u = piece + t;
    assert(redundant_suffixes(Seq::<u8>::empty()));
    if t.len() == 0 {
        assert(u =~= piece);
        if piece == seq![0x2Eu8] {
            assert(u.subrange(0, u.len() - 1) =~= Seq::<u8>::empty());
            assert(ends_dot(u) && redundant_suffixes(u.subrange(0, u.len() - 1)));
        } else {
            assert(u.subrange(0, u.len() - 2) =~= Seq::<u8>::empty());
            assert(ends_dot_star(u) && redundant_suffixes(u.subrange(0, u.len() - 2)));
        }
    } else if ends_dot(t) && redundant_suffixes(t.subrange(0, t.len() - 1)) {
        lemma_redundant_prepend(piece, t.subrange(0, t.len() - 1));
        assert(u.subrange(0, u.len() - 1) =~= piece + t.subrange(0, t.len() - 1));
        assert(u[u.len() - 1] == t[t.len() - 1]);
        assert(ends_dot(u) && redundant_suffixes(u.subrange(0, u.len() - 1)));
    } else {
        assert(ends_dot_star(t) && redundant_suffixes(t.subrange(0, t.len() - 2)));
        lemma_redundant_prepend(piece, t.subrange(0, t.len() - 2));
        assert(u.subrange(0, u.len() - 2) =~= piece + t.subrange(0, t.len() - 2));
        assert(u[u.len() - 1] == t[t.len() - 1] && u[u.len() - 2] == t[t.len() - 2]);
        assert(ends_dot_star(u) && redundant_suffixes(u.subrange(0, u.len() - 2)));
    }
    assert(redundant_suffixes(u));
}
