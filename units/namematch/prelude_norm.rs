// TRUSTED: `str::strip_suffix` for the two literal suffixes the reader strips, at byte level ('.' = 0x2E, '*' = 0x2A).

/// R19: `rt.strip_suffix(".*")`
#[verifier::external_body]
pub fn verif_strip_suffix_dot_star<'a>(s: &'a str) -> (r: Option<&'a str>)
    ensures
        match r {
            Some(x) => s.spec_bytes() == x.spec_bytes() + seq![0x2Eu8, 0x2Au8],
            None => !ends_dot_star(s.spec_bytes()),
        },
{
    s.strip_suffix(".*")
}

/// R19: `rt.strip_suffix(".")`
#[verifier::external_body]
pub fn verif_strip_suffix_dot<'a>(s: &'a str) -> (r: Option<&'a str>)
    ensures
        match r {
            Some(x) => s.spec_bytes() == x.spec_bytes() + seq![0x2Eu8],
            None => !ends_dot(s.spec_bytes()),
        },
{
    s.strip_suffix(".")
}

/// R19: `rt.to_string()`
#[verifier::external_body]
pub fn verif_str_to_string(s: &str) -> (r: String)
    ensures
        encode_utf8(r@) == s.spec_bytes(),
{
    s.to_string()
}
