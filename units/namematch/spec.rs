/// C19 at byte level: descriptor d matches name n iff n == d or n starts with d followed by '.'
pub open spec fn desc_matches(d: Seq<u8>, n: Seq<u8>) -> bool {
    d.is_prefix_of(n) && (d.len() == n.len() || n[d.len() as int] == 0x2Eu8)
}

pub open spec fn any_desc_matches(ds: Seq<String>, n: Seq<u8>) -> bool {
    exists|i: int| 0 <= i < ds.len() && desc_matches(encode_utf8(#[trigger] ds[i]@), n)
}

/// index of the first '.' in b, or b.len() if there is none
pub open spec fn first_dot(b: Seq<u8>) -> int
    decreases b.len(),
{
    if b.len() == 0 {
        0
    } else if b[0] == 0x2Eu8 {
        0
    } else {
        1 + first_dot(b.subrange(1, b.len() as int))
    }
}

/// the dot-separated tokens of b (an empty string has one empty token, "a." has tokens "a" and "")
pub open spec fn tokens(b: Seq<u8>) -> Seq<Seq<u8>>
    decreases b.len(),
{
    let i = first_dot(b);
    if !(0 <= i && i < b.len()) {
        seq![b]
    } else {
        seq![b.subrange(0, i)] + tokens(b.subrange(i + 1, b.len() as int))
    }
}

pub proof fn lemma_first_dot(b: Seq<u8>)
    ensures
        0 <= first_dot(b) <= b.len(),
        forall|k: int| 0 <= k < first_dot(b) ==> b[k] != 0x2Eu8,
        first_dot(b) < b.len() ==> b[first_dot(b)] == 0x2Eu8,
    decreases b.len(),
{
    if b.len() > 0 && b[0] != 0x2Eu8 {
        let r = b.subrange(1, b.len() as int);
        lemma_first_dot(r);
        assert forall|k: int| 0 <= k < first_dot(b) implies b[k] != 0x2Eu8 by {
            if k > 0 {
                assert(r[k - 1] == b[k]);
            }
        }
        assert(first_dot(b) < b.len() ==> b[first_dot(b)] == r[first_dot(r)]);
    }
}

/// first_dot is characterised by its three properties
pub proof fn lemma_first_dot_unique(b: Seq<u8>, i: int)
    requires
        0 <= i <= b.len(),
        forall|k: int| 0 <= k < i ==> b[k] != 0x2Eu8,
        i < b.len() ==> b[i] == 0x2Eu8,
    ensures
        first_dot(b) == i,
{
    lemma_first_dot(b);
    let f = first_dot(b);
    if f < i {
        assert(b[f] == 0x2Eu8);
    } else if f > i {
        assert(b[i] != 0x2Eu8);
    }
}

pub proof fn lemma_tokens_nonempty(b: Seq<u8>)
    ensures tokens(b).len() >= 1, tokens(b)[0] == b.subrange(0, first_dot(b)),
            first_dot(b) < b.len() ==> tokens(b).len() >= 2,
    decreases b.len(),
{
    lemma_first_dot(b);
    let i = first_dot(b);
    if i < b.len() {
        lemma_tokens_nonempty(b.subrange(i + 1, b.len() as int));
    } else {
        assert(b.subrange(0, i) == b);
    }
}

