// Property-level lemmas. Each proof fn is one obligation.

// serves: C19
/// C19, property text: "one descriptor's dot-separated tokens are a prefix of the name's tokens"
/// is the same as: the name equals the descriptor or continues it with a '.'
pub proof fn lemma_token_prefix_iff_desc_matches(d: Seq<u8>, n: Seq<u8>)
    ensures
        tokens(d).is_prefix_of(tokens(n)) <==> desc_matches(d, n),
    decreases d.len(),
{
    lemma_first_dot(d);
    lemma_first_dot(n);
    lemma_tokens_nonempty(d);
    lemma_tokens_nonempty(n);
    let i = first_dot(d);
    let j = first_dot(n);
    let td = tokens(d);
    let tn = tokens(n);
    if i >= d.len() {
        // d has no dot: tokens(d) == [d]
        assert(td == seq![d]);
        if td.is_prefix_of(tn) {
            assert(tn[0] == td[0]);
            assert(n.subrange(0, j) == d);
            assert(j == d.len());
            assert(d.is_prefix_of(n));
        }
        if desc_matches(d, n) {
            assert(n.subrange(0, d.len() as int) == d);
            assert forall|k: int| 0 <= k < d.len() implies n[k] != 0x2Eu8 by {
                assert(n[k] == d[k]);
            }
            lemma_first_dot_unique(n, d.len() as int);
            assert(tn[0] == d);
            assert(td.is_prefix_of(tn));
        }
    } else {
        let dr = d.subrange(i + 1, d.len() as int);
        assert(td == seq![d.subrange(0, i)] + tokens(dr));
        lemma_tokens_nonempty(dr);
        if td.is_prefix_of(tn) {
            assert(tn.len() >= 2);
            assert(j < n.len());
            assert(tn[0] == td[0]);
            assert(n.subrange(0, j) == d.subrange(0, i));
            assert(n.subrange(0, j).len() == d.subrange(0, i).len());
            assert(j == i);
            let nr = n.subrange(j + 1, n.len() as int);
            assert(tn == seq![n.subrange(0, j)] + tokens(nr));
            assert(tokens(dr) == td.subrange(1, td.len() as int));
            assert(tokens(nr) == tn.subrange(1, tn.len() as int));
            assert(tokens(dr).is_prefix_of(tokens(nr))) by {
                assert(tokens(dr).len() <= tokens(nr).len());
                assert forall|k: int| 0 <= k < tokens(dr).len() implies tokens(dr)[k] == tokens(nr)[k] by {
                    assert(td[k + 1] == tn[k + 1]);
                }
            }
            lemma_token_prefix_iff_desc_matches(dr, nr);
            assert(desc_matches(dr, nr));
            assert(d.is_prefix_of(n)) by {
                assert(d.len() <= n.len());
                assert forall|k: int| 0 <= k < d.len() implies d[k] == n[k] by {
                    if k < i {
                        assert(d.subrange(0, i)[k] == n.subrange(0, j)[k]);
                    } else if k == i {
                    } else {
                        assert(dr[k - i - 1] == nr[k - i - 1]);
                    }
                }
            }
            assert(d.len() == n.len() || n[d.len() as int] == 0x2Eu8) by {
                if dr.len() != nr.len() {
                    assert(nr[dr.len() as int] == n[d.len() as int]);
                }
            }
        }
        if desc_matches(d, n) {
            assert forall|k: int| 0 <= k < i implies n[k] != 0x2Eu8 by {
                assert(n[k] == d[k]);
            }
            assert(n[i] == d[i]);
            lemma_first_dot_unique(n, i);
            assert(j == i);
            let nr = n.subrange(j + 1, n.len() as int);
            assert(tn == seq![n.subrange(0, j)] + tokens(nr));
            assert(n.subrange(0, j) == d.subrange(0, i));
            assert(desc_matches(dr, nr)) by {
                assert(dr.is_prefix_of(nr)) by {
                    assert forall|k: int| 0 <= k < dr.len() implies dr[k] == nr[k] by {
                        assert(d[k + i + 1] == n[k + i + 1]);
                    }
                }
                if dr.len() != nr.len() {
                    assert(nr[dr.len() as int] == n[d.len() as int]);
                }
            }
            lemma_token_prefix_iff_desc_matches(dr, nr);
            assert(td.is_prefix_of(tn)) by {
                assert forall|k: int| 0 <= k < td.len() implies td[k] == tn[k] by {
                    if k > 0 {
                        assert(td[k] == tokens(dr)[k - 1]);
                        assert(tn[k] == tokens(nr)[k - 1]);
                    }
                }
            }
        }
    }
}
