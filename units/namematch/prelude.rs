// TRUSTED (A4, A6): std string functions without vstd specification, at byte level.
pub type TransitionId = u32;
pub type StateId = u32;
pub type DocumentId = u32;
pub type ExecutableContentId = u32;

/// R19: `name.starts_with(e)` (generic over the unstable `Pattern` trait, which an assume_specification cannot
/// name) is routed through this monomorphic wrapper whose body is that very call: byte-prefix test.
#[verifier::external_body]
pub fn verif_str_starts_with(s: &str, p: &String) -> (r: bool)
    ensures
        r == encode_utf8(p@).is_prefix_of(s.spec_bytes()),
{
    s.starts_with(p)
}

pub mod trusted_axioms {
    use super::*;

    #[verifier::external_body]
    pub broadcast proof fn axiom_str_len_fits(s: &str)
        ensures
            #[trigger] s.spec_bytes().len() <= usize::MAX,
    {
    }
}

broadcast use trusted_axioms::axiom_str_len_fits;

/// String::len is the byte length
pub assume_specification [std::string::String::len] (s: &std::string::String) -> (r: usize)
    ensures
        r == encode_utf8(s@).len();
