pub type StateId = u32;

// TRUSTED stand-ins: value handles that only occur as payload types of the Data enum in this unit
#[verifier::external_body]
pub struct DataArc {
    _p: (),
}

#[verifier::external_body]
pub struct SourceCode {
    _p: (),
}

/// the part of GlobalData that `In` reads: the active configuration
pub struct GlobalData {
    pub configuration: OrderedSet<StateId>,
}

/// the part of State / Fsm that InAction::new reads
pub struct State {
    pub id: StateId,
    pub name: String,
}

pub struct Fsm {
    pub states: Vec<State>,
}

pub assume_specification<T: PartialEq> [<[T]>::contains] (s: &[T], x: &T) -> (r: bool)
    ensures
        r == s@.contains(*x);

// TRUSTED stand-in: the expression lexer as an oracle that delivers the token sequence of a text
// (src/expression_engine/lexer.rs is not under contract; bounded-exhaustive replay only)
#[verifier::external_body]
pub struct ExpressionLexer {
    _p: (),
}

/// the tokens of the text of a data value (`ExpressionLexer::new(script.to_string())`)
pub uninterp spec fn tokens_of(d: Data) -> Seq<Token>;

impl ExpressionLexer {
    pub uninterp spec fn rest(&self) -> Seq<Token>;

    /// the next token, `Token::EOE` when the text is used up
    #[verifier::external_body]
    pub fn next_token(&mut self) -> (r: Token)
        ensures
            old(self).rest().len() > 0 ==> r == old(self).rest()[0] && final(self).rest() == old(self).rest().drop_first(),
            old(self).rest().len() == 0 ==> r == Token::EOE && final(self).rest() == old(self).rest(),
    {
        unimplemented!()
    }
}

/// R19: `ExpressionLexer::new(script.to_string())`
#[verifier::external_body]
pub fn verif_lexer_for(script: &Data) -> (r: ExpressionLexer)
    ensures
        r.rest() == tokens_of(*script),
{
    unimplemented!()
}

/// R19: `token == Token::Identifier("In".to_string())` (derived PartialEq of Token)
#[verifier::external_body]
pub fn verif_token_is_identifier(t: &Token, name: &str) -> (r: bool)
    ensures
        r == (*t matches Token::Identifier(s) && s@ == name@),
{
    unimplemented!()
}

/// R19: `token == Token::Bracket(c)` / `token != Token::Bracket(c)`
#[verifier::external_body]
pub fn verif_token_is_bracket(t: &Token, c: char) -> (r: bool)
    ensures
        r == (*t matches Token::Bracket(b) && b == c),
{
    unimplemented!()
}

/// the null data model as far as In() needs it: the session data seen as owned state (A1) and the state-name table
pub struct NullDatamodel {
    pub global: GlobalData,
    pub state_name_to_id: HashMap<String, StateId>,
}

pub mod trusted_axioms {
    use super::*;

    /// A4: `String` hashes and compares consistently (vstd ships this axiom for the integer types only)
    #[verifier::external_body]
    pub broadcast proof fn axiom_string_key_model()
        ensures
            #[trigger] vstd::std_specs::hash::obeys_key_model::<String>(),
    {
    }
}
