pub type StateId = u32;

// TRUSTED stand-ins: value handles that only occur as payload types of the Data enum in this unit
#[verifier::external_body]
pub struct DataArc {
    _p: (),
}

#[verifier::external_body]
pub struct SourceCode {
    _p: (),
}

/// the part of GlobalData that `In` reads: the active configuration
pub struct GlobalData {
    pub configuration: OrderedSet<StateId>,
}

/// the part of State / Fsm that InAction::new reads
pub struct State {
    pub id: StateId,
    pub name: String,
}

pub struct Fsm {
    pub states: Vec<State>,
}

pub assume_specification<T: PartialEq> [<[T]>::contains] (s: &[T], x: &T) -> (r: bool)
    ensures
        r == s@.contains(*x);

pub mod trusted_axioms {
    use super::*;

    /// A4: `String` hashes and compares consistently (vstd ships this axiom for the integer types only)
    #[verifier::external_body]
    pub broadcast proof fn axiom_string_key_model()
        ensures
            #[trigger] vstd::std_specs::hash::obeys_key_model::<String>(),
    {
    }
}
