/// the id of the state named `name` in the name table, if any
pub open spec fn state_named(tbl: Map<String, u32>, name: String) -> Option<u32> {
    if tbl.contains_key(name) { Some(tbl[name]) } else { None }
}

/// In(name): a state with that name exists and is in the configuration
pub open spec fn spec_in(tbl: Map<String, u32>, config: Seq<u32>, name: String) -> bool {
    tbl.contains_key(name) && config.contains(tbl[name])
}
