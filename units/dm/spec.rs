/// the id of the state named `name` in the name table, if any
pub open spec fn state_named(tbl: Map<String, u32>, name: String) -> Option<u32> {
    if tbl.contains_key(name) { Some(tbl[name]) } else { None }
}

/// In(name): a state with that name exists and is in the configuration
pub open spec fn spec_in(tbl: Map<String, u32>, config: Seq<u32>, name: String) -> bool {
    tbl.contains_key(name) && config.contains(tbl[name])
}

/// the text `tokens` is `In ( name )` / `In ( 'name' )`, possibly followed by more tokens (which the null data model
/// ignores)
pub open spec fn in_call_name(t: Seq<Token>) -> Option<String> {
    if t.len() >= 4 && (t[0] matches Token::Identifier(s) && s@ == "In"@) && (t[1] matches Token::Bracket(b) && b == '(') && (t[3] matches Token::Bracket(b) && b == ')') {
        match t[2] {
            Token::TString(n) => Some(n),
            Token::Identifier(n) => Some(n),
            _ => None,
        }
    } else {
        None
    }
}
