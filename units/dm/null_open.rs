impl NullDatamodel {
