// TRUSTED glue (after both traits exist): the uninterpreted names used in the Datamodel stand-in ARE the definitions
// of spec.rs.  (They cannot be used in the trait directly: Datamodel would refer to ExecutableContent and vice versa.)
pub mod trusted_axioms {
    use super::*;

    #[verifier::external_body]
    pub broadcast proof fn axiom_dm_exec_content(fsm: &Fsm, id: u32, l0: Seq<Ev>, l1: Seq<Ev>, r: bool)
        ensures
            #[trigger] dm_exec_content(fsm, id, l0, l1, r) == block_sem(fsm, id, l0, l1, r),
    {
    }

    #[verifier::external_body]
    pub broadcast proof fn axiom_dm_has_block(fsm: &Fsm, id: u32)
        ensures
            #[trigger] dm_has_block(fsm, id) == fsm_blocks(fsm).contains_key(id),
    {
    }

    #[verifier::external_body]
    pub broadcast proof fn axiom_dm_fsm_wf(fsm: &Fsm)
        ensures
            #[trigger] dm_fsm_wf(fsm) == fsm_wf(fsm),
    {
    }
}

/// R19: `e.execute(self, fsm)` inside RFsmExpressionDatamodel: the unsizing coercion `&mut Self -> &mut dyn Datamodel`
/// (not supported by Verus) plus the dynamic call; carries exactly the contract of ExecutableContent::execute
#[verifier::external_body]
pub fn verif_execute_on(e: &Box<dyn ExecutableContent>, dm: &mut RFsmExpressionDatamodel, fsm: &Fsm) -> (r: bool)
    requires
        e.wf(fsm),
        dm_fsm_wf(fsm),
    ensures
        e.sem(fsm, old(dm).log(), final(dm).log(), r),
{
    e.execute(dm, fsm)
}

impl Datamodel for RFsmExpressionDatamodel {
    uninterp spec fn log(&self) -> Seq<Ev>;

    #[verifier::external_body]
    fn execute_condition(&mut self, script: &Data) -> (r: Result<bool, String>) {
        unimplemented!()
    }

    #[verifier::external_body]
    fn execute(&mut self, script: &Data) -> (r: Result<DataArc, String>) {
        unimplemented!()
    }

    #[verifier::external_body]
    fn assign(&mut self, left_expr: &Data, right_expr: &Data) -> (r: bool) {
        unimplemented!()
    }

    #[verifier::external_body]
    fn internal_error_execution(&mut self) {
        unimplemented!()
    }

    #[verifier::external_body]
    fn verif_execute_for_each(&mut self, fsm: &Fsm, content_id: ExecutableContentId, array_expression: &Data, item_name: &str, index: &str) -> (r: bool) {
        unimplemented!()
    }

    // executeContent: the REAL body, extracted from src/datamodel/expression_engine.rs (see below)
