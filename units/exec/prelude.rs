pub type ExecutableContentId = u32;

/// the data-model value type: opaque in this unit (expressions are only handed to the data model)
#[verifier::external_body]
pub struct Data {
    _p: (),
}

#[verifier::external_body]
pub struct DataArc {
    _p: (),
}

// TRUSTED stand-in: the model.  `Fsm` owns the executable-content regions (`executableContent: HashMap<id, Vec<Box<dyn
// ExecutableContent>>>`); Verus rejects a struct that contains `dyn ExecutableContent` while the trait mentions the
// struct (cyclic definition), so the struct is opaque here and the one field access of the code,
// `fsm.executableContent.get(&id).unwrap()`, is routed through `verif_fsm_content` (rewrite R19).
#[verifier::external_body]
pub struct Fsm {
    _p: (),
}

/// the content regions of the model: id -> elements in document order
pub uninterp spec fn fsm_blocks(fsm: &Fsm) -> Map<u32, Seq<Box<dyn ExecutableContent>>>;

/// R19: `fsm.executableContent.get(&id).unwrap()`; panics (unwrap of None) when the id names no region
#[verifier::external_body]
pub fn verif_fsm_content(fsm: &Fsm, id: ExecutableContentId) -> (r: &Vec<Box<dyn ExecutableContent>>)
    requires
        fsm_blocks(fsm).contains_key(id),
    ensures
        r@ == fsm_blocks(fsm)[id],
{
    unimplemented!()
}

/// what the data model was asked to do, in order (ghost): the observable effect of executable content
pub enum Ev {
    /// execute_condition(script) returned Ok(b) (Some(b)) or Err (None)
    Cond(Data, Option<bool>),
    /// execute(script) succeeded / failed
    Eval(Data, bool),
    /// assign(location, expr) succeeded / failed
    Assign(Data, Data, bool),
    /// internal_error_execution(): error.execution placed on the internal queue
    ErrorExecution,
}

// TRUSTED stand-in (A3, A8): the data model as executable content sees it.  Every call appends one entry to the ghost
// log; what a call does to the data store (and that a failing call raises error.execution) is the data model's business.
pub trait Datamodel {
    spec fn log(&self) -> Seq<Ev>;

    fn execute_condition(&mut self, script: &Data) -> (r: Result<bool, String>)
        ensures
            final(self).log() == old(self).log().push(Ev::Cond(*script, match r { Ok(b) => Some(b), Err(_) => None })),
    ;

    fn execute(&mut self, script: &Data) -> (r: Result<DataArc, String>)
        ensures
            final(self).log() == old(self).log().push(Ev::Eval(*script, r.is_ok())),
    ;

    fn assign(&mut self, left_expr: &Data, right_expr: &Data) -> (r: bool)
        ensures
            final(self).log() == old(self).log().push(Ev::Assign(*left_expr, *right_expr, r)),
    ;

    /// `get_global!(self).enqueue_internal(Event::error_execution(&None, &None))` (src/datamodel/mod.rs; the queue
    /// effect itself is verified in unit sendio / interp)
    fn internal_error_execution(&mut self)
        ensures
            final(self).log() == old(self).log().push(Ev::ErrorExecution),
    ;

    /// runs a content region through the data model (RFsmExpressionDatamodel::executeContent is verified against
    /// block_sem below; `dm_exec_content` is linked to it by axiom_dm_exec_content)
    #[allow(non_snake_case)]
    fn executeContent(&mut self, fsm: &Fsm, content_id: ExecutableContentId) -> (r: bool)
        requires
            dm_has_block(fsm, content_id),
            dm_fsm_wf(fsm),
        ensures
            dm_exec_content(fsm, content_id, old(self).log(), final(self).log(), r),
    ;

    /// R29: `datamodel.execute_for_each(array, item, index, &mut |datamodel| BODY)`.  The data model evaluates the array,
    /// binds item and index for each element in order and calls the body until it returns false (src/datamodel/*, not
    /// under contract: the iteration itself is this oracle).  The closure literal is lifted mechanically to the nested
    /// fn `verif_foreach_body`, which IS verified; this call keeps the other arguments and names the region the body runs.
    fn verif_execute_for_each(&mut self, fsm: &Fsm, content_id: ExecutableContentId, array_expression: &Data, item_name: &str, index: &str) -> (r: bool)
        ensures
            dm_for_each(fsm, content_id, *array_expression, old(self).log(), final(self).log(), r),
    ;
}

pub uninterp spec fn dm_for_each(fsm: &Fsm, id: u32, array: Data, l0: Seq<Ev>, l1: Seq<Ev>, r: bool) -> bool;

/// R19: `CONST.to_string()` on a &str
#[verifier::external_body]
pub fn verif_to_string(s: &str) -> (r: String)
    ensures
        r@ == s@,
{
    unimplemented!()
}

pub uninterp spec fn dm_exec_content(fsm: &Fsm, id: u32, l0: Seq<Ev>, l1: Seq<Ev>, r: bool) -> bool;

pub uninterp spec fn dm_fsm_wf(fsm: &Fsm) -> bool;

pub uninterp spec fn dm_has_block(fsm: &Fsm, id: u32) -> bool;

// TRUSTED stand-in: the concrete rfsm-expression data model; only its executeContent is verified here, the other
// Datamodel methods are assumed to meet the stand-in contract above
#[verifier::external_body]
pub struct RFsmExpressionDatamodel {
    _p: (),
}

// TRUSTED stand-in: the ECMAScript data model (boa engine); only its executeContent is verified here
#[verifier::external_body]
pub struct ECMAScriptDatamodel {
    _p: (),
}
