    open spec fn wf(&self, fsm: &Fsm) -> bool {
        (self.content != 0 ==> fsm_blocks(fsm).contains_key(self.content)) && (self.else_content != 0 ==> fsm_blocks(fsm).contains_key(self.else_content))
    }

    /// <if>: the condition is evaluated exactly once, first; an evaluation error places error.execution on the internal
    /// queue and counts as false; exactly the chosen branch runs (block semantics: document order, abort at the first
    /// failing element)
    open spec fn sem(&self, fsm: &Fsm, l0: Seq<Ev>, l1: Seq<Ev>, r: bool) -> bool {
        exists|c: Option<bool>| opt_block_sem(fsm, if c == Some(true) { self.content } else { self.else_content }, #[trigger] after_cond(l0, self.condition, c), l1, r)
    }
