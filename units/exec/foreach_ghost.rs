    open spec fn wf(&self, fsm: &Fsm) -> bool {
        self.content != 0 ==> fsm_blocks(fsm).contains_key(self.content)
    }

    /// <foreach>: what the data model's iteration does with the array and the body (oracle); the body itself -- run the
    /// region in document order, stop at the first failing element and report it -- is the verified nested fn
    open spec fn sem(&self, fsm: &Fsm, l0: Seq<Ev>, l1: Seq<Ev>, r: bool) -> bool {
        dm_for_each(fsm, self.content, self.array, l0, l1, r)
    }
