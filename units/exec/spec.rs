// Relational semantics of executable content (W3C SCXML 4): what a region / an element may do to the data-model log.

/// every element of every region is well-formed (the regions it refers to exist)
pub open spec fn fsm_wf(fsm: &Fsm) -> bool {
    forall|id: u32, i: int| fsm_blocks(fsm).contains_key(id) && 0 <= i < fsm_blocks(fsm)[id].len() ==> (#[trigger] fsm_blocks(fsm)[id][i]).wf(fsm)
}

/// result of the i-th executed step of a run of len - 1 steps: all but the last succeeded, the last one decides
pub open spec fn step_result(i: int, len: int, r: bool) -> bool {
    i < len - 2 || r
}

/// a run of the elements of a region: ms[0] is the log before, ms[i + 1] the log after element i.
/// Elements run in document order; every element before the last executed one succeeded; `r` is the result of the last
/// executed one; on success all elements ran, on failure the remainder of the region did not run.
pub open spec fn block_run(blk: Seq<Box<dyn ExecutableContent>>, fsm: &Fsm, ms: Seq<Seq<Ev>>, r: bool) -> bool {
    &&& 1 <= ms.len() <= blk.len() + 1
    &&& forall|i: int| 0 <= i < ms.len() - 1 ==> (#[trigger] blk[i]).sem(fsm, ms[i], ms[i + 1], step_result(i, ms.len() as int, r))
    &&& (r ==> ms.len() == blk.len() + 1)
    &&& (!r ==> ms.len() >= 2)
}

pub open spec fn block_sem(fsm: &Fsm, id: u32, l0: Seq<Ev>, l1: Seq<Ev>, r: bool) -> bool {
    exists|ms: Seq<Seq<Ev>>| #[trigger] block_run(fsm_blocks(fsm)[id], fsm, ms, r) && ms.len() >= 1 && ms[0] == l0 && ms.last() == l1
}

/// "region id or nothing": id 0 means no content
pub open spec fn opt_block_sem(fsm: &Fsm, id: u32, l0: Seq<Ev>, l1: Seq<Ev>, r: bool) -> bool {
    if id != 0 {
        block_sem(fsm, id, l0, l1, r)
    } else {
        l1 == l0 && r
    }
}

/// a run of a <script>-like list of region ids through the data model
pub open spec fn ids_run(ids: Seq<u32>, fsm: &Fsm, ms: Seq<Seq<Ev>>, r: bool) -> bool {
    &&& 1 <= ms.len() <= ids.len() + 1
    &&& forall|i: int| 0 <= i < ms.len() - 1 ==> block_sem(fsm, #[trigger] ids[i], ms[i], ms[i + 1], step_result(i, ms.len() as int, r))
    &&& (r ==> ms.len() == ids.len() + 1)
    &&& (!r ==> ms.len() >= 2)
}

/// the log after evaluating a condition: the evaluation, and -- if it failed -- the error.execution it must raise
pub open spec fn after_cond(l0: Seq<Ev>, cond: Data, c: Option<bool>) -> Seq<Ev> {
    if c.is_none() {
        l0.push(Ev::Cond(cond, c)).push(Ev::ErrorExecution)
    } else {
        l0.push(Ev::Cond(cond, c))
    }
}
