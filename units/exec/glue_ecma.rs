
impl ECMAScriptDatamodel {
    /// stand-in for the private helper `execute_content` (optional trace output, then `e.execute(self, fsm)`): carries
    /// exactly the contract of ExecutableContent::execute (the unsizing call is outside Verus, see verif_execute_on)
    #[verifier::external_body]
    pub fn execute_content(&mut self, fsm: &Fsm, e: &dyn ExecutableContent) -> (r: bool)
        requires
            e.wf(fsm),
            dm_fsm_wf(fsm),
        ensures
            e.sem(fsm, old(self).log(), final(self).log(), r),
    {
        unimplemented!()
    }
}

impl Datamodel for ECMAScriptDatamodel {
    uninterp spec fn log(&self) -> Seq<Ev>;

    #[verifier::external_body]
    fn execute_condition(&mut self, script: &Data) -> (r: Result<bool, String>) {
        unimplemented!()
    }

    #[verifier::external_body]
    fn execute(&mut self, script: &Data) -> (r: Result<DataArc, String>) {
        unimplemented!()
    }

    #[verifier::external_body]
    fn assign(&mut self, left_expr: &Data, right_expr: &Data) -> (r: bool) {
        unimplemented!()
    }

    #[verifier::external_body]
    fn internal_error_execution(&mut self) {
        unimplemented!()
    }

    #[verifier::external_body]
    fn verif_execute_for_each(&mut self, fsm: &Fsm, content_id: ExecutableContentId, array_expression: &Data, item_name: &str, index: &str) -> (r: bool) {
        unimplemented!()
    }

    // executeContent: the REAL body, extracted from src/datamodel/ecma_script.rs (see below)
