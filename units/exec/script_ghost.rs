    open spec fn wf(&self, fsm: &Fsm) -> bool {
        forall|i: int| 0 <= i < self.content@.len() ==> fsm_blocks(fsm).contains_key(#[trigger] self.content@[i])
    }

    open spec fn sem(&self, fsm: &Fsm, l0: Seq<Ev>, l1: Seq<Ev>, r: bool) -> bool {
        exists|ms: Seq<Seq<Ev>>| #[trigger] ids_run(self.content@, fsm, ms, r) && ms.len() >= 1 && ms[0] == l0 && ms.last() == l1
    }
