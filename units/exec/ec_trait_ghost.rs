    // ghost members added by rule R15 (no executable text)
    /// the regions this element refers to exist
    spec fn wf(&self, fsm: &Fsm) -> bool;
    /// what executing this element may do: log before, log after, result
    spec fn sem(&self, fsm: &Fsm, l0: Seq<Ev>, l1: Seq<Ev>, r: bool) -> bool;
