    open spec fn wf(&self, fsm: &Fsm) -> bool {
        true
    }

    open spec fn sem(&self, fsm: &Fsm, l0: Seq<Ev>, l1: Seq<Ev>, r: bool) -> bool {
        l1 == l0.push(Ev::Eval(self.content, r))
    }
