    /// `left = right`: nothing is evaluated when the left side is no location; otherwise the right side is evaluated
    /// first (undefined variables not allowed), then the left side, then assign_result
    open spec fn sem(&self, c0: GlobalDataLock, c1: GlobalDataLock, allow_undefined: bool, r: ExpressionResult) -> bool {
        if !self.left.assignable() {
            r.is_err() && c1.cells() == c0.cells()
        } else {
            exists|m1: GlobalDataLock, m2: GlobalDataLock, rr: ExpressionResult, lr: ExpressionResult|
                #[trigger] self.right.sem(c0, m1, false, rr) && #[trigger] self.left.sem(m1, m2, allow_undefined, lr)
                && (rr.is_ok() ==> m1.cells().contains_key(rr.unwrap().cell()))
                && assign_result(m2, c1, rr, lr, r)
        }
    }

    /// an assignment is not itself a location
    open spec fn assignable(&self) -> bool {
        false
    }
