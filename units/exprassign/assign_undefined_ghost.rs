    /// `left ?= right`: nothing is evaluated when the left side is no location; otherwise the right side is evaluated
    /// first and, only if that succeeded, the left side with "may be undefined"; a read-only target is an error and
    /// every cell keeps its value, otherwise exactly the target's cell receives the right side's value
    open spec fn sem(&self, c0: GlobalDataLock, c1: GlobalDataLock, allow_undefined: bool, r: ExpressionResult) -> bool {
        if !self.left.assignable() {
            r.is_err() && c1.cells() == c0.cells()
        } else {
            exists|m1: GlobalDataLock, rr: ExpressionResult|
                #[trigger] self.right.sem(c0, m1, allow_undefined, rr) && (rr.is_ok() ==> m1.cells().contains_key(rr.unwrap().cell()))
                && match rr {
                    Err(_) => r.is_err() && c1.cells() == m1.cells(),
                    Ok(ra) => exists|m2: GlobalDataLock, lr: ExpressionResult| #[trigger] self.left.sem(m1, m2, true, lr) && match lr {
                        Err(_) => r.is_err() && c1.cells() == m2.cells(),
                        Ok(lv) => if lv.readonly() {
                            r.is_err() && c1.cells() == m2.cells()
                        } else {
                            r == Ok::<DataArc, String>(lv) && c1.cells() == m2.cells().insert(lv.cell(), m2.cells()[ra.cell()])
                        },
                    },
                }
        }
    }

    open spec fn assignable(&self) -> bool {
        false
    }
