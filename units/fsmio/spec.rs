// ---------------------------------------------------------------------------------------------
// The record layer of the .rfsm format: which token sequence (bytes, via unit proto's enc_* functions) a model
// element is.  Taken from the format as FsmReader consumes it; FsmWriter's functions are proved against it.
// ---------------------------------------------------------------------------------------------

/// shape of every record-writer postcondition: still ok afterwards means "was ok, everything was encodable and
/// exactly these bytes were appended"; a writer already in error state appends nothing
pub open spec fn rec_post(ok0: bool, out0: Seq<u8>, ok1: bool, out1: Seq<u8>, encodable: bool, bytes: Seq<u8>) -> bool {
    (ok1 ==> ok0 && encodable && out1 == out0 + bytes) && (!ok0 ==> out1 == out0)
}

pub open spec fn sb(s: String) -> Seq<u8> {
    encode_utf8(s@)
}

pub open spec fn s_ok(s: String) -> bool {
    str_encodable(encode_utf8(s@))
}

/// concatenation of the encodings of the elements, in order
pub open spec fn enc_seq<T>(s: Seq<T>, f: spec_fn(T) -> Seq<u8>) -> Seq<u8>
    decreases s.len(),
{
    if s.len() == 0 {
        Seq::<u8>::empty()
    } else {
        enc_seq(s.drop_last(), f) + f(s.last())
    }
}

pub proof fn lemma_enc_seq_push<T>(s: Seq<T>, x: T, f: spec_fn(T) -> Seq<u8>)
    ensures
        enc_seq(s.push(x), f) == enc_seq(s, f) + f(x),
{
    assert(s.push(x).drop_last() == s);
}

pub proof fn lemma_enc_seq_step<T>(s: Seq<T>, i: int, f: spec_fn(T) -> Seq<u8>)
    requires
        0 <= i < s.len(),
    ensures
        enc_seq(s.subrange(0, i + 1), f) == enc_seq(s.subrange(0, i), f) + f(s[i]),
{
    assert(s.subrange(0, i + 1).drop_last() == s.subrange(0, i));
}

pub open spec fn f_id() -> spec_fn(u32) -> Seq<u8> {
    |x: u32| enc_uint(x as u64)
}

pub open spec fn f_str() -> spec_fn(String) -> Seq<u8> {
    |x: String| enc_str(sb(x))
}

pub open spec fn f_param() -> spec_fn(Parameter) -> Seq<u8> {
    |x: Parameter| enc_parameter(x)
}

pub open spec fn f_invoke() -> spec_fn(Invoke) -> Seq<u8> {
    |x: Invoke| enc_invoke(x)
}

/// a counted list: element count, then the elements
pub open spec fn enc_list<T>(s: Seq<T>, f: spec_fn(T) -> Seq<u8>) -> Seq<u8> {
    enc_uint(s.len() as u64) + enc_seq(s, f)
}

pub open spec fn strs_ok(s: Seq<String>) -> bool {
    forall|i: int| 0 <= i < s.len() ==> s_ok(#[trigger] s[i])
}

// ---- CommonContent, Parameter, DoneData ------------------------------------------------------
pub open spec fn enc_common_content(c: CommonContent) -> Seq<u8> {
    enc_opt_str(opt_str_bytes(c.content)) + enc_opt_str(opt_str_bytes(c.content_expr))
}

pub open spec fn common_content_ok(c: CommonContent) -> bool {
    opt_str_encodable(c.content) && opt_str_encodable(c.content_expr)
}

pub open spec fn enc_parameter(p: Parameter) -> Seq<u8> {
    enc_str(sb(p.name)) + enc_str(sb(p.expr)) + enc_str(sb(p.location))
}

pub open spec fn parameter_ok(p: Parameter) -> bool {
    s_ok(p.name) && s_ok(p.expr) && s_ok(p.location)
}

pub open spec fn params_seq(p: Option<Vec<Parameter>>) -> Seq<Parameter> {
    match p {
        Some(v) => v@,
        None => Seq::<Parameter>::empty(),
    }
}

pub open spec fn params_ok(s: Seq<Parameter>) -> bool {
    forall|i: int| 0 <= i < s.len() ==> parameter_ok(#[trigger] s[i])
}

/// `None` and `Some(vec![])` are the same record (count 0); the reader yields None for it
pub open spec fn enc_parameters(p: Option<Vec<Parameter>>) -> Seq<u8> {
    enc_list(params_seq(p), f_param())
}

pub open spec fn enc_opt_common_content(c: Option<CommonContent>) -> Seq<u8> {
    match c {
        Some(cc) => enc_bool(true) + enc_common_content(cc),
        None => enc_bool(false),
    }
}

pub open spec fn opt_common_content_ok(c: Option<CommonContent>) -> bool {
    match c {
        Some(cc) => common_content_ok(cc),
        None => true,
    }
}

pub open spec fn enc_done_data(d: DoneData) -> Seq<u8> {
    enc_opt_common_content(d.content) + enc_parameters(d.params)
}

pub open spec fn done_data_ok(d: DoneData) -> bool {
    opt_common_content_ok(d.content) && params_ok(params_seq(d.params))
}
