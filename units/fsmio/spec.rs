// ---------------------------------------------------------------------------------------------
// The record layer of the .rfsm format: which token sequence (bytes, via unit proto's enc_* functions) a model
// element is.  Taken from the format as FsmReader consumes it; FsmWriter's functions are proved against it.
// ---------------------------------------------------------------------------------------------

/// shape of every record-writer postcondition: still ok afterwards means "was ok, everything was encodable and
/// exactly these bytes were appended"; a writer already in error state appends nothing
pub open spec fn rec_post(ok0: bool, out0: Seq<u8>, ok1: bool, out1: Seq<u8>, encodable: bool, bytes: Seq<u8>) -> bool {
    (ok1 ==> ok0 && encodable && out1 == out0 + bytes) && (!ok0 ==> out1 == out0)
}

pub open spec fn sb(s: String) -> Seq<u8> {
    encode_utf8(s@)
}

pub open spec fn s_ok(s: String) -> bool {
    str_encodable(encode_utf8(s@))
}

/// concatenation of the encodings of the elements, in order
pub open spec fn enc_seq<T>(s: Seq<T>, f: spec_fn(T) -> Seq<u8>) -> Seq<u8>
    decreases s.len(),
{
    if s.len() == 0 {
        Seq::<u8>::empty()
    } else {
        enc_seq(s.drop_last(), f) + f(s.last())
    }
}

pub proof fn lemma_enc_seq_push<T>(s: Seq<T>, x: T, f: spec_fn(T) -> Seq<u8>)
    ensures
        enc_seq(s.push(x), f) == enc_seq(s, f) + f(x),
{
    assert(s.push(x).drop_last() == s);
}

pub proof fn lemma_enc_seq_step<T>(s: Seq<T>, i: int, f: spec_fn(T) -> Seq<u8>)
    requires
        0 <= i < s.len(),
    ensures
        enc_seq(s.subrange(0, i + 1), f) == enc_seq(s.subrange(0, i), f) + f(s[i]),
{
    assert(s.subrange(0, i + 1).drop_last() == s.subrange(0, i));
}

pub open spec fn f_id() -> spec_fn(u32) -> Seq<u8> {
    |x: u32| enc_uint(x as u64)
}

pub open spec fn f_str() -> spec_fn(String) -> Seq<u8> {
    |x: String| enc_str(sb(x))
}

pub open spec fn f_param() -> spec_fn(Parameter) -> Seq<u8> {
    |x: Parameter| enc_parameter(x)
}

pub open spec fn f_invoke() -> spec_fn(Invoke) -> Seq<u8> {
    |x: Invoke| enc_invoke(x)
}

/// a counted list: element count, then the elements
pub open spec fn enc_list<T>(s: Seq<T>, f: spec_fn(T) -> Seq<u8>) -> Seq<u8> {
    enc_uint(s.len() as u64) + enc_seq(s, f)
}

pub open spec fn strs_ok(s: Seq<String>) -> bool {
    forall|i: int| 0 <= i < s.len() ==> s_ok(#[trigger] s[i])
}

// ---- CommonContent, Parameter, DoneData ------------------------------------------------------
pub open spec fn enc_common_content(c: CommonContent) -> Seq<u8> {
    enc_opt_str(opt_str_bytes(c.content)) + enc_opt_str(opt_str_bytes(c.content_expr))
}

pub open spec fn common_content_ok(c: CommonContent) -> bool {
    opt_str_encodable(c.content) && opt_str_encodable(c.content_expr)
}

pub open spec fn enc_parameter(p: Parameter) -> Seq<u8> {
    enc_str(sb(p.name)) + enc_str(sb(p.expr)) + enc_str(sb(p.location))
}

pub open spec fn parameter_ok(p: Parameter) -> bool {
    s_ok(p.name) && s_ok(p.expr) && s_ok(p.location)
}

pub open spec fn params_seq(p: Option<Vec<Parameter>>) -> Seq<Parameter> {
    match p {
        Some(v) => v@,
        None => Seq::<Parameter>::empty(),
    }
}

pub open spec fn params_ok(s: Seq<Parameter>) -> bool {
    forall|i: int| 0 <= i < s.len() ==> parameter_ok(#[trigger] s[i])
}

/// `None` and `Some(vec![])` are the same record (count 0); the reader yields None for it
pub open spec fn enc_parameters(p: Option<Vec<Parameter>>) -> Seq<u8> {
    enc_list(params_seq(p), f_param())
}

pub open spec fn enc_opt_common_content(c: Option<CommonContent>) -> Seq<u8> {
    match c {
        Some(cc) => enc_bool(true) + enc_common_content(cc),
        None => enc_bool(false),
    }
}

pub open spec fn opt_common_content_ok(c: Option<CommonContent>) -> bool {
    match c {
        Some(cc) => common_content_ok(cc),
        None => true,
    }
}

pub open spec fn enc_done_data(d: DoneData) -> Seq<u8> {
    enc_opt_common_content(d.content) + enc_parameters(d.params)
}

pub open spec fn done_data_ok(d: DoneData) -> bool {
    opt_common_content_ok(d.content) && params_ok(params_seq(d.params))
}

// ---- Invoke ----------------------------------------------------------------------------------
pub open spec fn enc_invoke(i: Invoke) -> Seq<u8> {
    enc_str(sb(i.invoke_id))
        + (if i.invoke_id@.len() == 0 { enc_str(sb(i.parent_state_name)) } else { Seq::<u8>::empty() })
        + enc_uint(i.doc_id as u64)
        + enc_data(i.src_expr) + enc_data(i.src) + enc_data(i.type_expr) + enc_data(i.type_name)
        + enc_str(sb(i.external_id_location))
        + enc_bool(i.autoforward)
        + enc_uint(i.finalize as u64)
        + enc_opt_common_content(i.content)
        + enc_parameters(i.params)
        + enc_list(i.name_list@, f_str())
}

pub open spec fn invoke_ok(i: Invoke) -> bool {
    s_ok(i.invoke_id) && (i.invoke_id@.len() == 0 ==> s_ok(i.parent_state_name))
        && data_encodable(i.src_expr) && data_encodable(i.src) && data_encodable(i.type_expr) && data_encodable(i.type_name)
        && s_ok(i.external_id_location) && opt_common_content_ok(i.content) && params_ok(params_seq(i.params))
        && strs_ok(i.name_list@)
}

pub open spec fn invokes_ok(s: Seq<Invoke>) -> bool {
    forall|i: int| 0 <= i < s.len() ==> invoke_ok(#[trigger] s[i])
}

// ---- Transition ------------------------------------------------------------------------------
pub open spec fn transition_type_ordinal(t: TransitionType) -> u8 {
    match t {
        TransitionType::Internal => 0u8,
        TransitionType::External => 1u8,
    }
}

pub open spec fn transition_flags(t: Transition) -> u8 {
    (transition_type_ordinal(t.transition_type) + (if t.wildcard { 2int } else { 0int }) + (if data_is_empty(t.cond) { 0int } else { 4int })
        + (if t.content != 0 { 8int } else { 0int })) as u8
}

pub open spec fn enc_transition(t: Transition) -> Seq<u8> {
    enc_uint(t.id as u64) + enc_uint(t.doc_id as u64) + enc_uint(t.source as u64)
        + enc_list(t.target@, f_id())
        + enc_list(t.events@, f_str())
        + enc_uint(transition_flags(t) as u64)
        + (if data_is_empty(t.cond) { Seq::<u8>::empty() } else { enc_data(t.cond) })
        + (if t.content != 0 { enc_uint(t.content as u64) } else { Seq::<u8>::empty() })
}

pub open spec fn transition_ok(t: Transition) -> bool {
    strs_ok(t.events@) && (!data_is_empty(t.cond) ==> data_encodable(t.cond))
}

// ---- State -----------------------------------------------------------------------------------
pub open spec fn history_type_ordinal(h: HistoryType) -> u8 {
    match h {
        HistoryType::Shallow => 1u8,
        HistoryType::Deep => 2u8,
        HistoryType::None => 0u8,
    }
}

pub open spec fn state_flags(s: State) -> u16 {
    (history_type_ordinal(s.history_type) as int
        + (if s.onentry@.len() == 0 { 0int } else { 0x04int })
        + (if s.onexit@.len() == 0 { 0int } else { 0x08int })
        + (if s.states@.len() != 0 { 0x10int } else { 0int })
        + (if s.is_final { 0x20int } else { 0int })
        + (if s.is_parallel { 0x40int } else { 0int })
        + (if s.donedata.is_some() { 0x80int } else { 0int })
        + (if s.invoke.data@.len() > 0 { 0x100int } else { 0int })
        + (if data_map_len(s.data) != 0 { 0x200int } else { 0int })
        + (if s.history.data@.len() > 0 { 0x400int } else { 0int })) as u16
}

/// number of entries of a state's <data> map
pub open spec fn data_map_len(m: HashMap<String, DataArc>) -> nat {
    m@.len()
}

/// the pairs of a data map in the order the writer iterated it (HashMap iteration order is unspecified; the reader
/// inserts the pairs into a map again, so every such order is the same record)
pub open spec fn map_order(m: Map<String, DataArc>, order: Seq<(String, DataArc)>) -> bool {
    order.len() == m.len() && order.no_duplicates()
        && forall|i: int| 0 <= i < order.len() ==> m.contains_key((#[trigger] order[i]).0) && m[order[i].0] == order[i].1
}

pub open spec fn f_pair() -> spec_fn((String, DataArc)) -> Seq<u8> {
    |p: (String, DataArc)| enc_str(sb(p.0)) + enc_data_arc(p.1)
}

pub open spec fn pair_ok(p: (String, DataArc)) -> bool {
    s_ok(p.0) && data_arc_encodable(p.1)
}

pub open spec fn pairs_ok(s: Seq<(String, DataArc)>) -> bool {
    forall|i: int| 0 <= i < s.len() ==> pair_ok(#[trigger] s[i])
}

pub open spec fn deref_pair<'a>() -> spec_fn((&'a String, &'a DataArc)) -> (String, DataArc) {
    |p: (&'a String, &'a DataArc)| (*p.0, *p.1)
}

pub open spec fn enc_state_head(s: State) -> Seq<u8> {
    enc_uint(s.id as u64) + enc_uint(s.doc_id as u64) + enc_str(sb(s.name)) + enc_uint(state_flags(s) as u64)
        + (if s.states@.len() != 0 { enc_uint(s.initial as u64) + enc_list(s.states@, f_id()) } else { Seq::<u8>::empty() })
        + (if s.onentry@.len() != 0 { enc_list(s.onentry@, f_id()) } else { Seq::<u8>::empty() })
        + (if s.onexit@.len() != 0 { enc_list(s.onexit@, f_id()) } else { Seq::<u8>::empty() })
        + enc_list(s.transitions.data@, f_id())
        + (if s.invoke.data@.len() > 0 { enc_list(s.invoke.data@, f_invoke()) } else { Seq::<u8>::empty() })
        + (if s.history.data@.len() > 0 { enc_list(s.history.data@, f_id()) } else { Seq::<u8>::empty() })
}

pub open spec fn enc_state_tail(s: State) -> Seq<u8> {
    enc_uint(s.parent as u64)
        + (match s.donedata { Some(d) => enc_done_data(d), None => Seq::<u8>::empty() })
}

pub open spec fn state_ok(s: State) -> bool {
    s_ok(s.name) && invokes_ok(s.invoke.data@)
        && (match s.donedata { Some(d) => done_data_ok(d), None => true })
}

// ---- executable content ----------------------------------------------------------------------
pub open spec fn enc_if(e: If) -> Seq<u8> {
    enc_data(e.condition) + enc_uint(e.content as u64) + enc_uint(e.else_content as u64)
}

pub open spec fn enc_expression(e: Expression) -> Seq<u8> {
    enc_data(e.content)
}

pub open spec fn enc_script(e: Script) -> Seq<u8> {
    enc_list(e.content@, f_id())
}

pub open spec fn enc_log(e: Log) -> Seq<u8> {
    enc_str(sb(e.label)) + enc_data(e.expression)
}

pub open spec fn enc_for_each(e: ForEach) -> Seq<u8> {
    enc_uint(e.content as u64) + enc_str(sb(e.index)) + enc_data(e.array) + enc_str(sb(e.item))
}

/// the state name is part of the record when an id is generated from it (idlocation set)
pub open spec fn enc_send(e: SendParameters) -> Seq<u8> {
    enc_str(sb(e.name)) + enc_data(e.target) + enc_data(e.target_expr)
        + enc_opt_common_content(e.content)
        + enc_list(e.name_list@, f_str())
        + enc_str(sb(e.name_location))
        + (if e.name_location@.len() != 0 { enc_str(sb(e.parent_state_name)) } else { Seq::<u8>::empty() })
        + enc_parameters(e.params)
        + enc_data(e.event) + enc_data(e.event_expr) + enc_data(e.type_value) + enc_data(e.type_expr)
        + enc_uint(e.delay_ms) + enc_data(e.delay_expr)
}

pub open spec fn send_ok(e: SendParameters) -> bool {
    s_ok(e.name) && data_encodable(e.target) && data_encodable(e.target_expr) && opt_common_content_ok(e.content)
        && strs_ok(e.name_list@) && s_ok(e.name_location) && (e.name_location@.len() != 0 ==> s_ok(e.parent_state_name))
        && params_ok(params_seq(e.params))
        && data_encodable(e.event) && data_encodable(e.event_expr) && data_encodable(e.type_value) && data_encodable(e.type_expr)
        && data_encodable(e.delay_expr)
}

pub open spec fn enc_raise(e: Raise) -> Seq<u8> {
    enc_str(sb(e.event))
}

pub open spec fn enc_cancel(e: Cancel) -> Seq<u8> {
    enc_str(sb(e.send_id)) + enc_data(e.send_id_expr)
}

pub open spec fn enc_assign(e: Assign) -> Seq<u8> {
    enc_data(e.expr) + enc_data(e.location)
}

pub open spec fn binding_type_ordinal(b: BindingType) -> u8 {
    match b {
        BindingType::Early => 1u8,
        BindingType::Late => 2u8,
    }
}

pub mod seq_axioms {
    use super::*;

    /// appending is associative; used as a rewrite towards right-nested sums
    pub broadcast proof fn lemma_add_assoc<T>(a: Seq<T>, b: Seq<T>, c: Seq<T>)
        ensures
            #[trigger] ((a + b) + c) == a + (b + c),
    {
        assert(((a + b) + c) =~= a + (b + c));
    }

    pub broadcast proof fn lemma_add_empty<T>(a: Seq<T>)
        ensures
            #[trigger] (a + Seq::<T>::empty()) == a,
    {
        assert((a + Seq::<T>::empty()) =~= a);
    }
}
