// ---------------------------------------------------------------------------------------------
// The record layer of the .rfsm format: which token sequence (bytes, via unit proto's enc_* functions) a model
// element is.  Taken from the format as FsmReader consumes it; FsmWriter's functions are proved against it.
// ---------------------------------------------------------------------------------------------

/// shape of every record-writer postcondition: still ok afterwards means "was ok, everything was encodable and
/// exactly these bytes were appended"; a writer already in error state appends nothing
pub open spec fn rec_post(ok0: bool, out0: Seq<u8>, ok1: bool, out1: Seq<u8>, encodable: bool, bytes: Seq<u8>) -> bool {
    (ok1 ==> ok0 && encodable && out1 == out0 + bytes) && (!ok0 ==> out1 == out0)
}

pub open spec fn sb(s: String) -> Seq<u8> {
    encode_utf8(s@)
}

pub open spec fn s_ok(s: String) -> bool {
    str_encodable(encode_utf8(s@))
}

/// concatenation of the encodings of the elements, in order
#[verifier::opaque]
pub open spec fn enc_seq<T>(s: Seq<T>, f: spec_fn(T) -> Seq<u8>) -> Seq<u8>
    decreases s.len(),
{
    if s.len() == 0 {
        Seq::<u8>::empty()
    } else {
        enc_seq(s.drop_last(), f) + f(s.last())
    }
}

pub proof fn lemma_enc_seq_push<T>(s: Seq<T>, x: T, f: spec_fn(T) -> Seq<u8>)
    ensures
        enc_seq(s.push(x), f) == enc_seq(s, f) + f(x),
{
    reveal_with_fuel(enc_seq, 2);
    assert(s.push(x).drop_last() == s);
}

pub proof fn lemma_enc_seq_empty<T>(f: spec_fn(T) -> Seq<u8>)
    ensures
        enc_seq(Seq::<T>::empty(), f) == Seq::<u8>::empty(),
{
    reveal_with_fuel(enc_seq, 2);
}

pub proof fn lemma_enc_seq_step<T>(s: Seq<T>, i: int, f: spec_fn(T) -> Seq<u8>)
    requires
        0 <= i < s.len(),
    ensures
        enc_seq(s.subrange(0, i + 1), f) == enc_seq(s.subrange(0, i), f) + f(s[i]),
{
    reveal_with_fuel(enc_seq, 2);
    assert(s.subrange(0, i + 1).drop_last() == s.subrange(0, i));
}

pub open spec fn f_id() -> spec_fn(u32) -> Seq<u8> {
    |x: u32| enc_uint(x as u64)
}

pub open spec fn f_str() -> spec_fn(String) -> Seq<u8> {
    |x: String| enc_str(sb(x))
}

pub open spec fn f_param() -> spec_fn(Parameter) -> Seq<u8> {
    |x: Parameter| enc_parameter(x)
}

pub open spec fn f_invoke() -> spec_fn(Invoke) -> Seq<u8> {
    |x: Invoke| enc_invoke(x)
}

/// a counted list: element count, then the elements
pub open spec fn enc_list<T>(s: Seq<T>, f: spec_fn(T) -> Seq<u8>) -> Seq<u8> {
    enc_uint(s.len() as u64) + enc_seq(s, f)
}

pub open spec fn strs_ok(s: Seq<String>) -> bool {
    forall|i: int| 0 <= i < s.len() ==> s_ok(#[trigger] s[i])
}

// ---- CommonContent, Parameter, DoneData ------------------------------------------------------
pub open spec fn enc_common_content(c: CommonContent) -> Seq<u8> {
    enc_opt_str(opt_str_bytes(c.content)) + enc_opt_str(opt_str_bytes(c.content_expr))
}

pub open spec fn common_content_ok(c: CommonContent) -> bool {
    opt_str_encodable(c.content) && opt_str_encodable(c.content_expr)
}

pub open spec fn enc_parameter(p: Parameter) -> Seq<u8> {
    enc_str(sb(p.name)) + enc_str(sb(p.expr)) + enc_str(sb(p.location))
}

pub open spec fn parameter_ok(p: Parameter) -> bool {
    s_ok(p.name) && s_ok(p.expr) && s_ok(p.location)
}

pub open spec fn params_seq(p: Option<Vec<Parameter>>) -> Seq<Parameter> {
    match p {
        Some(v) => v@,
        None => Seq::<Parameter>::empty(),
    }
}

pub open spec fn params_ok(s: Seq<Parameter>) -> bool {
    forall|i: int| 0 <= i < s.len() ==> parameter_ok(#[trigger] s[i])
}

/// `None` and `Some(vec![])` are the same record (count 0); the reader yields None for it
pub open spec fn enc_parameters(p: Option<Vec<Parameter>>) -> Seq<u8> {
    enc_list(params_seq(p), f_param())
}

pub open spec fn enc_opt_common_content(c: Option<CommonContent>) -> Seq<u8> {
    match c {
        Some(cc) => enc_bool(true) + enc_common_content(cc),
        None => enc_bool(false),
    }
}

pub open spec fn opt_common_content_ok(c: Option<CommonContent>) -> bool {
    match c {
        Some(cc) => common_content_ok(cc),
        None => true,
    }
}

#[verifier::opaque]
pub open spec fn enc_done_data(d: DoneData) -> Seq<u8> {
    enc_opt_common_content(d.content) + enc_parameters(d.params)
}

#[verifier::opaque]
pub open spec fn done_data_ok(d: DoneData) -> bool {
    opt_common_content_ok(d.content) && params_ok(params_seq(d.params))
}

// ---- Invoke ----------------------------------------------------------------------------------
#[verifier::opaque]
pub open spec fn enc_invoke(i: Invoke) -> Seq<u8> {
    enc_str(sb(i.invoke_id))
        + (if i.invoke_id@.len() == 0 { enc_str(sb(i.parent_state_name)) } else { Seq::<u8>::empty() })
        + enc_uint(i.doc_id as u64)
        + enc_data(i.src_expr) + enc_data(i.src) + enc_data(i.type_expr) + enc_data(i.type_name)
        + enc_str(sb(i.external_id_location))
        + enc_bool(i.autoforward)
        + enc_uint(i.finalize as u64)
        + enc_opt_common_content(i.content)
        + enc_parameters(i.params)
        + enc_list(i.name_list@, f_str())
}

#[verifier::opaque]
pub open spec fn invoke_ok(i: Invoke) -> bool {
    s_ok(i.invoke_id) && (i.invoke_id@.len() == 0 ==> s_ok(i.parent_state_name))
        && data_encodable(i.src_expr) && data_encodable(i.src) && data_encodable(i.type_expr) && data_encodable(i.type_name)
        && s_ok(i.external_id_location) && opt_common_content_ok(i.content) && params_ok(params_seq(i.params))
        && strs_ok(i.name_list@)
}

pub open spec fn invokes_ok(s: Seq<Invoke>) -> bool {
    forall|i: int| 0 <= i < s.len() ==> invoke_ok(#[trigger] s[i])
}

// ---- Transition ------------------------------------------------------------------------------
pub open spec fn transition_type_ordinal(t: TransitionType) -> u8 {
    match t {
        TransitionType::Internal => 0u8,
        TransitionType::External => 1u8,
    }
}

pub open spec fn transition_flags(t: Transition) -> u8 {
    (transition_type_ordinal(t.transition_type) + (if t.wildcard { 2int } else { 0int }) + (if data_is_empty(t.cond) { 0int } else { 4int })
        + (if t.content != 0 { 8int } else { 0int })) as u8
}

#[verifier::opaque]
pub open spec fn enc_transition(t: Transition) -> Seq<u8> {
    enc_uint(t.id as u64) + enc_uint(t.doc_id as u64) + enc_uint(t.source as u64)
        + enc_list(t.target@, f_id())
        + enc_list(t.events@, f_str())
        + enc_uint(transition_flags(t) as u64)
        + (if data_is_empty(t.cond) { Seq::<u8>::empty() } else { enc_data(t.cond) })
        + (if t.content != 0 { enc_uint(t.content as u64) } else { Seq::<u8>::empty() })
}

pub open spec fn transition_ok(t: Transition) -> bool {
    strs_ok(t.events@) && (!data_is_empty(t.cond) ==> data_encodable(t.cond))
}

// ---- State -----------------------------------------------------------------------------------
pub open spec fn history_type_ordinal(h: HistoryType) -> u8 {
    match h {
        HistoryType::Shallow => 1u8,
        HistoryType::Deep => 2u8,
        HistoryType::None => 0u8,
    }
}

#[verifier::opaque]
pub open spec fn state_flags(s: State) -> u16 {
    (history_type_ordinal(s.history_type) as int
        + (if s.onentry@.len() == 0 { 0int } else { 0x04int })
        + (if s.onexit@.len() == 0 { 0int } else { 0x08int })
        + (if s.states@.len() != 0 { 0x10int } else { 0int })
        + (if s.is_final { 0x20int } else { 0int })
        + (if s.is_parallel { 0x40int } else { 0int })
        + (if s.donedata.is_some() { 0x80int } else { 0int })
        + (if s.invoke.data@.len() > 0 { 0x100int } else { 0int })
        + (if s.data@.len() != 0 { 0x200int } else { 0int })
        + (if s.history.data@.len() > 0 { 0x400int } else { 0int })) as u16
}

/// the pairs of a data map in the order the writer iterated it (HashMap iteration order is unspecified; the reader
/// inserts the pairs into a map again, so every such order is the same record)
#[verifier::opaque]
pub open spec fn map_order(m: Map<String, DataArc>, order: Seq<(String, DataArc)>) -> bool {
    order.len() == m.len() && order.no_duplicates()
        && forall|i: int| 0 <= i < order.len() ==> m.contains_key((#[trigger] order[i]).0) && m[order[i].0] == order[i].1
}

pub open spec fn f_pair() -> spec_fn((String, DataArc)) -> Seq<u8> {
    |p: (String, DataArc)| enc_str(sb(p.0)) + enc_data_arc(p.1)
}

pub open spec fn pair_ok(p: (String, DataArc)) -> bool {
    s_ok(p.0) && data_arc_encodable(p.1)
}

pub open spec fn pairs_ok(s: Seq<(String, DataArc)>) -> bool {
    forall|i: int| 0 <= i < s.len() ==> pair_ok(#[trigger] s[i])
}

pub open spec fn deref_pair<'a>() -> spec_fn((&'a String, &'a DataArc)) -> (String, DataArc) {
    |p: (&'a String, &'a DataArc)| (*p.0, *p.1)
}

pub open spec fn enc_state_head(s: State) -> Seq<u8> {
    enc_uint(s.id as u64) + enc_uint(s.doc_id as u64) + enc_str(sb(s.name)) + enc_uint(state_flags(s) as u64)
        + (if s.states@.len() != 0 { enc_uint(s.initial as u64) + enc_list(s.states@, f_id()) } else { Seq::<u8>::empty() })
        + (if s.onentry@.len() != 0 { enc_list(s.onentry@, f_id()) } else { Seq::<u8>::empty() })
        + (if s.onexit@.len() != 0 { enc_list(s.onexit@, f_id()) } else { Seq::<u8>::empty() })
        + enc_list(s.transitions.data@, f_id())
        + (if s.invoke.data@.len() > 0 { enc_list(s.invoke.data@, f_invoke()) } else { Seq::<u8>::empty() })
        + (if s.history.data@.len() > 0 { enc_list(s.history.data@, f_id()) } else { Seq::<u8>::empty() })
}

pub open spec fn enc_opt_done_data(o: Option<DoneData>) -> Seq<u8> {
    match o {
        Some(d) => enc_done_data(d),
        None => Seq::<u8>::empty(),
    }
}

pub open spec fn opt_done_data_ok(o: Option<DoneData>) -> bool {
    match o {
        Some(d) => done_data_ok(d),
        None => true,
    }
}

pub open spec fn enc_state_tail(s: State) -> Seq<u8> {
    enc_uint(s.parent as u64)
        + enc_opt_done_data(s.donedata)
}

/// the whole state record, for one iteration order of the <data> map
pub open spec fn enc_state(s: State, order: Seq<(String, DataArc)>) -> Seq<u8> {
    enc_state_head(s) + (if s.data@.len() != 0 { enc_list(order, f_pair()) } else { Seq::<u8>::empty() }) + enc_state_tail(s)
}

pub open spec fn state_ok(s: State) -> bool {
    s_ok(s.name) && invokes_ok(s.invoke.data@)
        && opt_done_data_ok(s.donedata)
}

// ---- executable content ----------------------------------------------------------------------
pub open spec fn enc_if(e: If) -> Seq<u8> {
    enc_data(e.condition) + enc_uint(e.content as u64) + enc_uint(e.else_content as u64)
}

pub open spec fn enc_expression(e: Expression) -> Seq<u8> {
    enc_data(e.content)
}

pub open spec fn enc_script(e: Script) -> Seq<u8> {
    enc_list(e.content@, f_id())
}

pub open spec fn enc_log(e: Log) -> Seq<u8> {
    enc_str(sb(e.label)) + enc_data(e.expression)
}

pub open spec fn enc_for_each(e: ForEach) -> Seq<u8> {
    enc_uint(e.content as u64) + enc_str(sb(e.index)) + enc_data(e.array) + enc_str(sb(e.item))
}

/// the state name is part of the record when an id is generated from it (idlocation set)
#[verifier::opaque]
pub open spec fn enc_send(e: SendParameters) -> Seq<u8> {
    enc_str(sb(e.name)) + enc_data(e.target) + enc_data(e.target_expr)
        + enc_opt_common_content(e.content)
        + enc_list(e.name_list@, f_str())
        + enc_str(sb(e.name_location))
        + (if e.name_location@.len() != 0 { enc_str(sb(e.parent_state_name)) } else { Seq::<u8>::empty() })
        + enc_parameters(e.params)
        + enc_data(e.event) + enc_data(e.event_expr) + enc_data(e.type_value) + enc_data(e.type_expr)
        + enc_uint(e.delay_ms) + enc_data(e.delay_expr)
}

#[verifier::opaque]
pub open spec fn send_ok(e: SendParameters) -> bool {
    s_ok(e.name) && data_encodable(e.target) && data_encodable(e.target_expr) && opt_common_content_ok(e.content)
        && strs_ok(e.name_list@) && s_ok(e.name_location) && (e.name_location@.len() != 0 ==> s_ok(e.parent_state_name))
        && params_ok(params_seq(e.params))
        && data_encodable(e.event) && data_encodable(e.event_expr) && data_encodable(e.type_value) && data_encodable(e.type_expr)
        && data_encodable(e.delay_expr)
}

pub open spec fn enc_raise(e: Raise) -> Seq<u8> {
    enc_str(sb(e.event))
}

pub open spec fn enc_cancel(e: Cancel) -> Seq<u8> {
    enc_str(sb(e.send_id)) + enc_data(e.send_id_expr)
}

pub open spec fn enc_assign(e: Assign) -> Seq<u8> {
    enc_data(e.expr) + enc_data(e.location)
}

pub open spec fn binding_type_ordinal(b: BindingType) -> u8 {
    match b {
        BindingType::Early => 1u8,
        BindingType::Late => 2u8,
    }
}

pub mod seq_axioms {
    use super::*;

    /// appending is associative; used as a rewrite towards right-nested sums
    pub broadcast proof fn lemma_add_assoc<T>(a: Seq<T>, b: Seq<T>, c: Seq<T>)
        ensures
            #[trigger] ((a + b) + c) == a + (b + c),
    {
        assert(((a + b) + c) =~= a + (b + c));
    }

    pub broadcast proof fn lemma_add_empty<T>(a: Seq<T>)
        ensures
            #[trigger] (a + Seq::<T>::empty()) == a,
    {
        assert((a + Seq::<T>::empty()) =~= a);
    }
}

/// the writer's bit-or of the flag terms is the sum state_flags (the bits are disjoint)
pub proof fn lemma_state_flags(s: State, flags: u16)
    requires
        flags == (history_type_ordinal(s.history_type) as u16
            | (if s.onentry@.len() == 0 { 0u16 } else { 0x04u16 })
            | (if s.onexit@.len() == 0 { 0u16 } else { 0x08u16 })
            | (if s.states@.len() != 0 { 0x10u16 } else { 0u16 })
            | (if s.is_final { 0x20u16 } else { 0u16 })
            | (if s.is_parallel { 0x40u16 } else { 0u16 })
            | (if s.donedata.is_some() { 0x80u16 } else { 0u16 })
            | (if s.invoke.data@.len() > 0 { 0x100u16 } else { 0u16 })
            | (if s.data@.len() != 0 { 0x200u16 } else { 0u16 })
            | (if s.history.data@.len() > 0 { 0x400u16 } else { 0u16 })),
    ensures
        flags == state_flags(s),
{
    reveal(state_flags);
    let h: u16 = history_type_ordinal(s.history_type) as u16;
    let a: u16 = if s.onentry@.len() == 0 { 0u16 } else { 0x04u16 };
    let b: u16 = if s.onexit@.len() == 0 { 0u16 } else { 0x08u16 };
    let c: u16 = if s.states@.len() != 0 { 0x10u16 } else { 0u16 };
    let d: u16 = if s.is_final { 0x20u16 } else { 0u16 };
    let e: u16 = if s.is_parallel { 0x40u16 } else { 0u16 };
    let f: u16 = if s.donedata.is_some() { 0x80u16 } else { 0u16 };
    let g: u16 = if s.invoke.data@.len() > 0 { 0x100u16 } else { 0u16 };
    let i: u16 = if s.data@.len() != 0 { 0x200u16 } else { 0u16 };
    let j: u16 = if s.history.data@.len() > 0 { 0x400u16 } else { 0u16 };
    assert((h | a | b | c | d | e | f | g | i | j) == h + a + b + c + d + e + f + g + i + j) by (bit_vector)
        requires h <= 2 && (a == 0 || a == 0x04) && (b == 0 || b == 0x08) && (c == 0 || c == 0x10) && (d == 0 || d == 0x20)
            && (e == 0 || e == 0x40) && (f == 0 || f == 0x80) && (g == 0 || g == 0x100) && (i == 0 || i == 0x200) && (j == 0 || j == 0x400);
}

/// sequential composition of two record posts
pub proof fn lemma_compose(ok0: bool, out0: Seq<u8>, ok1: bool, out1: Seq<u8>, ok2: bool, out2: Seq<u8>, e1: bool, b1: Seq<u8>, e2: bool, b2: Seq<u8>)
    requires
        rec_post(ok0, out0, ok1, out1, e1, b1),
        rec_post(ok1, out1, ok2, out2, e2, b2),
    ensures
        rec_post(ok0, out0, ok2, out2, e1 && e2, b1 + b2),
{
    broadcast use seq_axioms::lemma_add_assoc;
}

pub proof fn lemma_map_order_empty(m: Map<String, DataArc>)
    requires
        m.len() == 0,
    ensures
        map_order(m, Seq::empty()),
{
    reveal(map_order);
}

/// the iteration order write_data_map used (it exists by write_data_map's postcondition)
#[verifier::opaque]
pub open spec fn data_order(ok0: bool, out0: Seq<u8>, ok1: bool, out1: Seq<u8>, m: Map<String, DataArc>) -> Seq<(String, DataArc)> {
    choose|order: Seq<(String, DataArc)>| map_order(m, order) && rec_post(ok0, out0, ok1, out1, pairs_ok(order), enc_list(order, f_pair()))
}

pub proof fn lemma_data_order(ok0: bool, out0: Seq<u8>, ok1: bool, out1: Seq<u8>, m: Map<String, DataArc>)
    requires
        exists|order: Seq<(String, DataArc)>| map_order(m, order) && rec_post(ok0, out0, ok1, out1, pairs_ok(order), enc_list(order, f_pair())),
    ensures
        map_order(m, data_order(ok0, out0, ok1, out1, m)),
        rec_post(ok0, out0, ok1, out1, pairs_ok(data_order(ok0, out0, ok1, out1, m)), enc_list(data_order(ok0, out0, ok1, out1, m), f_pair())),
{
    reveal(data_order);
}

// ---- write_state / read_state proof structure: the state record as a sequence of 10 sections ----------------
pub open spec fn st_sec(s: State, k: int) -> Seq<u8> {
    if k == 1 {
        enc_uint(s.id as u64) + enc_uint(s.doc_id as u64) + enc_str(sb(s.name)) + enc_uint(state_flags(s) as u64)
    } else if k == 2 {
        if s.states@.len() != 0 { enc_uint(s.initial as u64) + enc_list(s.states@, f_id()) } else { Seq::<u8>::empty() }
    } else if k == 3 {
        if s.onentry@.len() != 0 { enc_list(s.onentry@, f_id()) } else { Seq::<u8>::empty() }
    } else if k == 4 {
        if s.onexit@.len() != 0 { enc_list(s.onexit@, f_id()) } else { Seq::<u8>::empty() }
    } else if k == 5 {
        enc_list(s.transitions.data@, f_id())
    } else if k == 6 {
        if s.invoke.data@.len() > 0 { enc_list(s.invoke.data@, f_invoke()) } else { Seq::<u8>::empty() }
    } else if k == 7 {
        if s.history.data@.len() > 0 { enc_list(s.history.data@, f_id()) } else { Seq::<u8>::empty() }
    } else if k == 9 {
        enc_uint(s.parent as u64)
    } else {
        enc_opt_done_data(s.donedata)
    }
}

pub open spec fn st_ok(s: State, k: int) -> bool {
    if k == 1 {
        s_ok(s.name)
    } else if k == 6 {
        invokes_ok(s.invoke.data@)
    } else if k == 10 {
        opt_done_data_ok(s.donedata)
    } else {
        true
    }
}

/// section 8: the <data> map in iteration order `order`
pub open spec fn st_data(s: State, order: Seq<(String, DataArc)>) -> Seq<u8> {
    if s.data@.len() != 0 { enc_list(order, f_pair()) } else { Seq::<u8>::empty() }
}

pub open spec fn st_data_ok(s: State, order: Seq<(String, DataArc)>) -> bool {
    s.data@.len() != 0 ==> pairs_ok(order)
}

/// what write_state guarantees, for the iteration order `order` of the <data> map
pub open spec fn state_post(ok0: bool, out0: Seq<u8>, ok1: bool, out1: Seq<u8>, s: State, order: Seq<(String, DataArc)>) -> bool {
    map_order(s.data@, order)
        && rec_post(ok0, out0, ok1, out1, state_ok(s) && (s.data@.len() != 0 ==> pairs_ok(order)), enc_state(s, order))
}

/// the ten section posts compose to the record post
pub proof fn lemma_state_sections(s: State, order: Seq<(String, DataArc)>, ok0: bool, o0: Seq<u8>, ok1: bool, o1: Seq<u8>, ok2: bool, o2: Seq<u8>, ok3: bool, o3: Seq<u8>, ok4: bool, o4: Seq<u8>, ok5: bool, o5: Seq<u8>, ok6: bool, o6: Seq<u8>, ok7: bool, o7: Seq<u8>, ok8: bool, o8: Seq<u8>, ok9: bool, o9: Seq<u8>, ok10: bool, o10: Seq<u8>)
    requires
        map_order(s.data@, order),
        rec_post(ok0, o0, ok1, o1, st_ok(s, 1), st_sec(s, 1)),
        rec_post(ok1, o1, ok2, o2, st_ok(s, 2), st_sec(s, 2)),
        rec_post(ok2, o2, ok3, o3, st_ok(s, 3), st_sec(s, 3)),
        rec_post(ok3, o3, ok4, o4, st_ok(s, 4), st_sec(s, 4)),
        rec_post(ok4, o4, ok5, o5, st_ok(s, 5), st_sec(s, 5)),
        rec_post(ok5, o5, ok6, o6, st_ok(s, 6), st_sec(s, 6)),
        rec_post(ok6, o6, ok7, o7, st_ok(s, 7), st_sec(s, 7)),
        rec_post(ok7, o7, ok8, o8, st_data_ok(s, order), st_data(s, order)),
        rec_post(ok8, o8, ok9, o9, st_ok(s, 9), st_sec(s, 9)),
        rec_post(ok9, o9, ok10, o10, st_ok(s, 10), st_sec(s, 10)),
    ensures
        state_post(ok0, o0, ok10, o10, s, order),
{
    let c = |k: int| if k == 8 { st_data(s, order) } else { st_sec(s, k) };
    let e = |k: int| if k == 8 { st_data_ok(s, order) } else { st_ok(s, k) };
    lemma_compose(ok0, o0, ok1, o1, ok2, o2, e(1), c(1), e(2), c(2));
    lemma_compose(ok0, o0, ok2, o2, ok3, o3, e(1) && e(2), c(1) + c(2), e(3), c(3));
    lemma_compose(ok0, o0, ok3, o3, ok4, o4, e(1) && e(2) && e(3), c(1) + c(2) + c(3), e(4), c(4));
    lemma_compose(ok0, o0, ok4, o4, ok5, o5, e(1) && e(2) && e(3) && e(4), c(1) + c(2) + c(3) + c(4), e(5), c(5));
    lemma_compose(ok0, o0, ok5, o5, ok6, o6, e(1) && e(2) && e(3) && e(4) && e(5), c(1) + c(2) + c(3) + c(4) + c(5), e(6), c(6));
    lemma_compose(ok0, o0, ok6, o6, ok7, o7, e(1) && e(2) && e(3) && e(4) && e(5) && e(6), c(1) + c(2) + c(3) + c(4) + c(5) + c(6), e(7), c(7));
    assert(c(1) + c(2) + c(3) + c(4) + c(5) + c(6) + c(7) == enc_state_head(s));
    lemma_compose(ok0, o0, ok7, o7, ok8, o8, e(1) && e(2) && e(3) && e(4) && e(5) && e(6) && e(7), enc_state_head(s), e(8), c(8));
    lemma_compose(ok8, o8, ok9, o9, ok10, o10, e(9), c(9), e(10), c(10));
    assert(c(9) + c(10) == enc_state_tail(s));
    lemma_compose(ok0, o0, ok8, o8, ok10, o10, e(1) && e(2) && e(3) && e(4) && e(5) && e(6) && e(7) && e(8), enc_state_head(s) + c(8), e(9) && e(10), enc_state_tail(s));
}

pub proof fn lemma_sum4(o: Seq<u8>, a: Seq<u8>, b: Seq<u8>, c: Seq<u8>, d: Seq<u8>)
    ensures
        (((o + a) + b) + c) + d == o + (((a + b) + c) + d),
{
    assert((((o + a) + b) + c) + d =~= o + (((a + b) + c) + d));
}

pub proof fn lemma_pre1(o: Seq<u8>, n: Seq<u8>, e: Seq<u8>)
    requires
        e == Seq::<u8>::empty(),
    ensures
        o + n == o + (n + e),
{
    assert(n + e =~= n);
}

pub proof fn lemma_pre2(o: Seq<u8>, i: Seq<u8>, n: Seq<u8>, e: Seq<u8>)
    requires
        e == Seq::<u8>::empty(),
    ensures
        (o + i) + n == o + (i + (n + e)),
{
    assert((o + i) + n =~= o + (i + (n + e)));
}

// ---- executable content, tagged ------------------------------------------------------------------------------------
pub open spec fn enc_ec(v: EcV) -> Seq<u8> {
    enc_uint(ecv_type(v) as u64) + (match v {
        EcV::If(x) => enc_if(x),
        EcV::Expression(x) => enc_expression(x),
        EcV::Script(x) => enc_script(x),
        EcV::Log(x) => enc_log(x),
        EcV::ForEach(x) => enc_for_each(x),
        EcV::Send(x) => enc_send(x),
        EcV::Raise(x) => enc_raise(x),
        EcV::Cancel(x) => enc_cancel(x),
        EcV::Assign(x) => enc_assign(x),
    })
}

pub open spec fn ec_ok(v: EcV) -> bool {
    match v {
        EcV::If(x) => data_encodable(x.condition),
        EcV::Expression(x) => data_encodable(x.content),
        EcV::Script(x) => true,
        EcV::Log(x) => s_ok(x.label) && data_encodable(x.expression),
        EcV::ForEach(x) => s_ok(x.index) && s_ok(x.item) && data_encodable(x.array),
        EcV::Send(x) => send_ok(x),
        EcV::Raise(x) => s_ok(x.event),
        EcV::Cancel(x) => s_ok(x.send_id) && data_encodable(x.send_id_expr),
        EcV::Assign(x) => data_encodable(x.expr) && data_encodable(x.location),
    }
}
