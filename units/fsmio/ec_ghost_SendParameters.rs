    open spec fn ecv(&self) -> EcV {
        EcV::Send(*self)
    }
