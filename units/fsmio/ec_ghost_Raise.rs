    open spec fn ecv(&self) -> EcV {
        EcV::Raise(*self)
    }
