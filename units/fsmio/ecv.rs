/// ghost view of an executable-content element: which kind it is, with its fields (stands in for the `Any` downcast)
pub enum EcV {
    If(If),
    Expression(Expression),
    Script(Script),
    Log(Log),
    ForEach(ForEach),
    Send(SendParameters),
    Raise(Raise),
    Cancel(Cancel),
    Assign(Assign),
}

pub open spec fn ecv_type(v: EcV) -> u8 {
    match v {
        EcV::If(_) => 0u8,
        EcV::Expression(_) => 1u8,
        EcV::Script(_) => 2u8,
        EcV::Log(_) => 3u8,
        EcV::ForEach(_) => 4u8,
        EcV::Send(_) => 5u8,
        EcV::Raise(_) => 6u8,
        EcV::Cancel(_) => 7u8,
        EcV::Assign(_) => 8u8,
    }
}
