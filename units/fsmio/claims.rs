// Property-level lemmas of the record layer: decoding inverts encoding (C05), for every value, whatever follows.
// Together with the writer contracts (out' == out + enc_X(v)) and the reader contracts (result == d_X(rest)) they give the
// round trip of that record kind for a reliable byte source.

// serves: C05
pub proof fn lemma_rt_d_uint(v: u64, tail: Seq<u8>)
    ensures
        d_uint(enc_uint(v) + tail) == Dec::Ok(v, tail),
{
    lemma_rt_uint(v, tail);
}

// serves: C05
pub proof fn lemma_rt_d_id(v: u32, tail: Seq<u8>)
    ensures
        d_id(enc_uint(v as u64) + tail) == Dec::Ok(v, tail),
{
    lemma_rt_uint(v as u64, tail);
}

// serves: C05
pub proof fn lemma_rt_d_str(s: String, tail: Seq<u8>)
    requires
        s_ok(s),
    ensures
        d_str(enc_str(sb(s)) + tail) == Dec::Ok(sb(s), tail),
{
    vstd::utf8::encode_utf8_valid_utf8(s@);
    lemma_rt_str(sb(s), tail);
}

// serves: C05
pub proof fn lemma_rt_d_bool(b: bool, tail: Seq<u8>)
    ensures
        d_bool(enc_bool(b) + tail) == Dec::Ok(b, tail),
{
    lemma_rt_tags(tail);
}

// serves: C05
pub proof fn lemma_rt_d_opt_str(o: Option<String>, tail: Seq<u8>)
    requires
        opt_str_encodable(o),
    ensures
        d_opt_str(enc_opt_str(opt_str_bytes(o)) + tail) == Dec::Ok(opt_str_bytes(o), tail),
{
    lemma_rt_tags(tail);
    match o {
        Some(s) => {
            lemma_rt_d_str(s, tail);
            // a string token never starts with the 0x10 "none" tag
            let b = sb(s);
            assert((enc_str(b) + tail)[0] == enc_str(b)[0]);
        }
        None => {}
    }
}

// serves: C05
pub proof fn lemma_rt_parameter(p: Parameter, tail: Seq<u8>)
    requires
        parameter_ok(p),
    ensures
        d_parameter(enc_parameter(p) + tail) == Dec::Ok(pv(p), tail),
{
    broadcast use seq_axioms::lemma_add_assoc;
    lemma_rt_d_str(p.name, enc_str(sb(p.expr)) + (enc_str(sb(p.location)) + tail));
    lemma_rt_d_str(p.expr, enc_str(sb(p.location)) + tail);
    lemma_rt_d_str(p.location, tail);
}

// serves: C05
pub proof fn lemma_rt_common_content(c: CommonContent, tail: Seq<u8>)
    requires
        common_content_ok(c),
    ensures
        d_common_content(enc_common_content(c) + tail) == Dec::Ok(ccv(c), tail),
{
    broadcast use seq_axioms::lemma_add_assoc;
    lemma_rt_d_opt_str(c.content, enc_opt_str(opt_str_bytes(c.content_expr)) + tail);
    lemma_rt_d_opt_str(c.content_expr, tail);
}

// ---- counted lists: decoding inverts encoding when it does so for every element ------------------------------
/// "fd inverts fe on every acceptable element, whatever follows"
pub open spec fn elem_rt<A, V>(fe: spec_fn(A) -> Seq<u8>, fd: spec_fn(Seq<u8>) -> Dec<V>, view: spec_fn(A) -> V, ok: spec_fn(A) -> bool) -> bool {
    forall|x: A, tail: Seq<u8>| ok(x) ==> #[trigger] fd(fe(x) + tail) == Dec::Ok(view(x), tail)
}

// serves: C05
pub proof fn lemma_enc_seq_front<A>(s: Seq<A>, fe: spec_fn(A) -> Seq<u8>)
    requires
        s.len() > 0,
    ensures
        enc_seq(s, fe) == fe(s[0]) + enc_seq(s.subrange(1, s.len() as int), fe),
    decreases s.len(),
{
    reveal_with_fuel(enc_seq, 2);
    broadcast use {seq_axioms::lemma_add_assoc, seq_axioms::lemma_add_empty};
    let t = s.subrange(1, s.len() as int);
    if s.len() == 1 {
        assert(s.drop_last() == Seq::<A>::empty());
        assert(t == Seq::<A>::empty());
        assert(Seq::<u8>::empty() + fe(s[0]) == fe(s[0]));
    } else {
        lemma_enc_seq_front(s.drop_last(), fe);
        assert(s.drop_last().subrange(1, s.len() as int - 1) == t.drop_last());
        assert(s.drop_last()[0] == s[0]);
        assert(t.last() == s.last());
    }
}

// serves: C05
pub proof fn lemma_rt_seq<A, V>(s: Seq<A>, acc: Seq<V>, tail: Seq<u8>, fe: spec_fn(A) -> Seq<u8>, fd: spec_fn(Seq<u8>) -> Dec<V>, view: spec_fn(A) -> V, ok: spec_fn(A) -> bool)
    requires
        elem_rt(fe, fd, view, ok),
        forall|i: int| 0 <= i < s.len() ==> ok(#[trigger] s[i]),
    ensures
        d_seq(s.len(), acc, enc_seq(s, fe) + tail, fd) == Dec::Ok(acc + s.map_values(view), tail),
    decreases s.len(),
{
    reveal_with_fuel(d_seq, 2);
    broadcast use {seq_axioms::lemma_add_assoc, seq_axioms::lemma_add_empty};
    if s.len() == 0 {
        reveal_with_fuel(enc_seq, 2);
        assert(Seq::<u8>::empty() + tail == tail);
        assert(acc + s.map_values(view) == acc);
    } else {
        let t = s.subrange(1, s.len() as int);
        lemma_enc_seq_front(s, fe);
        assert(enc_seq(s, fe) + tail == fe(s[0]) + (enc_seq(t, fe) + tail));
        assert(ok(s[0]));
        assert(fd(fe(s[0]) + (enc_seq(t, fe) + tail)) == Dec::Ok(view(s[0]), enc_seq(t, fe) + tail));
        assert forall|i: int| 0 <= i < t.len() implies ok(#[trigger] t[i]) by {
            assert(t[i] == s[i + 1]);
        }
        lemma_rt_seq(t, acc.push(view(s[0])), tail, fe, fd, view, ok);
        assert(acc.push(view(s[0])) + t.map_values(view) == acc + s.map_values(view));
    }
}

// serves: C05
pub proof fn lemma_rt_list<A, V>(s: Seq<A>, tail: Seq<u8>, fe: spec_fn(A) -> Seq<u8>, fd: spec_fn(Seq<u8>) -> Dec<V>, view: spec_fn(A) -> V, ok: spec_fn(A) -> bool)
    requires
        elem_rt(fe, fd, view, ok),
        forall|i: int| 0 <= i < s.len() ==> ok(#[trigger] s[i]),
        s.len() <= u64::MAX,
    ensures
        d_list(enc_list(s, fe) + tail, fd) == Dec::Ok(s.map_values(view), tail),
{
    broadcast use {seq_axioms::lemma_add_assoc, seq_axioms::lemma_add_empty};
    lemma_rt_d_uint(s.len() as u64, enc_seq(s, fe) + tail);
    lemma_rt_seq(s, Seq::<V>::empty(), tail, fe, fd, view, ok);
    assert(Seq::<V>::empty() + s.map_values(view) == s.map_values(view));
}

// serves: C05
/// id lists (targets, child states, onentry/onexit blocks, script regions, ...)
pub proof fn lemma_rt_id_list(s: Seq<u32>, tail: Seq<u8>)
    requires
        s.len() <= u64::MAX,
    ensures
        d_list(enc_list(s, f_id()) + tail, fd_id()) == Dec::Ok(s, tail),
{
    let view = |x: u32| x;
    let ok = |x: u32| true;
    assert forall|x: u32, t: Seq<u8>| ok(x) implies #[trigger] fd_id()(f_id()(x) + t) == Dec::Ok(view(x), t) by {
        lemma_rt_d_id(x, t);
    }
    lemma_rt_list(s, tail, f_id(), fd_id(), view, ok);
    assert(s.map_values(view) == s);
}

// serves: C05
/// string lists (event descriptors, namelists)
pub proof fn lemma_rt_str_list(s: Seq<String>, tail: Seq<u8>)
    requires
        strs_ok(s),
        s.len() <= u64::MAX,
    ensures
        d_list(enc_list(s, f_str()) + tail, fd_str()) == Dec::Ok(strs_v(s), tail),
{
    let view = |x: String| sb(x);
    let ok = |x: String| s_ok(x);
    assert forall|x: String, t: Seq<u8>| ok(x) implies #[trigger] fd_str()(f_str()(x) + t) == Dec::Ok(view(x), t) by {
        lemma_rt_d_str(x, t);
    }
    lemma_rt_list(s, tail, f_str(), fd_str(), view, ok);
    assert(s.map_values(view) == strs_v(s));
}

// serves: C05
/// <param> lists (None and an empty list are the same record)
pub proof fn lemma_rt_parameters(p: Option<Vec<Parameter>>, tail: Seq<u8>)
    requires
        params_ok(params_seq(p)),
        params_seq(p).len() <= u64::MAX,
    ensures
        d_parameters(enc_parameters(p) + tail) == Dec::Ok(params_v(params_seq(p)), tail),
{
    let s = params_seq(p);
    let view = |x: Parameter| pv(x);
    let ok = |x: Parameter| parameter_ok(x);
    assert forall|x: Parameter, t: Seq<u8>| ok(x) implies #[trigger] fd_param()(f_param()(x) + t) == Dec::Ok(view(x), t) by {
        lemma_rt_parameter(x, t);
    }
    lemma_rt_list(s, tail, f_param(), fd_param(), view, ok);
    assert(s.map_values(view) == params_v(s));
}

// ---- records ---------------------------------------------------------------------------------------------------
// serves: C05
pub proof fn lemma_rt_opt_common_content(c: Option<CommonContent>, tail: Seq<u8>)
    requires
        opt_common_content_ok(c),
    ensures
        d_opt_common_content(enc_opt_common_content(c) + tail) == Dec::Ok(opt_ccv(c), tail),
{
    broadcast use seq_axioms::lemma_add_assoc;
    match c {
        Some(cc) => {
            lemma_rt_d_bool(true, enc_common_content(cc) + tail);
            lemma_rt_common_content(cc, tail);
        }
        None => {
            lemma_rt_d_bool(false, tail);
        }
    }
}

// serves: C05
pub proof fn lemma_rt_done_data(d: DoneData, tail: Seq<u8>)
    requires
        done_data_ok(d),
        params_seq(d.params).len() <= u64::MAX,
    ensures
        d_done_data(enc_done_data(d) + tail) == Dec::Ok(ddv(d), tail),
{
    reveal(enc_done_data);
    reveal(done_data_ok);
    broadcast use seq_axioms::lemma_add_assoc;
    lemma_rt_opt_common_content(d.content, enc_parameters(d.params) + tail);
    lemma_rt_parameters(d.params, tail);
}

// serves: C05
pub proof fn lemma_rt_raise(e: Raise, tail: Seq<u8>)
    requires
        s_ok(e.event),
    ensures
        d_raise(enc_raise(e) + tail) == Dec::Ok(ecb(EcV::Raise(e)), tail),
{
    lemma_rt_d_str(e.event, tail);
}

// serves: C05
pub proof fn lemma_rt_cancel(e: Cancel, tail: Seq<u8>)
    requires
        s_ok(e.send_id),
        data_encodable(e.send_id_expr),
    ensures
        d_cancel(enc_cancel(e) + tail) == Dec::Ok(ecb(EcV::Cancel(e)), tail),
{
    broadcast use seq_axioms::lemma_add_assoc;
    lemma_rt_d_str(e.send_id, enc_data(e.send_id_expr) + tail);
    trusted_data_codec::axiom_rt_data(e.send_id_expr, tail);
}

// serves: C05
pub proof fn lemma_rt_assign(e: Assign, tail: Seq<u8>)
    requires
        data_encodable(e.expr),
        data_encodable(e.location),
    ensures
        d_assign(enc_assign(e) + tail) == Dec::Ok(ecb(EcV::Assign(e)), tail),
{
    broadcast use seq_axioms::lemma_add_assoc;
    trusted_data_codec::axiom_rt_data(e.expr, enc_data(e.location) + tail);
    trusted_data_codec::axiom_rt_data(e.location, tail);
}

// serves: C05
pub proof fn lemma_rt_expression(e: Expression, tail: Seq<u8>)
    requires
        data_encodable(e.content),
    ensures
        d_expression(enc_expression(e) + tail) == Dec::Ok(ecb(EcV::Expression(e)), tail),
{
    trusted_data_codec::axiom_rt_data(e.content, tail);
}

// serves: C05
pub proof fn lemma_rt_log(e: Log, tail: Seq<u8>)
    requires
        s_ok(e.label),
        data_encodable(e.expression),
    ensures
        d_log(enc_log(e) + tail) == Dec::Ok(ecb(EcV::Log(e)), tail),
{
    broadcast use seq_axioms::lemma_add_assoc;
    lemma_rt_d_str(e.label, enc_data(e.expression) + tail);
    trusted_data_codec::axiom_rt_data(e.expression, tail);
}

// serves: C05
pub proof fn lemma_rt_if(e: If, tail: Seq<u8>)
    requires
        data_encodable(e.condition),
    ensures
        d_if(enc_if(e) + tail) == Dec::Ok(ecb(EcV::If(e)), tail),
{
    broadcast use seq_axioms::lemma_add_assoc;
    trusted_data_codec::axiom_rt_data(e.condition, enc_uint(e.content as u64) + (enc_uint(e.else_content as u64) + tail));
    lemma_rt_d_id(e.content, enc_uint(e.else_content as u64) + tail);
    lemma_rt_d_id(e.else_content, tail);
}

// serves: C05
pub proof fn lemma_rt_for_each(e: ForEach, tail: Seq<u8>)
    requires
        s_ok(e.index),
        s_ok(e.item),
        data_encodable(e.array),
    ensures
        d_for_each(enc_for_each(e) + tail) == Dec::Ok(ecb(EcV::ForEach(e)), tail),
{
    broadcast use seq_axioms::lemma_add_assoc;
    lemma_rt_d_id(e.content, enc_str(sb(e.index)) + (enc_data(e.array) + (enc_str(sb(e.item)) + tail)));
    lemma_rt_d_str(e.index, enc_data(e.array) + (enc_str(sb(e.item)) + tail));
    trusted_data_codec::axiom_rt_data(e.array, enc_str(sb(e.item)) + tail);
    lemma_rt_d_str(e.item, tail);
}

// serves: C05
pub proof fn lemma_rt_script(e: Script, tail: Seq<u8>)
    requires
        e.content@.len() <= u64::MAX,
    ensures
        d_script(enc_script(e) + tail) == Dec::Ok(ecb(EcV::Script(e)), tail),
{
    lemma_rt_id_list(e.content@, tail);
}

/// what survives of a transition: an empty guard is not persisted and comes back as Data::Null()
pub open spec fn trv_persisted(t: Transition) -> TransV {
    TransV {
        id: t.id, doc_id: t.doc_id, source: t.source, target: t.target@, events: strs_v(t.events@),
        ttype: transition_type_ordinal(t.transition_type), wildcard: t.wildcard,
        cond: if data_is_empty(t.cond) { data_null() } else { t.cond }, content: t.content,
    }
}

// serves: C05
#[verifier::rlimit(400)]
pub proof fn lemma_rt_transition(t: Transition, tail: Seq<u8>)
    requires
        transition_ok(t),
        t.target@.len() <= u64::MAX,
        t.events@.len() <= u64::MAX,
    ensures
        d_transition(enc_transition(t) + tail) == Dec::Ok(trv_persisted(t), tail),
{
    let fl = transition_flags(t);
    let o = transition_type_ordinal(t.transition_type);
    let w: u8 = if t.wildcard { 2u8 } else { 0u8 };
    let c: u8 = if data_is_empty(t.cond) { 0u8 } else { 4u8 };
    let k: u8 = if t.content != 0 { 8u8 } else { 0u8 };
    let g: u8 = o | w | c | k;
    assert(g == o + w + c + k && g & 1 == o && ((g & 2) != 0) == (w != 0) && ((g & 4) != 0) == (c != 0) && ((g & 8) != 0) == (k != 0)) by (bit_vector)
        requires g == (o | w | c | k) && o <= 1 && (w == 0 || w == 2) && (c == 0 || c == 4) && (k == 0 || k == 8);
    assert(fl == g);
    let e_c = if data_is_empty(t.cond) { Seq::<u8>::empty() } else { enc_data(t.cond) };
    let e_k = if t.content != 0 { enc_uint(t.content as u64) } else { Seq::<u8>::empty() };
    let r7 = e_k + tail;
    let r6 = e_c + r7;
    let r5 = enc_uint(fl as u64) + r6;
    let r4 = enc_list(t.events@, f_str()) + r5;
    let r3 = enc_list(t.target@, f_id()) + r4;
    let r2 = enc_uint(t.source as u64) + r3;
    let r1 = enc_uint(t.doc_id as u64) + r2;
    assert(enc_transition(t) + tail == enc_uint(t.id as u64) + r1) by {
        reveal(enc_transition);
        broadcast use {seq_axioms::lemma_add_assoc, seq_axioms::lemma_add_empty};
    }
    let ev = strs_v(t.events@);
    let cv = if data_is_empty(t.cond) { data_null() } else { t.cond };
    lemma_rt_d_id(t.id, r1);
    assert(d_transition(enc_transition(t) + tail) == d_tr1(t.id, r1));
    lemma_rt_d_id(t.doc_id, r2);
    assert(d_tr1(t.id, r1) == d_tr2(t.id, t.doc_id, r2));
    lemma_rt_d_id(t.source, r3);
    assert(d_tr2(t.id, t.doc_id, r2) == d_tr3(t.id, t.doc_id, t.source, r3));
    lemma_rt_id_list(t.target@, r4);
    assert(d_tr3(t.id, t.doc_id, t.source, r3) == d_tr4(t.id, t.doc_id, t.source, t.target@, r4));
    lemma_rt_str_list(t.events@, r5);
    assert(d_tr4(t.id, t.doc_id, t.source, t.target@, r4) == d_tr5(t.id, t.doc_id, t.source, t.target@, ev, r5));
    lemma_rt_d_uint(fl as u64, r6);
    assert(d_tr5(t.id, t.doc_id, t.source, t.target@, ev, r5) == d_tr6(t.id, t.doc_id, t.source, t.target@, ev, fl, r6));
    if !data_is_empty(t.cond) {
        trusted_data_codec::axiom_rt_data(t.cond, r7);
    }
    assert(d_tr6(t.id, t.doc_id, t.source, t.target@, ev, fl, r6) == d_tr7(t.id, t.doc_id, t.source, t.target@, ev, fl, cv, r7));
    if t.content != 0 {
        lemma_rt_d_id(t.content, tail);
    }
    assert(d_tr7(t.id, t.doc_id, t.source, t.target@, ev, fl, cv, r7) == Dec::Ok(trv_persisted(t), tail));
}

/// list lengths fit the count token (true of every Vec)
pub open spec fn ec_sizes_ok(v: EcV) -> bool {
    match v {
        EcV::Script(x) => x.content@.len() <= u64::MAX,
        EcV::Send(x) => params_seq(x.params).len() <= u64::MAX && x.name_list@.len() <= u64::MAX,
        _ => true,
    }
}

// serves: C05
/// every executable-content element: reading what write_executable_content wrote yields the same element
#[verifier::rlimit(400)]
pub proof fn lemma_rt_ec(v: EcV, tail: Seq<u8>)
    requires
        ec_ok(v),
        ec_sizes_ok(v),
    ensures
        d_ec(enc_ec(v) + tail) == Dec::Ok(ecb(v), tail),
{
    match v {
        EcV::If(x) => {
            seq_axioms::lemma_add_assoc(enc_uint(0u64), enc_if(x), tail);
            lemma_rt_d_uint(0u64, enc_if(x) + tail);
            lemma_rt_if(x, tail);
        }
        EcV::Expression(x) => {
            seq_axioms::lemma_add_assoc(enc_uint(1u64), enc_expression(x), tail);
            lemma_rt_d_uint(1u64, enc_expression(x) + tail);
            lemma_rt_expression(x, tail);
        }
        EcV::Script(x) => {
            seq_axioms::lemma_add_assoc(enc_uint(2u64), enc_script(x), tail);
            lemma_rt_d_uint(2u64, enc_script(x) + tail);
            lemma_rt_script(x, tail);
        }
        EcV::Log(x) => {
            seq_axioms::lemma_add_assoc(enc_uint(3u64), enc_log(x), tail);
            lemma_rt_d_uint(3u64, enc_log(x) + tail);
            lemma_rt_log(x, tail);
        }
        EcV::ForEach(x) => {
            seq_axioms::lemma_add_assoc(enc_uint(4u64), enc_for_each(x), tail);
            lemma_rt_d_uint(4u64, enc_for_each(x) + tail);
            lemma_rt_for_each(x, tail);
        }
        EcV::Send(x) => {
            seq_axioms::lemma_add_assoc(enc_uint(5u64), enc_send(x), tail);
            lemma_rt_d_uint(5u64, enc_send(x) + tail);
            lemma_rt_send(x, tail);
        }
        EcV::Raise(x) => {
            seq_axioms::lemma_add_assoc(enc_uint(6u64), enc_raise(x), tail);
            lemma_rt_d_uint(6u64, enc_raise(x) + tail);
            lemma_rt_raise(x, tail);
        }
        EcV::Cancel(x) => {
            seq_axioms::lemma_add_assoc(enc_uint(7u64), enc_cancel(x), tail);
            lemma_rt_d_uint(7u64, enc_cancel(x) + tail);
            lemma_rt_cancel(x, tail);
        }
        EcV::Assign(x) => {
            seq_axioms::lemma_add_assoc(enc_uint(8u64), enc_assign(x), tail);
            lemma_rt_d_uint(8u64, enc_assign(x) + tail);
            lemma_rt_assign(x, tail);
        }
    }
}

// serves: C05
/// what the record-level proofs add up to, for one record kind (the others are the same three facts): if the writer
/// appended enc_parameter(p) and the reader then reads from a reliable source positioned there, it ends ok, has
/// consumed exactly those bytes, and returns a parameter with the same persisted fields
pub proof fn lemma_end_to_end_parameter(p: Parameter, tail: Seq<u8>, ok1: bool, rest1: Seq<u8>, q: Parameter)
    requires
        parameter_ok(p),
        rd(d_parameter(enc_parameter(p) + tail), true, ok1, rest1, pv(q)),
    ensures
        ok1 && rest1 == tail && pv(q) == pv(p),
{
    lemma_rt_parameter(p, tail);
}

// ---- State: the decoder specification inverts the encoder specification -----------------------------------------
// (FsmWriter::write_state is proved against enc_state; FsmReader::read_state is NOT proved against d_state, see DESIGN 0a.4)

/// what survives of a state: `initial` only when the state has children; the <data> values are not part of the view
pub open spec fn stv_persisted(s: State) -> StV {
    StV {
        id: s.id, doc_id: s.doc_id, name: sb(s.name), history_type: history_type_ordinal(s.history_type), is_parallel: s.is_parallel,
        is_final: s.is_final, initial: if s.states@.len() != 0 { s.initial } else { 0u32 }, states: s.states@, onentry: s.onentry@, onexit: s.onexit@,
        transitions: s.transitions.data@, invoke: invs_v(s.invoke.data@), history: s.history.data@, parent: s.parent,
        donedata: match s.donedata { Some(d) => Some(ddv(d)), None => None },
    }
}

pub open spec fn invoke_sizes_ok(x: Invoke) -> bool {
    params_seq(x.params).len() <= u64::MAX && x.name_list@.len() <= u64::MAX
}

pub open spec fn state_sizes_ok(s: State, order: Seq<(String, DataArc)>) -> bool {
    s.states@.len() <= u64::MAX && s.onentry@.len() <= u64::MAX && s.onexit@.len() <= u64::MAX && s.transitions.data@.len() <= u64::MAX
        && s.invoke.data@.len() <= u64::MAX && s.history.data@.len() <= u64::MAX && order.len() <= u64::MAX
        && (forall|i: int| 0 <= i < s.invoke.data@.len() ==> invoke_sizes_ok(#[trigger] s.invoke.data@[i]))
        && (match s.donedata { Some(d) => params_seq(d.params).len() <= u64::MAX, None => true })
}

// serves: C05
/// the flag word written by write_state tells the reader exactly which sections follow
pub proof fn lemma_state_flag_bits(s: State)
    ensures
        ({
            let fl = state_flags(s);
            &&& ht_of(fl) == history_type_ordinal(s.history_type)
            &&& ((fl & 0x04) != 0) == (s.onentry@.len() != 0)
            &&& ((fl & 0x08) != 0) == (s.onexit@.len() != 0)
            &&& ((fl & 0x10) != 0) == (s.states@.len() != 0)
            &&& ((fl & 0x20) != 0) == s.is_final
            &&& ((fl & 0x40) != 0) == s.is_parallel
            &&& ((fl & 0x80) != 0) == s.donedata.is_some()
            &&& ((fl & 0x100) != 0) == (s.invoke.data@.len() > 0)
            &&& ((fl & 0x200) != 0) == (s.data@.len() != 0)
            &&& ((fl & 0x400) != 0) == (s.history.data@.len() > 0)
        }),
{
    reveal(state_flags);
    let h: u16 = history_type_ordinal(s.history_type) as u16;
    let a: u16 = if s.onentry@.len() == 0 { 0u16 } else { 0x04u16 };
    let b: u16 = if s.onexit@.len() == 0 { 0u16 } else { 0x08u16 };
    let c: u16 = if s.states@.len() != 0 { 0x10u16 } else { 0u16 };
    let d: u16 = if s.is_final { 0x20u16 } else { 0u16 };
    let e: u16 = if s.is_parallel { 0x40u16 } else { 0u16 };
    let f: u16 = if s.donedata.is_some() { 0x80u16 } else { 0u16 };
    let g: u16 = if s.invoke.data@.len() > 0 { 0x100u16 } else { 0u16 };
    let i: u16 = if s.data@.len() != 0 { 0x200u16 } else { 0u16 };
    let j: u16 = if s.history.data@.len() > 0 { 0x400u16 } else { 0u16 };
    let w: u16 = h | a | b | c | d | e | f | g | i | j;
    assert(w == h + a + b + c + d + e + f + g + i + j && (w & 3) == h && ((w & 0x04) != 0) == (a != 0) && ((w & 0x08) != 0) == (b != 0) && ((w & 0x10) != 0) == (c != 0)
        && ((w & 0x20) != 0) == (d != 0) && ((w & 0x40) != 0) == (e != 0) && ((w & 0x80) != 0) == (f != 0) && ((w & 0x100) != 0) == (g != 0)
        && ((w & 0x200) != 0) == (i != 0) && ((w & 0x400) != 0) == (j != 0)) by (bit_vector)
        requires w == (h | a | b | c | d | e | f | g | i | j) && h <= 2 && (a == 0 || a == 0x04) && (b == 0 || b == 0x08) && (c == 0 || c == 0x10) && (d == 0 || d == 0x20)
            && (e == 0 || e == 0x40) && (f == 0 || f == 0x80) && (g == 0 || g == 0x100) && (i == 0 || i == 0x200) && (j == 0 || j == 0x400);
    assert(state_flags(s) == w);
}

// serves: C05
#[verifier::rlimit(400)]
pub proof fn lemma_rt_invoke_list(s: Seq<Invoke>, tail: Seq<u8>)
    requires
        invokes_ok(s),
        forall|i: int| 0 <= i < s.len() ==> invoke_sizes_ok(#[trigger] s[i]),
        s.len() <= u64::MAX,
    ensures
        d_list(enc_list(s, f_invoke()) + tail, fd_invoke()) == Dec::Ok(invs_v(s), tail),
{
    let view = |x: Invoke| invv(x);
    let ok = |x: Invoke| invoke_ok(x) && invoke_sizes_ok(x);
    assert forall|x: Invoke, t: Seq<u8>| ok(x) implies #[trigger] fd_invoke()(f_invoke()(x) + t) == Dec::Ok(view(x), t) by {
        lemma_rt_invoke(x, t);
    }
    lemma_rt_list(s, tail, f_invoke(), fd_invoke(), view, ok);
    assert(s.map_values(view) == invs_v(s));
}

// serves: C05
pub proof fn lemma_rt_pairs(order: Seq<(String, DataArc)>, tail: Seq<u8>)
    requires
        pairs_ok(order),
        order.len() <= u64::MAX,
    ensures
        consumed(d_list(enc_list(order, f_pair()) + tail, fd_pair())) == Dec::Ok((), tail),
{
    broadcast use seq_axioms::lemma_add_assoc;
    let view = |p: (String, DataArc)| (sb(p.0), p.1);
    let ok = |p: (String, DataArc)| pair_ok(p);
    assert forall|x: (String, DataArc), t: Seq<u8>| ok(x) implies #[trigger] fd_pair()(f_pair()(x) + t) == Dec::Ok(view(x), t) by {
        lemma_rt_d_str(x.0, enc_data_arc(x.1) + t);
        trusted_data_codec::axiom_rt_data_arc(x.1, t);
    }
    lemma_rt_list(order, tail, f_pair(), fd_pair(), view, ok);
}

// serves: C05
/// the state record as a right-nested sum of its sections (pure sequence algebra)
pub proof fn lemma_state_layout(s: State, order: Seq<(String, DataArc)>, tail: Seq<u8>)
    ensures
        enc_state(s, order) + tail == enc_uint(s.id as u64) + (enc_uint(s.doc_id as u64) + (enc_str(sb(s.name)) + (enc_uint(state_flags(s) as u64)
            + ((if s.states@.len() != 0 { enc_uint(s.initial as u64) } else { Seq::<u8>::empty() })
            + ((if s.states@.len() != 0 { enc_list(s.states@, f_id()) } else { Seq::<u8>::empty() })
            + ((if s.onentry@.len() != 0 { enc_list(s.onentry@, f_id()) } else { Seq::<u8>::empty() })
            + ((if s.onexit@.len() != 0 { enc_list(s.onexit@, f_id()) } else { Seq::<u8>::empty() })
            + (enc_list(s.transitions.data@, f_id())
            + ((if s.invoke.data@.len() > 0 { enc_list(s.invoke.data@, f_invoke()) } else { Seq::<u8>::empty() })
            + ((if s.history.data@.len() > 0 { enc_list(s.history.data@, f_id()) } else { Seq::<u8>::empty() })
            + ((if s.data@.len() != 0 { enc_list(order, f_pair()) } else { Seq::<u8>::empty() })
            + (enc_uint(s.parent as u64) + (enc_opt_done_data(s.donedata) + tail))))))))))))),
{
    broadcast use {seq_axioms::lemma_add_assoc, seq_axioms::lemma_add_empty};
    assert(Seq::<u8>::empty() + Seq::<u8>::empty() == Seq::<u8>::empty());
}

// serves: C05
/// the state record: the decoder specification applied to what write_state emits yields every persisted field back
#[verifier::rlimit(400)]
pub proof fn lemma_rt_state(s: State, order: Seq<(String, DataArc)>, tail: Seq<u8>)
    requires
        state_ok(s),
        s.data@.len() != 0 ==> pairs_ok(order),
        state_sizes_ok(s, order),
    ensures
        d_state(enc_state(s, order) + tail) == Dec::Ok(stv_persisted(s), tail),
{
    lemma_state_flag_bits(s);
    lemma_state_layout(s, order, tail);
    let fl = state_flags(s);
    let e = Seq::<u8>::empty();
    let e_dd = enc_opt_done_data(s.donedata);
    let r13 = e_dd + tail;
    let r12 = enc_uint(s.parent as u64) + r13;
    let e_data = if s.data@.len() != 0 { enc_list(order, f_pair()) } else { e };
    let r11 = e_data + r12;
    let e_hi = if s.history.data@.len() > 0 { enc_list(s.history.data@, f_id()) } else { e };
    let r10 = e_hi + r11;
    let e_iv = if s.invoke.data@.len() > 0 { enc_list(s.invoke.data@, f_invoke()) } else { e };
    let r9 = e_iv + r10;
    let r8 = enc_list(s.transitions.data@, f_id()) + r9;
    let e_ex = if s.onexit@.len() != 0 { enc_list(s.onexit@, f_id()) } else { e };
    let r7 = e_ex + r8;
    let e_en = if s.onentry@.len() != 0 { enc_list(s.onentry@, f_id()) } else { e };
    let r6 = e_en + r7;
    let e_sts = if s.states@.len() != 0 { enc_list(s.states@, f_id()) } else { e };
    let r5 = e_sts + r6;
    let e_ini = if s.states@.len() != 0 { enc_uint(s.initial as u64) } else { e };
    let r4 = e_ini + r5;
    let r3 = enc_uint(fl as u64) + r4;
    let r2 = enc_str(sb(s.name)) + r3;
    let r1 = enc_uint(s.doc_id as u64) + r2;
    assert(enc_state(s, order) + tail == enc_uint(s.id as u64) + r1);
    let v = stv_persisted(s);
    lemma_rt_d_id(s.id, r1);
    assert(d_state(enc_state(s, order) + tail) == d_st1(v.id, r1));
    lemma_rt_d_id(s.doc_id, r2);
    assert(d_st1(v.id, r1) == d_st2(v.id, v.doc_id, r2));
    lemma_rt_d_str(s.name, r3);
    assert(d_st2(v.id, v.doc_id, r2) == d_st3(v.id, v.doc_id, v.name, r3));
    lemma_rt_d_uint(fl as u64, r4);
    assert(d_st3(v.id, v.doc_id, v.name, r3) == d_st4(v.id, v.doc_id, v.name, fl, r4));
    if s.states@.len() != 0 {
        lemma_rt_d_id(s.initial, r5);
        lemma_rt_id_list(s.states@, r6);
    }
    assert(d_st4(v.id, v.doc_id, v.name, fl, r4) == d_st5(v.id, v.doc_id, v.name, fl, v.initial, r5));
    assert(d_st5(v.id, v.doc_id, v.name, fl, v.initial, r5) == d_st6(v.id, v.doc_id, v.name, fl, v.initial, v.states, r6)) by {
        if s.states@.len() == 0 { lemma_len0_is_empty(s.states@); }
    }
    if s.onentry@.len() != 0 { lemma_rt_id_list(s.onentry@, r7); } else { lemma_len0_is_empty(s.onentry@); }
    assert(d_st6(v.id, v.doc_id, v.name, fl, v.initial, v.states, r6) == d_st7(v.id, v.doc_id, v.name, fl, v.initial, v.states, v.onentry, r7));
    if s.onexit@.len() != 0 { lemma_rt_id_list(s.onexit@, r8); } else { lemma_len0_is_empty(s.onexit@); }
    assert(d_st7(v.id, v.doc_id, v.name, fl, v.initial, v.states, v.onentry, r7) == d_st8(v.id, v.doc_id, v.name, fl, v.initial, v.states, v.onentry, v.onexit, r8));
    lemma_rt_id_list(s.transitions.data@, r9);
    assert(d_st8(v.id, v.doc_id, v.name, fl, v.initial, v.states, v.onentry, v.onexit, r8) == d_st9(v.id, v.doc_id, v.name, fl, v.initial, v.states, v.onentry, v.onexit, v.transitions, r9));
    if s.invoke.data@.len() > 0 { lemma_rt_invoke_list(s.invoke.data@, r10); } else { lemma_map_empty(s.invoke.data@, |i: Invoke| invv(i)); }
    assert(d_st9(v.id, v.doc_id, v.name, fl, v.initial, v.states, v.onentry, v.onexit, v.transitions, r9) == d_st10(v.id, v.doc_id, v.name, fl, v.initial, v.states, v.onentry, v.onexit, v.transitions, v.invoke, r10));
    if s.history.data@.len() > 0 { lemma_rt_id_list(s.history.data@, r11); } else { lemma_len0_is_empty(s.history.data@); }
    assert(d_st10(v.id, v.doc_id, v.name, fl, v.initial, v.states, v.onentry, v.onexit, v.transitions, v.invoke, r10) == d_st11(v.id, v.doc_id, v.name, fl, v.initial, v.states, v.onentry, v.onexit, v.transitions, v.invoke, v.history, r11));
    if s.data@.len() != 0 { lemma_rt_pairs(order, r12); }
    assert(d_st11(v.id, v.doc_id, v.name, fl, v.initial, v.states, v.onentry, v.onexit, v.transitions, v.invoke, v.history, r11) == d_st12(v.id, v.doc_id, v.name, fl, v.initial, v.states, v.onentry, v.onexit, v.transitions, v.invoke, v.history, r12));
    lemma_rt_d_id(s.parent, r13);
    assert(d_st12(v.id, v.doc_id, v.name, fl, v.initial, v.states, v.onentry, v.onexit, v.transitions, v.invoke, v.history, r12) == d_st13(v.id, v.doc_id, v.name, fl, v.initial, v.states, v.onentry, v.onexit, v.transitions, v.invoke, v.history, v.parent, r13));
    match s.donedata {
        Some(d) => { lemma_rt_done_data(d, tail); }
        None => {}
    }
    assert(d_st13(v.id, v.doc_id, v.name, fl, v.initial, v.states, v.onentry, v.onexit, v.transitions, v.invoke, v.history, v.parent, r13) == Dec::Ok(v, tail));
}
