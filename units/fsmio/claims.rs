// Property-level lemmas of the record layer: decoding inverts encoding (C05), for every value, whatever follows.
// Together with the writer contracts (out' == out + enc_X(v)) and the reader contracts (result == d_X(rest)) they give the
// round trip of that record kind for a reliable byte source.

// serves: C05
pub proof fn lemma_rt_d_uint(v: u64, tail: Seq<u8>)
    ensures
        d_uint(enc_uint(v) + tail) == Dec::Ok(v, tail),
{
    lemma_rt_uint(v, tail);
}

// serves: C05
pub proof fn lemma_rt_d_id(v: u32, tail: Seq<u8>)
    ensures
        d_id(enc_uint(v as u64) + tail) == Dec::Ok(v, tail),
{
    lemma_rt_uint(v as u64, tail);
}

// serves: C05
pub proof fn lemma_rt_d_str(s: String, tail: Seq<u8>)
    requires
        s_ok(s),
    ensures
        d_str(enc_str(sb(s)) + tail) == Dec::Ok(sb(s), tail),
{
    vstd::utf8::encode_utf8_valid_utf8(s@);
    lemma_rt_str(sb(s), tail);
}

// serves: C05
pub proof fn lemma_rt_d_bool(b: bool, tail: Seq<u8>)
    ensures
        d_bool(enc_bool(b) + tail) == Dec::Ok(b, tail),
{
    lemma_rt_tags(tail);
}

// serves: C05
pub proof fn lemma_rt_d_opt_str(o: Option<String>, tail: Seq<u8>)
    requires
        opt_str_encodable(o),
    ensures
        d_opt_str(enc_opt_str(opt_str_bytes(o)) + tail) == Dec::Ok(opt_str_bytes(o), tail),
{
    lemma_rt_tags(tail);
    match o {
        Some(s) => {
            lemma_rt_d_str(s, tail);
            // a string token never starts with the 0x10 "none" tag
            let b = sb(s);
            assert((enc_str(b) + tail)[0] == enc_str(b)[0]);
        }
        None => {}
    }
}

// serves: C05
pub proof fn lemma_rt_parameter(p: Parameter, tail: Seq<u8>)
    requires
        parameter_ok(p),
    ensures
        d_parameter(enc_parameter(p) + tail) == Dec::Ok(pv(p), tail),
{
    broadcast use seq_axioms::lemma_add_assoc;
    lemma_rt_d_str(p.name, enc_str(sb(p.expr)) + (enc_str(sb(p.location)) + tail));
    lemma_rt_d_str(p.expr, enc_str(sb(p.location)) + tail);
    lemma_rt_d_str(p.location, tail);
}

// serves: C05
pub proof fn lemma_rt_common_content(c: CommonContent, tail: Seq<u8>)
    requires
        common_content_ok(c),
    ensures
        d_common_content(enc_common_content(c) + tail) == Dec::Ok(ccv(c), tail),
{
    broadcast use seq_axioms::lemma_add_assoc;
    lemma_rt_d_opt_str(c.content, enc_opt_str(opt_str_bytes(c.content_expr)) + tail);
    lemma_rt_d_opt_str(c.content_expr, tail);
}
