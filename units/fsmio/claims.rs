// Property-level lemmas of the record layer: decoding inverts encoding (C05), for every value, whatever follows.
// Together with the writer contracts (out' == out + enc_X(v)) and the reader contracts (result == d_X(rest)) they give the
// round trip of that record kind for a reliable byte source.

// serves: C05
pub proof fn lemma_rt_d_uint(v: u64, tail: Seq<u8>)
    ensures
        d_uint(enc_uint(v) + tail) == Dec::Ok(v, tail),
{
    lemma_rt_uint(v, tail);
}

// serves: C05
pub proof fn lemma_rt_d_id(v: u32, tail: Seq<u8>)
    ensures
        d_id(enc_uint(v as u64) + tail) == Dec::Ok(v, tail),
{
    lemma_rt_uint(v as u64, tail);
}

// serves: C05
pub proof fn lemma_rt_d_str(s: String, tail: Seq<u8>)
    requires
        s_ok(s),
    ensures
        d_str(enc_str(sb(s)) + tail) == Dec::Ok(sb(s), tail),
{
    vstd::utf8::encode_utf8_valid_utf8(s@);
    lemma_rt_str(sb(s), tail);
}

// serves: C05
pub proof fn lemma_rt_d_bool(b: bool, tail: Seq<u8>)
    ensures
        d_bool(enc_bool(b) + tail) == Dec::Ok(b, tail),
{
    lemma_rt_tags(tail);
}

// serves: C05
pub proof fn lemma_rt_d_opt_str(o: Option<String>, tail: Seq<u8>)
    requires
        opt_str_encodable(o),
    ensures
        d_opt_str(enc_opt_str(opt_str_bytes(o)) + tail) == Dec::Ok(opt_str_bytes(o), tail),
{
    lemma_rt_tags(tail);
    match o {
        Some(s) => {
            lemma_rt_d_str(s, tail);
            // a string token never starts with the 0x10 "none" tag
            let b = sb(s);
            assert((enc_str(b) + tail)[0] == enc_str(b)[0]);
        }
        None => {}
    }
}

// serves: C05
pub proof fn lemma_rt_parameter(p: Parameter, tail: Seq<u8>)
    requires
        parameter_ok(p),
    ensures
        d_parameter(enc_parameter(p) + tail) == Dec::Ok(pv(p), tail),
{
    broadcast use seq_axioms::lemma_add_assoc;
    lemma_rt_d_str(p.name, enc_str(sb(p.expr)) + (enc_str(sb(p.location)) + tail));
    lemma_rt_d_str(p.expr, enc_str(sb(p.location)) + tail);
    lemma_rt_d_str(p.location, tail);
}

// serves: C05
pub proof fn lemma_rt_common_content(c: CommonContent, tail: Seq<u8>)
    requires
        common_content_ok(c),
    ensures
        d_common_content(enc_common_content(c) + tail) == Dec::Ok(ccv(c), tail),
{
    broadcast use seq_axioms::lemma_add_assoc;
    lemma_rt_d_opt_str(c.content, enc_opt_str(opt_str_bytes(c.content_expr)) + tail);
    lemma_rt_d_opt_str(c.content_expr, tail);
}

// ---- counted lists: decoding inverts encoding when it does so for every element ------------------------------
/// "fd inverts fe on every acceptable element, whatever follows"
pub open spec fn elem_rt<A, V>(fe: spec_fn(A) -> Seq<u8>, fd: spec_fn(Seq<u8>) -> Dec<V>, view: spec_fn(A) -> V, ok: spec_fn(A) -> bool) -> bool {
    forall|x: A, tail: Seq<u8>| ok(x) ==> #[trigger] fd(fe(x) + tail) == Dec::Ok(view(x), tail)
}

// serves: C05
pub proof fn lemma_enc_seq_front<A>(s: Seq<A>, fe: spec_fn(A) -> Seq<u8>)
    requires
        s.len() > 0,
    ensures
        enc_seq(s, fe) == fe(s[0]) + enc_seq(s.subrange(1, s.len() as int), fe),
    decreases s.len(),
{
    reveal_with_fuel(enc_seq, 2);
    broadcast use {seq_axioms::lemma_add_assoc, seq_axioms::lemma_add_empty};
    let t = s.subrange(1, s.len() as int);
    if s.len() == 1 {
        assert(s.drop_last() == Seq::<A>::empty());
        assert(t == Seq::<A>::empty());
        assert(Seq::<u8>::empty() + fe(s[0]) == fe(s[0]));
    } else {
        lemma_enc_seq_front(s.drop_last(), fe);
        assert(s.drop_last().subrange(1, s.len() as int - 1) == t.drop_last());
        assert(s.drop_last()[0] == s[0]);
        assert(t.last() == s.last());
    }
}

// serves: C05
pub proof fn lemma_rt_seq<A, V>(s: Seq<A>, acc: Seq<V>, tail: Seq<u8>, fe: spec_fn(A) -> Seq<u8>, fd: spec_fn(Seq<u8>) -> Dec<V>, view: spec_fn(A) -> V, ok: spec_fn(A) -> bool)
    requires
        elem_rt(fe, fd, view, ok),
        forall|i: int| 0 <= i < s.len() ==> ok(#[trigger] s[i]),
    ensures
        d_seq(s.len(), acc, enc_seq(s, fe) + tail, fd) == Dec::Ok(acc + s.map_values(view), tail),
    decreases s.len(),
{
    reveal_with_fuel(d_seq, 2);
    broadcast use {seq_axioms::lemma_add_assoc, seq_axioms::lemma_add_empty};
    if s.len() == 0 {
        reveal_with_fuel(enc_seq, 2);
        assert(Seq::<u8>::empty() + tail == tail);
        assert(acc + s.map_values(view) == acc);
    } else {
        let t = s.subrange(1, s.len() as int);
        lemma_enc_seq_front(s, fe);
        assert(enc_seq(s, fe) + tail == fe(s[0]) + (enc_seq(t, fe) + tail));
        assert(ok(s[0]));
        assert(fd(fe(s[0]) + (enc_seq(t, fe) + tail)) == Dec::Ok(view(s[0]), enc_seq(t, fe) + tail));
        assert forall|i: int| 0 <= i < t.len() implies ok(#[trigger] t[i]) by {
            assert(t[i] == s[i + 1]);
        }
        lemma_rt_seq(t, acc.push(view(s[0])), tail, fe, fd, view, ok);
        assert(acc.push(view(s[0])) + t.map_values(view) == acc + s.map_values(view));
    }
}

// serves: C05
pub proof fn lemma_rt_list<A, V>(s: Seq<A>, tail: Seq<u8>, fe: spec_fn(A) -> Seq<u8>, fd: spec_fn(Seq<u8>) -> Dec<V>, view: spec_fn(A) -> V, ok: spec_fn(A) -> bool)
    requires
        elem_rt(fe, fd, view, ok),
        forall|i: int| 0 <= i < s.len() ==> ok(#[trigger] s[i]),
        s.len() <= u64::MAX,
    ensures
        d_list(enc_list(s, fe) + tail, fd) == Dec::Ok(s.map_values(view), tail),
{
    broadcast use {seq_axioms::lemma_add_assoc, seq_axioms::lemma_add_empty};
    lemma_rt_d_uint(s.len() as u64, enc_seq(s, fe) + tail);
    lemma_rt_seq(s, Seq::<V>::empty(), tail, fe, fd, view, ok);
    assert(Seq::<V>::empty() + s.map_values(view) == s.map_values(view));
}

// serves: C05
/// id lists (targets, child states, onentry/onexit blocks, script regions, ...)
pub proof fn lemma_rt_id_list(s: Seq<u32>, tail: Seq<u8>)
    requires
        s.len() <= u64::MAX,
    ensures
        d_list(enc_list(s, f_id()) + tail, fd_id()) == Dec::Ok(s, tail),
{
    let view = |x: u32| x;
    let ok = |x: u32| true;
    assert forall|x: u32, t: Seq<u8>| ok(x) implies #[trigger] fd_id()(f_id()(x) + t) == Dec::Ok(view(x), t) by {
        lemma_rt_d_id(x, t);
    }
    lemma_rt_list(s, tail, f_id(), fd_id(), view, ok);
    assert(s.map_values(view) == s);
}

// serves: C05
/// string lists (event descriptors, namelists)
pub proof fn lemma_rt_str_list(s: Seq<String>, tail: Seq<u8>)
    requires
        strs_ok(s),
        s.len() <= u64::MAX,
    ensures
        d_list(enc_list(s, f_str()) + tail, fd_str()) == Dec::Ok(strs_v(s), tail),
{
    let view = |x: String| sb(x);
    let ok = |x: String| s_ok(x);
    assert forall|x: String, t: Seq<u8>| ok(x) implies #[trigger] fd_str()(f_str()(x) + t) == Dec::Ok(view(x), t) by {
        lemma_rt_d_str(x, t);
    }
    lemma_rt_list(s, tail, f_str(), fd_str(), view, ok);
    assert(s.map_values(view) == strs_v(s));
}

// serves: C05
/// <param> lists (None and an empty list are the same record)
pub proof fn lemma_rt_parameters(p: Option<Vec<Parameter>>, tail: Seq<u8>)
    requires
        params_ok(params_seq(p)),
        params_seq(p).len() <= u64::MAX,
    ensures
        d_parameters(enc_parameters(p) + tail) == Dec::Ok(params_v(params_seq(p)), tail),
{
    let s = params_seq(p);
    let view = |x: Parameter| pv(x);
    let ok = |x: Parameter| parameter_ok(x);
    assert forall|x: Parameter, t: Seq<u8>| ok(x) implies #[trigger] fd_param()(f_param()(x) + t) == Dec::Ok(view(x), t) by {
        lemma_rt_parameter(x, t);
    }
    lemma_rt_list(s, tail, f_param(), fd_param(), view, ok);
    assert(s.map_values(view) == params_v(s));
}
