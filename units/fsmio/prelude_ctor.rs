// TRUSTED stand-ins for constructors / std calls the reader uses.  Each `new` below restates the struct literal of the
// real constructor as a postcondition; unit.json "body_checks" compares the real body text with the one these
// were written from on every run (a changed constructor makes the unit UNDECIDED, not silently wrong).
pub type TransitionMap = HashMap<TransitionId, Transition>;

/// the value `Data::None()`
pub uninterp spec fn data_none() -> Data;

impl Data {
    /// stand-in for the enum constructor `Data::None()`
    #[allow(non_snake_case)]
    #[verifier::external_body]
    pub fn None() -> (r: Data)
        ensures
            r == data_none(),
    {
        unimplemented!()
    }
}

impl State {
    #[verifier::external_body]
    pub fn new(name: &str) -> (r: State)
        ensures
            r.id == 0, r.doc_id == 0, r.name@ == name@, r.initial == 0, r.states@.len() == 0, r.onentry@.len() == 0, r.onexit@.len() == 0,
            r.transitions.data@.len() == 0, !r.is_parallel, !r.is_final, r.history_type == HistoryType::None, r.data@.len() == 0,
            r.isFirstEntry, r.parent == 0, r.donedata.is_none(), r.invoke.data@.len() == 0, r.history.data@.len() == 0,
    {
        unimplemented!()
    }
}

impl Invoke {
    #[verifier::external_body]
    pub fn new() -> (r: Invoke)
        ensures
            r.doc_id == 0, r.invoke_id@.len() == 0, r.parent_state_name@.len() == 0, r.external_id_location@.len() == 0,
            r.type_name == data_none(), r.type_expr == data_none(), r.name_list@.len() == 0, r.src == data_none(), r.src_expr == data_none(),
            !r.autoforward, r.params.is_none(), r.content.is_none(), r.finalize == 0,
    {
        unimplemented!()
    }
}

impl Transition {
    /// `id` comes from the global ID_COUNTER (any value)
    #[verifier::external_body]
    pub fn new() -> (r: Transition)
        ensures
            r.doc_id == 0, r.events@.len() == 0, !r.wildcard, r.cond == data_null(), r.source == 0, r.target@.len() == 0,
            r.transition_type == TransitionType::External, r.content == 0,
    {
        unimplemented!()
    }
}

impl SendParameters {
    #[verifier::external_body]
    pub fn new() -> (r: SendParameters)
        ensures
            r.name_location@.len() == 0, r.name@.len() == 0, r.parent_state_name@.len() == 0, r.event == data_none(), r.event_expr == data_none(),
            r.target == data_none(), r.target_expr == data_none(), r.type_value == data_none(), r.type_expr == data_none(), r.delay_ms == 0,
            r.delay_expr == data_none(), r.name_list@.len() == 0, r.params.is_none(), r.content.is_none(),
    {
        unimplemented!()
    }
}

impl Expression {
    #[verifier::external_body]
    pub fn new() -> (r: Expression) {
        unimplemented!()
    }
}

impl Log {
    /// Log::new(&Some(&label), expression): label.unwrap_or(..).clone()
    #[verifier::external_body]
    pub fn new(label: &Option<&String>, expression: Data) -> (r: Log)
        ensures
            r.expression == expression,
            label.is_some() ==> r.label@ == label.unwrap()@,
    {
        unimplemented!()
    }
}

impl Parameter {
    #[verifier::external_body]
    pub fn new() -> (r: Parameter) {
        unimplemented!()
    }
}

impl Fsm {
    #[verifier::external_body]
    pub fn new() -> (r: Fsm)
        ensures
            r.states@.len() == 0, r.transitions@.len() == 0, r.executableContent@.len() == 0,
    {
        unimplemented!()
    }
}

/// R19: `a == b` on `&str` (PartialEq for str) routed through a wrapper: byte-wise equality
#[verifier::external_body]
pub fn verif_str_eq(a: &str, b: &str) -> (r: bool)
    ensures
        r == (a.spec_bytes() == b.spec_bytes()),
{
    a == b
}

/// R19: `"literal".to_string()`
#[verifier::external_body]
pub fn verif_to_string(a: &str) -> (r: String)
    ensures
        r@ == a@,
{
    a.to_string()
}
