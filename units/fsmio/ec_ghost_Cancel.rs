    open spec fn ecv(&self) -> EcV {
        EcV::Cancel(*self)
    }
