// type aliases of src/fsm.rs (copied: `pub type X = u32;`)
// the build targets of rFSM are 64-bit (usize lengths are written as u64 tokens)
global size_of usize == 8;

pub type StateId = u32;
pub type DocumentId = u32;
pub type ExecutableContentId = u32;
pub type TransitionId = u32;
pub type InvokeId = String;

// TRUSTED stand-in: the data-model value types are opaque in this unit.  The record layer only passes them to
// ProtocolWriter::write_data / ProtocolReader::read_data, whose byte format is an uninterpreted function here
// (`enc_data`); the value codec itself (DefaultProtocolWriter::write_data, read_data_value_payload) is NOT under
// contract (recursive enum behind Arc<Mutex<..>>), see evidence.assumptions.
#[verifier::external_body]
pub struct Data {
    _p: (),
}

#[verifier::external_body]
pub struct DataArc {
    _p: (),
}

/// the bytes write_data emits for a value (uninterpreted)
pub uninterp spec fn enc_data(d: Data) -> Seq<u8>;
/// write_data can encode the value (all strings inside are < 4096 bytes, ...)
pub uninterp spec fn data_encodable(d: Data) -> bool;
pub uninterp spec fn enc_data_arc(d: DataArc) -> Seq<u8>;
pub uninterp spec fn data_arc_encodable(d: DataArc) -> bool;
/// Data::is_empty (src/datamodel/mod.rs), uninterpreted
pub uninterp spec fn data_is_empty(d: Data) -> bool;
/// the value `Data::Null()`
pub uninterp spec fn data_null() -> Data;

impl Data {
    #[verifier::external_body]
    pub fn is_empty(&self) -> (r: bool)
        ensures
            r == data_is_empty(*self),
    {
        unimplemented!()
    }

    /// stand-in for the enum constructor `Data::Null()`
    #[allow(non_snake_case)]
    #[verifier::external_body]
    pub fn Null() -> (r: Data)
        ensures
            r == data_null(),
    {
        unimplemented!()
    }
}

pub mod trusted_axioms2 {
    use super::*;

    /// A4: `String` hashes and compares consistently (vstd ships this axiom for the integer types only)
    #[verifier::external_body]
    pub broadcast proof fn axiom_string_key_model()
        ensures
            #[trigger] vstd::std_specs::hash::obeys_key_model::<String>(),
    {
    }
}

// `#[derive(Clone)]` of Invoke (needed only for the bound `List<T: Clone>`; never called in this unit)
impl Clone for Invoke {
    #[verifier::external_body]
    fn clone(&self) -> (r: Self)
        ensures
            r == *self,
    {
        unimplemented!()
    }
}

// `impl PartialEq for Invoke` of src/fsm.rs (needed only for the bound of `impl<T: Clone + PartialEq> List<T>`; never called here)
impl PartialEq for Invoke {
    #[verifier::external_body]
    fn eq(&self, other: &Self) -> bool {
        unimplemented!()
    }
}

// Decoding result of the record layer (three-valued like the token layer, see spec_dec.rs)
pub enum Dec<T> {
    Ok(T, Seq<u8>),
    Fail,
    Unknown,
}


/// the bytes read_data consumes and the value it returns: uninterpreted (the Data codec is not under contract)
pub uninterp spec fn d_data(s: Seq<u8>) -> Dec<Data>;

/// the bytes read_data_arc consumes (uninterpreted; the value codec is not under contract)
pub uninterp spec fn d_data_arc(s: Seq<u8>) -> Dec<DataArc>;

pub mod trusted_data_codec {
    use super::*;

    /// ASSUMED (the Data value codec DefaultProtocolWriter::write_data / read_data_value_payload is not under contract):
    /// reading what write_data wrote yields the same value, whatever follows
    #[verifier::external_body]
    pub proof fn axiom_rt_data(d: Data, tail: Seq<u8>)
        requires
            data_encodable(d),
        ensures
            d_data(enc_data(d) + tail) == Dec::Ok(d, tail),
    {
    }

    /// ASSUMED: same for values behind an Arc (write_data_arc / read_data_arc)
    #[verifier::external_body]
    pub proof fn axiom_rt_data_arc(d: DataArc, tail: Seq<u8>)
        requires
            data_arc_encodable(d),
        ensures
            d_data_arc(enc_data_arc(d) + tail) == Dec::Ok(d, tail),
    {
    }

    /// Data::Null() is empty (src/datamodel/mod.rs, Data::is_empty)
    #[verifier::external_body]
    pub proof fn axiom_null_is_empty()
        ensures
            data_is_empty(data_null()),
    {
    }
}
