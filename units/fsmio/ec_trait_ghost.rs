    // ghost member added by rule R15 (no executable text)
    spec fn ecv(&self) -> EcV;
