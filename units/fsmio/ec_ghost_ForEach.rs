    open spec fn ecv(&self) -> EcV {
        EcV::ForEach(*self)
    }
