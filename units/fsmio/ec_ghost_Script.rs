    open spec fn ecv(&self) -> EcV {
        EcV::Script(*self)
    }
