    open spec fn ecv(&self) -> EcV {
        EcV::If(*self)
    }
