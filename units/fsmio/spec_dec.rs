// ---------------------------------------------------------------------------------------------
// Decoding side of the record layer: what the FsmReader functions must return for a given byte sequence.
// `Dec` is three-valued like the token layer: Ok(value, rest), Fail (cut off / wrong token kind: the reader must
// end in error state) and Unknown (a head byte of no token class: the token reader promises nothing, see unit proto).
// ---------------------------------------------------------------------------------------------

/// shape of every record-reader postcondition (reader was ok before the call): `got` is the view of what the call
/// returned, `rel` says that the byte source fails only at end of data
pub open spec fn rd<T>(d: Dec<T>, rel: bool, ok1: bool, rest1: Seq<u8>, got: T) -> bool {
    match d {
        Dec::Ok(v, rest) => (rel ==> ok1) && (ok1 ==> got == v && rest1 == rest),
        Dec::Fail => !ok1,
        Dec::Unknown => true,
    }
}

pub open spec fn d_uint(s: Seq<u8>) -> Dec<u64> {
    match dec_tv(s) {
        Tv::Num(k, v, n) => Dec::Ok(v, skip(s, n)),
        Tv::Unknown => Dec::Unknown,
        _ => Dec::Fail,
    }
}

pub open spec fn d_str(s: Seq<u8>) -> Dec<Seq<u8>> {
    match dec_tv(s) {
        Tv::Str(t, b, n) => Dec::Ok(b, skip(s, n)),
        Tv::Unknown => Dec::Unknown,
        _ => Dec::Fail,
    }
}

pub open spec fn d_bool(s: Seq<u8>) -> Dec<bool> {
    if s.len() >= 1 && (s[0] == 0x1F || s[0] == 0x10) {
        Dec::Ok(s[0] == 0x1F, skip(s, 1))
    } else {
        Dec::Fail
    }
}

pub open spec fn d_opt_str(s: Seq<u8>) -> Dec<Option<Seq<u8>>> {
    if dec_tv(s) == Tv::Tag(0x10u8) {
        Dec::Ok(None, skip(s, 1))
    } else {
        match d_str(s) {
            Dec::Ok(b, r) => Dec::Ok(Some(b), r),
            Dec::Fail => Dec::Fail,
            Dec::Unknown => Dec::Unknown,
        }
    }
}

/// ids are read as `read_uint() as u32`
pub open spec fn d_id(s: Seq<u8>) -> Dec<u32> {
    match d_uint(s) {
        Dec::Ok(v, r) => Dec::Ok(v as u32, r),
        Dec::Fail => Dec::Fail,
        Dec::Unknown => Dec::Unknown,
    }
}

// ---- views (what of a record is persisted) -----------------------------------------------------------
pub struct ParamV {
    pub name: Seq<u8>,
    pub expr: Seq<u8>,
    pub location: Seq<u8>,
}

pub open spec fn pv(p: Parameter) -> ParamV {
    ParamV { name: sb(p.name), expr: sb(p.expr), location: sb(p.location) }
}

pub struct CcV {
    pub content: Option<Seq<u8>>,
    pub content_expr: Option<Seq<u8>>,
}

pub open spec fn ccv(c: CommonContent) -> CcV {
    CcV { content: opt_str_bytes(c.content), content_expr: opt_str_bytes(c.content_expr) }
}

pub open spec fn d_parameter(s: Seq<u8>) -> Dec<ParamV> {
    match d_str(s) {
        Dec::Ok(a, s1) => match d_str(s1) {
            Dec::Ok(b, s2) => match d_str(s2) {
                Dec::Ok(c, s3) => Dec::Ok(ParamV { name: a, expr: b, location: c }, s3),
                Dec::Fail => Dec::Fail,
                Dec::Unknown => Dec::Unknown,
            },
            Dec::Fail => Dec::Fail,
            Dec::Unknown => Dec::Unknown,
        },
        Dec::Fail => Dec::Fail,
        Dec::Unknown => Dec::Unknown,
    }
}

pub open spec fn d_common_content(s: Seq<u8>) -> Dec<CcV> {
    match d_opt_str(s) {
        Dec::Ok(a, s1) => match d_opt_str(s1) {
            Dec::Ok(b, s2) => Dec::Ok(CcV { content: a, content_expr: b }, s2),
            Dec::Fail => Dec::Fail,
            Dec::Unknown => Dec::Unknown,
        },
        Dec::Fail => Dec::Fail,
        Dec::Unknown => Dec::Unknown,
    }
}

// ---- counted lists ----------------------------------------------------------------------------------
/// n more elements decoded by f, appended to acc
pub open spec fn d_seq<T>(n: nat, acc: Seq<T>, s: Seq<u8>, f: spec_fn(Seq<u8>) -> Dec<T>) -> Dec<Seq<T>>
    decreases n,
{
    if n == 0 {
        Dec::Ok(acc, s)
    } else {
        match f(s) {
            Dec::Ok(v, r) => d_seq((n - 1) as nat, acc.push(v), r, f),
            Dec::Fail => Dec::Fail,
            Dec::Unknown => Dec::Unknown,
        }
    }
}

/// element count, then the elements
pub open spec fn d_list<T>(s: Seq<u8>, f: spec_fn(Seq<u8>) -> Dec<T>) -> Dec<Seq<T>> {
    match d_uint(s) {
        Dec::Ok(n, r) => d_seq(n as nat, Seq::<T>::empty(), r, f),
        Dec::Fail => Dec::Fail,
        Dec::Unknown => Dec::Unknown,
    }
}

/// loop invariant of a list-reading loop: `total` is the decoding of the whole list, i elements are read into `acc`
pub open spec fn list_inv<T>(total: Dec<Seq<T>>, n: nat, i: nat, acc: Seq<T>, ok: bool, rel: bool, rest: Seq<u8>, f: spec_fn(Seq<u8>) -> Dec<T>) -> bool {
    i <= n && (total is Unknown || ((ok ==> d_seq((n - i) as nat, acc, rest, f) == total) && (!ok ==> !(total is Ok && rel))))
}

pub open spec fn fd_id() -> spec_fn(Seq<u8>) -> Dec<u32> {
    |s: Seq<u8>| d_id(s)
}

pub open spec fn fd_str() -> spec_fn(Seq<u8>) -> Dec<Seq<u8>> {
    |s: Seq<u8>| d_str(s)
}

pub open spec fn fd_param() -> spec_fn(Seq<u8>) -> Dec<ParamV> {
    |s: Seq<u8>| d_parameter(s)
}

pub open spec fn strs_v(v: Seq<String>) -> Seq<Seq<u8>> {
    v.map_values(|s: String| sb(s))
}

pub open spec fn params_v(v: Seq<Parameter>) -> Seq<ParamV> {
    v.map_values(|p: Parameter| pv(p))
}

/// `None` and an empty list are the same record: the reader yields None for count 0
pub open spec fn d_parameters(s: Seq<u8>) -> Dec<Seq<ParamV>> {
    d_list(s, fd_param())
}

pub struct DoneDataV {
    pub content: Option<CcV>,
    pub params: Seq<ParamV>,
}

pub open spec fn ddv(d: DoneData) -> DoneDataV {
    DoneDataV { content: match d.content { Some(c) => Some(ccv(c)), None => None }, params: params_v(params_seq(d.params)) }
}

pub open spec fn d_opt_common_content(s: Seq<u8>) -> Dec<Option<CcV>> {
    match d_bool(s) {
        Dec::Ok(b, r) => if b {
            match d_common_content(r) {
                Dec::Ok(c, r2) => Dec::Ok(Some(c), r2),
                Dec::Fail => Dec::Fail,
                Dec::Unknown => Dec::Unknown,
            }
        } else {
            Dec::Ok(None, r)
        },
        Dec::Fail => Dec::Fail,
        Dec::Unknown => Dec::Unknown,
    }
}

pub open spec fn d_done_data(s: Seq<u8>) -> Dec<DoneDataV> {
    match d_opt_common_content(s) {
        Dec::Ok(c, r) => match d_parameters(r) {
            Dec::Ok(p, r2) => Dec::Ok(DoneDataV { content: c, params: p }, r2),
            Dec::Fail => Dec::Fail,
            Dec::Unknown => Dec::Unknown,
        },
        Dec::Fail => Dec::Fail,
        Dec::Unknown => Dec::Unknown,
    }
}

// ---- executable content ------------------------------------------------------------------------------
/// byte-level view of an executable-content element (strings as their UTF-8 bytes; Data values are opaque)
pub enum EcB {
    If { condition: Data, content: u32, else_content: u32 },
    Expression { content: Data },
    Script { content: Seq<u32> },
    Log { label: Seq<u8>, expression: Data },
    ForEach { content: u32, index: Seq<u8>, array: Data, item: Seq<u8> },
    Raise { event: Seq<u8> },
    Cancel { send_id: Seq<u8>, send_id_expr: Data },
    Assign { expr: Data, location: Data },
    Send,
}

pub open spec fn ecb(v: EcV) -> EcB {
    match v {
        EcV::If(x) => EcB::If { condition: x.condition, content: x.content, else_content: x.else_content },
        EcV::Expression(x) => EcB::Expression { content: x.content },
        EcV::Script(x) => EcB::Script { content: x.content@ },
        EcV::Log(x) => EcB::Log { label: sb(x.label), expression: x.expression },
        EcV::ForEach(x) => EcB::ForEach { content: x.content, index: sb(x.index), array: x.array, item: sb(x.item) },
        EcV::Raise(x) => EcB::Raise { event: sb(x.event) },
        EcV::Cancel(x) => EcB::Cancel { send_id: sb(x.send_id), send_id_expr: x.send_id_expr },
        EcV::Assign(x) => EcB::Assign { expr: x.expr, location: x.location },
        EcV::Send(x) => EcB::Send,
    }
}

pub open spec fn d_raise(s: Seq<u8>) -> Dec<EcB> {
    match d_str(s) {
        Dec::Ok(a, r) => Dec::Ok(EcB::Raise { event: a }, r),
        Dec::Fail => Dec::Fail,
        Dec::Unknown => Dec::Unknown,
    }
}

pub open spec fn d_cancel(s: Seq<u8>) -> Dec<EcB> {
    match d_str(s) {
        Dec::Ok(a, r) => match d_data(r) {
            Dec::Ok(b, r2) => Dec::Ok(EcB::Cancel { send_id: a, send_id_expr: b }, r2),
            Dec::Fail => Dec::Fail,
            Dec::Unknown => Dec::Unknown,
        },
        Dec::Fail => Dec::Fail,
        Dec::Unknown => Dec::Unknown,
    }
}

pub open spec fn d_assign(s: Seq<u8>) -> Dec<EcB> {
    match d_data(s) {
        Dec::Ok(a, r) => match d_data(r) {
            Dec::Ok(b, r2) => Dec::Ok(EcB::Assign { expr: a, location: b }, r2),
            Dec::Fail => Dec::Fail,
            Dec::Unknown => Dec::Unknown,
        },
        Dec::Fail => Dec::Fail,
        Dec::Unknown => Dec::Unknown,
    }
}

pub open spec fn d_expression(s: Seq<u8>) -> Dec<EcB> {
    match d_data(s) {
        Dec::Ok(a, r) => Dec::Ok(EcB::Expression { content: a }, r),
        Dec::Fail => Dec::Fail,
        Dec::Unknown => Dec::Unknown,
    }
}

pub open spec fn d_log(s: Seq<u8>) -> Dec<EcB> {
    match d_str(s) {
        Dec::Ok(a, r) => match d_data(r) {
            Dec::Ok(b, r2) => Dec::Ok(EcB::Log { label: a, expression: b }, r2),
            Dec::Fail => Dec::Fail,
            Dec::Unknown => Dec::Unknown,
        },
        Dec::Fail => Dec::Fail,
        Dec::Unknown => Dec::Unknown,
    }
}

pub open spec fn d_if(s: Seq<u8>) -> Dec<EcB> {
    match d_data(s) {
        Dec::Ok(c, r) => match d_id(r) {
            Dec::Ok(a, r2) => match d_id(r2) {
                Dec::Ok(b, r3) => Dec::Ok(EcB::If { condition: c, content: a, else_content: b }, r3),
                Dec::Fail => Dec::Fail,
                Dec::Unknown => Dec::Unknown,
            },
            Dec::Fail => Dec::Fail,
            Dec::Unknown => Dec::Unknown,
        },
        Dec::Fail => Dec::Fail,
        Dec::Unknown => Dec::Unknown,
    }
}

pub open spec fn d_for_each(s: Seq<u8>) -> Dec<EcB> {
    match d_id(s) {
        Dec::Ok(c, r) => match d_str(r) {
            Dec::Ok(ix, r2) => match d_data(r2) {
                Dec::Ok(a, r3) => match d_str(r3) {
                    Dec::Ok(it, r4) => Dec::Ok(EcB::ForEach { content: c, index: ix, array: a, item: it }, r4),
                    Dec::Fail => Dec::Fail,
                    Dec::Unknown => Dec::Unknown,
                },
                Dec::Fail => Dec::Fail,
                Dec::Unknown => Dec::Unknown,
            },
            Dec::Fail => Dec::Fail,
            Dec::Unknown => Dec::Unknown,
        },
        Dec::Fail => Dec::Fail,
        Dec::Unknown => Dec::Unknown,
    }
}

pub open spec fn d_script(s: Seq<u8>) -> Dec<EcB> {
    match d_list(s, fd_id()) {
        Dec::Ok(l, r) => Dec::Ok(EcB::Script { content: l }, r),
        Dec::Fail => Dec::Fail,
        Dec::Unknown => Dec::Unknown,
    }
}

// ---- sequencing of decoders ----------------------------------------------------------------------------
pub open spec fn bind<A, B>(d: Dec<A>, f: spec_fn(A, Seq<u8>) -> Dec<B>) -> Dec<B> {
    match d {
        Dec::Ok(a, r) => f(a, r),
        Dec::Fail => Dec::Fail,
        Dec::Unknown => Dec::Unknown,
    }
}

// ---- Transition ------------------------------------------------------------------------------------------
pub struct TransV {
    pub id: u32,
    pub doc_id: u32,
    pub source: u32,
    pub target: Seq<u32>,
    pub events: Seq<Seq<u8>>,
    pub ttype: u8,
    pub wildcard: bool,
    /// the guard; `Data::Null()` when the record carries none
    pub cond: Data,
    pub content: u32,
}

pub open spec fn trv(t: Transition) -> TransV {
    TransV {
        id: t.id, doc_id: t.doc_id, source: t.source, target: t.target@, events: strs_v(t.events@),
        ttype: transition_type_ordinal(t.transition_type), wildcard: t.wildcard, cond: t.cond, content: t.content,
    }
}

pub open spec fn d_opt_data(present: bool, s: Seq<u8>) -> Dec<Data> {
    if present { d_data(s) } else { Dec::Ok(data_null(), s) }
}

pub open spec fn d_opt_id(present: bool, s: Seq<u8>) -> Dec<u32> {
    if present { d_id(s) } else { Dec::Ok(0u32, s) }
}

/// progress of a record reader: `total` is the decoding of the whole record from where the function started, `cont`
/// the decoding of what is still to be read, with the fields read so far filled in
pub open spec fn prog<T>(total: Dec<T>, ok: bool, rel: bool, cont: Dec<T>) -> bool {
    total is Unknown || ((ok ==> cont == total) && (!ok ==> !(total is Ok && rel)))
}

pub open spec fn d_transition(s: Seq<u8>) -> Dec<TransV> {
    match d_id(s) {
        Dec::Ok(id, s1) => d_tr1(id, s1),
        Dec::Fail => Dec::Fail,
        Dec::Unknown => Dec::Unknown,
    }
}

pub open spec fn d_tr1(id: u32, s: Seq<u8>) -> Dec<TransV> {
    match d_id(s) {
        Dec::Ok(doc, s1) => d_tr2(id, doc, s1),
        Dec::Fail => Dec::Fail,
        Dec::Unknown => Dec::Unknown,
    }
}

pub open spec fn d_tr2(id: u32, doc: u32, s: Seq<u8>) -> Dec<TransV> {
    match d_id(s) {
        Dec::Ok(src, s1) => d_tr3(id, doc, src, s1),
        Dec::Fail => Dec::Fail,
        Dec::Unknown => Dec::Unknown,
    }
}

pub open spec fn d_tr3(id: u32, doc: u32, src: u32, s: Seq<u8>) -> Dec<TransV> {
    match d_list(s, fd_id()) {
        Dec::Ok(tg, s1) => d_tr4(id, doc, src, tg, s1),
        Dec::Fail => Dec::Fail,
        Dec::Unknown => Dec::Unknown,
    }
}

pub open spec fn d_tr4(id: u32, doc: u32, src: u32, tg: Seq<u32>, s: Seq<u8>) -> Dec<TransV> {
    match d_list(s, fd_str()) {
        Dec::Ok(ev, s1) => d_tr5(id, doc, src, tg, ev, s1),
        Dec::Fail => Dec::Fail,
        Dec::Unknown => Dec::Unknown,
    }
}

pub open spec fn d_tr5(id: u32, doc: u32, src: u32, tg: Seq<u32>, ev: Seq<Seq<u8>>, s: Seq<u8>) -> Dec<TransV> {
    match d_uint(s) {
        Dec::Ok(fl, s1) => d_tr6(id, doc, src, tg, ev, fl as u8, s1),
        Dec::Fail => Dec::Fail,
        Dec::Unknown => Dec::Unknown,
    }
}

pub open spec fn d_tr6(id: u32, doc: u32, src: u32, tg: Seq<u32>, ev: Seq<Seq<u8>>, fl: u8, s: Seq<u8>) -> Dec<TransV> {
    match d_opt_data((fl & 4) != 0, s) {
        Dec::Ok(c, s1) => d_tr7(id, doc, src, tg, ev, fl, c, s1),
        Dec::Fail => Dec::Fail,
        Dec::Unknown => Dec::Unknown,
    }
}

pub open spec fn d_tr7(id: u32, doc: u32, src: u32, tg: Seq<u32>, ev: Seq<Seq<u8>>, fl: u8, c: Data, s: Seq<u8>) -> Dec<TransV> {
    match d_opt_id((fl & 8) != 0, s) {
        Dec::Ok(ct, s1) => Dec::Ok(TransV { id: id, doc_id: doc, source: src, target: tg, events: ev, ttype: fl & 1, wildcard: (fl & 2) != 0, cond: c, content: ct }, s1),
        Dec::Fail => Dec::Fail,
        Dec::Unknown => Dec::Unknown,
    }
}

// ---- helpers for the generated record decoders (spec_dec_gen.rs) ---------------------------------------------
/// an empty string has no bytes and vice versa
pub proof fn lemma_empty_utf8(s: Seq<char>)
    ensures
        (encode_utf8(s).len() == 0) == (s.len() == 0),
{
    reveal_with_fuel(encode_utf8, 2);
    if s.len() > 0 {
        assert(encode_utf8(s).len() > 0);
    }
}

pub open spec fn opt_ccv(c: Option<CommonContent>) -> Option<CcV> {
    match c {
        Some(x) => Some(ccv(x)),
        None => None,
    }
}

/// the state name is part of the invoke record only when the id has to be generated from it
pub open spec fn inv_parent(i: Invoke) -> Seq<u8> {
    if sb(i.invoke_id).len() == 0 { sb(i.parent_state_name) } else { Seq::<u8>::empty() }
}

pub open spec fn invv(i: Invoke) -> InvV {
    InvV {
        invoke_id: sb(i.invoke_id), parent: inv_parent(i), doc_id: i.doc_id, src_expr: i.src_expr, src: i.src, type_expr: i.type_expr,
        type_name: i.type_name, external_id_location: sb(i.external_id_location), autoforward: i.autoforward, finalize: i.finalize,
        content: opt_ccv(i.content), params: params_v(params_seq(i.params)), name_list: strs_v(i.name_list@),
    }
}

/// the state name is part of the send record only when an id is generated from it (idlocation set)
pub open spec fn send_parent(e: SendParameters) -> Seq<u8> {
    if sb(e.name_location).len() != 0 { sb(e.parent_state_name) } else { Seq::<u8>::empty() }
}

pub open spec fn sendv(e: SendParameters) -> SendV {
    SendV {
        name: sb(e.name), target: e.target, target_expr: e.target_expr, content: opt_ccv(e.content), name_list: strs_v(e.name_list@),
        name_location: sb(e.name_location), parent: send_parent(e), params: params_v(params_seq(e.params)), event: e.event,
        event_expr: e.event_expr, type_value: e.type_value, type_expr: e.type_expr, delay_ms: e.delay_ms, delay_expr: e.delay_expr,
    }
}

/// the send view of an element (an arbitrary SendV for the other kinds: only used on results of read_executable_content_send)
pub open spec fn ecb_send(v: EcV) -> SendV {
    match v {
        EcV::Send(x) => sendv(x),
        _ => arbitrary(),
    }
}
