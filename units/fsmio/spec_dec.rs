// ---------------------------------------------------------------------------------------------
// Decoding side of the record layer: what the FsmReader functions must return for a given byte sequence.
// `Dec` is three-valued like the token layer: Ok(value, rest), Fail (cut off / wrong token kind: the reader must
// end in error state) and Unknown (a head byte of no token class: the token reader promises nothing, see unit proto).
// ---------------------------------------------------------------------------------------------

/// shape of every record-reader postcondition (reader was ok before the call): `got` is the view of what the call
/// returned, `rel` says that the byte source fails only at end of data
pub open spec fn rd<T>(d: Dec<T>, rel: bool, ok1: bool, rest1: Seq<u8>, got: T) -> bool {
    match d {
        Dec::Ok(v, rest) => (rel ==> ok1) && (ok1 ==> got == v && rest1 == rest),
        Dec::Fail => !ok1,
        Dec::Unknown => true,
    }
}

pub open spec fn d_uint(s: Seq<u8>) -> Dec<u64> {
    match dec_tv(s) {
        Tv::Num(k, v, n) => Dec::Ok(v, skip(s, n)),
        Tv::Unknown => Dec::Unknown,
        _ => Dec::Fail,
    }
}

pub open spec fn d_str(s: Seq<u8>) -> Dec<Seq<u8>> {
    match dec_tv(s) {
        Tv::Str(t, b, n) => Dec::Ok(b, skip(s, n)),
        Tv::Unknown => Dec::Unknown,
        _ => Dec::Fail,
    }
}

pub open spec fn d_bool(s: Seq<u8>) -> Dec<bool> {
    if s.len() >= 1 && (s[0] == 0x1F || s[0] == 0x10) {
        Dec::Ok(s[0] == 0x1F, skip(s, 1))
    } else {
        Dec::Fail
    }
}

pub open spec fn d_opt_str(s: Seq<u8>) -> Dec<Option<Seq<u8>>> {
    if dec_tv(s) == Tv::Tag(0x10u8) {
        Dec::Ok(None, skip(s, 1))
    } else {
        match d_str(s) {
            Dec::Ok(b, r) => Dec::Ok(Some(b), r),
            Dec::Fail => Dec::Fail,
            Dec::Unknown => Dec::Unknown,
        }
    }
}

/// ids are read as `read_uint() as u32`
pub open spec fn d_id(s: Seq<u8>) -> Dec<u32> {
    match d_uint(s) {
        Dec::Ok(v, r) => Dec::Ok(v as u32, r),
        Dec::Fail => Dec::Fail,
        Dec::Unknown => Dec::Unknown,
    }
}

// ---- views (what of a record is persisted) -----------------------------------------------------------
pub struct ParamV {
    pub name: Seq<u8>,
    pub expr: Seq<u8>,
    pub location: Seq<u8>,
}

pub open spec fn pv(p: Parameter) -> ParamV {
    ParamV { name: sb(p.name), expr: sb(p.expr), location: sb(p.location) }
}

pub struct CcV {
    pub content: Option<Seq<u8>>,
    pub content_expr: Option<Seq<u8>>,
}

pub open spec fn ccv(c: CommonContent) -> CcV {
    CcV { content: opt_str_bytes(c.content), content_expr: opt_str_bytes(c.content_expr) }
}

pub open spec fn d_parameter(s: Seq<u8>) -> Dec<ParamV> {
    match d_str(s) {
        Dec::Ok(a, s1) => match d_str(s1) {
            Dec::Ok(b, s2) => match d_str(s2) {
                Dec::Ok(c, s3) => Dec::Ok(ParamV { name: a, expr: b, location: c }, s3),
                Dec::Fail => Dec::Fail,
                Dec::Unknown => Dec::Unknown,
            },
            Dec::Fail => Dec::Fail,
            Dec::Unknown => Dec::Unknown,
        },
        Dec::Fail => Dec::Fail,
        Dec::Unknown => Dec::Unknown,
    }
}

pub open spec fn d_common_content(s: Seq<u8>) -> Dec<CcV> {
    match d_opt_str(s) {
        Dec::Ok(a, s1) => match d_opt_str(s1) {
            Dec::Ok(b, s2) => Dec::Ok(CcV { content: a, content_expr: b }, s2),
            Dec::Fail => Dec::Fail,
            Dec::Unknown => Dec::Unknown,
        },
        Dec::Fail => Dec::Fail,
        Dec::Unknown => Dec::Unknown,
    }
}

// ---- counted lists ----------------------------------------------------------------------------------
/// n more elements decoded by f, appended to acc
pub open spec fn d_seq<T>(n: nat, acc: Seq<T>, s: Seq<u8>, f: spec_fn(Seq<u8>) -> Dec<T>) -> Dec<Seq<T>>
    decreases n,
{
    if n == 0 {
        Dec::Ok(acc, s)
    } else {
        match f(s) {
            Dec::Ok(v, r) => d_seq((n - 1) as nat, acc.push(v), r, f),
            Dec::Fail => Dec::Fail,
            Dec::Unknown => Dec::Unknown,
        }
    }
}

/// element count, then the elements
pub open spec fn d_list<T>(s: Seq<u8>, f: spec_fn(Seq<u8>) -> Dec<T>) -> Dec<Seq<T>> {
    match d_uint(s) {
        Dec::Ok(n, r) => d_seq(n as nat, Seq::<T>::empty(), r, f),
        Dec::Fail => Dec::Fail,
        Dec::Unknown => Dec::Unknown,
    }
}

/// loop invariant of a list-reading loop: `total` is the decoding of the whole list, i elements are read into `acc`
pub open spec fn list_inv<T>(total: Dec<Seq<T>>, n: nat, i: nat, acc: Seq<T>, ok: bool, rel: bool, rest: Seq<u8>, f: spec_fn(Seq<u8>) -> Dec<T>) -> bool {
    i <= n && (total is Unknown || ((ok ==> d_seq((n - i) as nat, acc, rest, f) == total) && (!ok ==> !(total is Ok && rel))))
}

pub open spec fn fd_id() -> spec_fn(Seq<u8>) -> Dec<u32> {
    |s: Seq<u8>| d_id(s)
}

pub open spec fn fd_str() -> spec_fn(Seq<u8>) -> Dec<Seq<u8>> {
    |s: Seq<u8>| d_str(s)
}

pub open spec fn fd_param() -> spec_fn(Seq<u8>) -> Dec<ParamV> {
    |s: Seq<u8>| d_parameter(s)
}

pub open spec fn strs_v(v: Seq<String>) -> Seq<Seq<u8>> {
    v.map_values(|s: String| sb(s))
}

pub open spec fn params_v(v: Seq<Parameter>) -> Seq<ParamV> {
    v.map_values(|p: Parameter| pv(p))
}

/// `None` and an empty list are the same record: the reader yields None for count 0
pub open spec fn d_parameters(s: Seq<u8>) -> Dec<Seq<ParamV>> {
    d_list(s, fd_param())
}

pub struct DoneDataV {
    pub content: Option<CcV>,
    pub params: Seq<ParamV>,
}

pub open spec fn ddv(d: DoneData) -> DoneDataV {
    DoneDataV { content: match d.content { Some(c) => Some(ccv(c)), None => None }, params: params_v(params_seq(d.params)) }
}

pub open spec fn d_opt_common_content(s: Seq<u8>) -> Dec<Option<CcV>> {
    match d_bool(s) {
        Dec::Ok(b, r) => if b {
            match d_common_content(r) {
                Dec::Ok(c, r2) => Dec::Ok(Some(c), r2),
                Dec::Fail => Dec::Fail,
                Dec::Unknown => Dec::Unknown,
            }
        } else {
            Dec::Ok(None, r)
        },
        Dec::Fail => Dec::Fail,
        Dec::Unknown => Dec::Unknown,
    }
}

pub open spec fn d_done_data(s: Seq<u8>) -> Dec<DoneDataV> {
    match d_opt_common_content(s) {
        Dec::Ok(c, r) => match d_parameters(r) {
            Dec::Ok(p, r2) => Dec::Ok(DoneDataV { content: c, params: p }, r2),
            Dec::Fail => Dec::Fail,
            Dec::Unknown => Dec::Unknown,
        },
        Dec::Fail => Dec::Fail,
        Dec::Unknown => Dec::Unknown,
    }
}

// ---- executable content ------------------------------------------------------------------------------
/// byte-level view of an executable-content element (strings as their UTF-8 bytes; Data values are opaque)
pub enum EcB {
    If { condition: Data, content: u32, else_content: u32 },
    Expression { content: Data },
    Script { content: Seq<u32> },
    Log { label: Seq<u8>, expression: Data },
    ForEach { content: u32, index: Seq<u8>, array: Data, item: Seq<u8> },
    Raise { event: Seq<u8> },
    Cancel { send_id: Seq<u8>, send_id_expr: Data },
    Assign { expr: Data, location: Data },
    Send(SendV),
}

pub open spec fn ecb(v: EcV) -> EcB {
    match v {
        EcV::If(x) => EcB::If { condition: x.condition, content: x.content, else_content: x.else_content },
        EcV::Expression(x) => EcB::Expression { content: x.content },
        EcV::Script(x) => EcB::Script { content: x.content@ },
        EcV::Log(x) => EcB::Log { label: sb(x.label), expression: x.expression },
        EcV::ForEach(x) => EcB::ForEach { content: x.content, index: sb(x.index), array: x.array, item: sb(x.item) },
        EcV::Raise(x) => EcB::Raise { event: sb(x.event) },
        EcV::Cancel(x) => EcB::Cancel { send_id: sb(x.send_id), send_id_expr: x.send_id_expr },
        EcV::Assign(x) => EcB::Assign { expr: x.expr, location: x.location },
        EcV::Send(x) => EcB::Send(sendv(x)),
    }
}

pub open spec fn d_raise(s: Seq<u8>) -> Dec<EcB> {
    match d_str(s) {
        Dec::Ok(a, r) => Dec::Ok(EcB::Raise { event: a }, r),
        Dec::Fail => Dec::Fail,
        Dec::Unknown => Dec::Unknown,
    }
}

pub open spec fn d_cancel(s: Seq<u8>) -> Dec<EcB> {
    match d_str(s) {
        Dec::Ok(a, r) => match d_data(r) {
            Dec::Ok(b, r2) => Dec::Ok(EcB::Cancel { send_id: a, send_id_expr: b }, r2),
            Dec::Fail => Dec::Fail,
            Dec::Unknown => Dec::Unknown,
        },
        Dec::Fail => Dec::Fail,
        Dec::Unknown => Dec::Unknown,
    }
}

pub open spec fn d_assign(s: Seq<u8>) -> Dec<EcB> {
    match d_data(s) {
        Dec::Ok(a, r) => match d_data(r) {
            Dec::Ok(b, r2) => Dec::Ok(EcB::Assign { expr: a, location: b }, r2),
            Dec::Fail => Dec::Fail,
            Dec::Unknown => Dec::Unknown,
        },
        Dec::Fail => Dec::Fail,
        Dec::Unknown => Dec::Unknown,
    }
}

pub open spec fn d_expression(s: Seq<u8>) -> Dec<EcB> {
    match d_data(s) {
        Dec::Ok(a, r) => Dec::Ok(EcB::Expression { content: a }, r),
        Dec::Fail => Dec::Fail,
        Dec::Unknown => Dec::Unknown,
    }
}

pub open spec fn d_log(s: Seq<u8>) -> Dec<EcB> {
    match d_str(s) {
        Dec::Ok(a, r) => match d_data(r) {
            Dec::Ok(b, r2) => Dec::Ok(EcB::Log { label: a, expression: b }, r2),
            Dec::Fail => Dec::Fail,
            Dec::Unknown => Dec::Unknown,
        },
        Dec::Fail => Dec::Fail,
        Dec::Unknown => Dec::Unknown,
    }
}

pub open spec fn d_if(s: Seq<u8>) -> Dec<EcB> {
    match d_data(s) {
        Dec::Ok(c, r) => match d_id(r) {
            Dec::Ok(a, r2) => match d_id(r2) {
                Dec::Ok(b, r3) => Dec::Ok(EcB::If { condition: c, content: a, else_content: b }, r3),
                Dec::Fail => Dec::Fail,
                Dec::Unknown => Dec::Unknown,
            },
            Dec::Fail => Dec::Fail,
            Dec::Unknown => Dec::Unknown,
        },
        Dec::Fail => Dec::Fail,
        Dec::Unknown => Dec::Unknown,
    }
}

pub open spec fn d_for_each(s: Seq<u8>) -> Dec<EcB> {
    match d_id(s) {
        Dec::Ok(c, r) => match d_str(r) {
            Dec::Ok(ix, r2) => match d_data(r2) {
                Dec::Ok(a, r3) => match d_str(r3) {
                    Dec::Ok(it, r4) => Dec::Ok(EcB::ForEach { content: c, index: ix, array: a, item: it }, r4),
                    Dec::Fail => Dec::Fail,
                    Dec::Unknown => Dec::Unknown,
                },
                Dec::Fail => Dec::Fail,
                Dec::Unknown => Dec::Unknown,
            },
            Dec::Fail => Dec::Fail,
            Dec::Unknown => Dec::Unknown,
        },
        Dec::Fail => Dec::Fail,
        Dec::Unknown => Dec::Unknown,
    }
}

pub open spec fn d_script(s: Seq<u8>) -> Dec<EcB> {
    match d_list(s, fd_id()) {
        Dec::Ok(l, r) => Dec::Ok(EcB::Script { content: l }, r),
        Dec::Fail => Dec::Fail,
        Dec::Unknown => Dec::Unknown,
    }
}

// ---- sequencing of decoders ----------------------------------------------------------------------------
pub open spec fn bind<A, B>(d: Dec<A>, f: spec_fn(A, Seq<u8>) -> Dec<B>) -> Dec<B> {
    match d {
        Dec::Ok(a, r) => f(a, r),
        Dec::Fail => Dec::Fail,
        Dec::Unknown => Dec::Unknown,
    }
}

// ---- Transition ------------------------------------------------------------------------------------------
pub struct TransV {
    pub id: u32,
    pub doc_id: u32,
    pub source: u32,
    pub target: Seq<u32>,
    pub events: Seq<Seq<u8>>,
    pub ttype: u8,
    pub wildcard: bool,
    /// the guard; `Data::Null()` when the record carries none
    pub cond: Data,
    pub content: u32,
}

pub open spec fn trv(t: Transition) -> TransV {
    TransV {
        id: t.id, doc_id: t.doc_id, source: t.source, target: t.target@, events: strs_v(t.events@),
        ttype: transition_type_ordinal(t.transition_type), wildcard: t.wildcard, cond: t.cond, content: t.content,
    }
}

pub open spec fn d_opt_data(present: bool, s: Seq<u8>) -> Dec<Data> {
    if present { d_data(s) } else { Dec::Ok(data_null(), s) }
}

pub open spec fn d_opt_id(present: bool, s: Seq<u8>) -> Dec<u32> {
    if present { d_id(s) } else { Dec::Ok(0u32, s) }
}

/// progress of a record reader: `total` is the decoding of the whole record from where the function started, `cont`
/// the decoding of what is still to be read, with the fields read so far filled in
pub open spec fn prog<T>(total: Dec<T>, ok: bool, rel: bool, cont: Dec<T>) -> bool {
    total is Unknown || ((ok ==> cont == total) && (!ok ==> !(total is Ok && rel)))
}

pub open spec fn d_transition(s: Seq<u8>) -> Dec<TransV> {
    match d_id(s) {
        Dec::Ok(id, s1) => d_tr1(id, s1),
        Dec::Fail => Dec::Fail,
        Dec::Unknown => Dec::Unknown,
    }
}

pub open spec fn d_tr1(id: u32, s: Seq<u8>) -> Dec<TransV> {
    match d_id(s) {
        Dec::Ok(doc, s1) => d_tr2(id, doc, s1),
        Dec::Fail => Dec::Fail,
        Dec::Unknown => Dec::Unknown,
    }
}

pub open spec fn d_tr2(id: u32, doc: u32, s: Seq<u8>) -> Dec<TransV> {
    match d_id(s) {
        Dec::Ok(src, s1) => d_tr3(id, doc, src, s1),
        Dec::Fail => Dec::Fail,
        Dec::Unknown => Dec::Unknown,
    }
}

pub open spec fn d_tr3(id: u32, doc: u32, src: u32, s: Seq<u8>) -> Dec<TransV> {
    match d_list(s, fd_id()) {
        Dec::Ok(tg, s1) => d_tr4(id, doc, src, tg, s1),
        Dec::Fail => Dec::Fail,
        Dec::Unknown => Dec::Unknown,
    }
}

pub open spec fn d_tr4(id: u32, doc: u32, src: u32, tg: Seq<u32>, s: Seq<u8>) -> Dec<TransV> {
    match d_list(s, fd_str()) {
        Dec::Ok(ev, s1) => d_tr5(id, doc, src, tg, ev, s1),
        Dec::Fail => Dec::Fail,
        Dec::Unknown => Dec::Unknown,
    }
}

pub open spec fn d_tr5(id: u32, doc: u32, src: u32, tg: Seq<u32>, ev: Seq<Seq<u8>>, s: Seq<u8>) -> Dec<TransV> {
    match d_uint(s) {
        Dec::Ok(fl, s1) => d_tr6(id, doc, src, tg, ev, fl as u8, s1),
        Dec::Fail => Dec::Fail,
        Dec::Unknown => Dec::Unknown,
    }
}

pub open spec fn d_tr6(id: u32, doc: u32, src: u32, tg: Seq<u32>, ev: Seq<Seq<u8>>, fl: u8, s: Seq<u8>) -> Dec<TransV> {
    match d_opt_data((fl & 4) != 0, s) {
        Dec::Ok(c, s1) => d_tr7(id, doc, src, tg, ev, fl, c, s1),
        Dec::Fail => Dec::Fail,
        Dec::Unknown => Dec::Unknown,
    }
}

pub open spec fn d_tr7(id: u32, doc: u32, src: u32, tg: Seq<u32>, ev: Seq<Seq<u8>>, fl: u8, c: Data, s: Seq<u8>) -> Dec<TransV> {
    match d_opt_id((fl & 8) != 0, s) {
        Dec::Ok(ct, s1) => Dec::Ok(TransV { id: id, doc_id: doc, source: src, target: tg, events: ev, ttype: fl & 1, wildcard: (fl & 2) != 0, cond: c, content: ct }, s1),
        Dec::Fail => Dec::Fail,
        Dec::Unknown => Dec::Unknown,
    }
}

// ---- helpers for the generated record decoders (spec_dec_gen.rs) ---------------------------------------------
/// an empty string has no bytes and vice versa
pub proof fn lemma_empty_utf8(s: Seq<char>)
    ensures
        (encode_utf8(s).len() == 0) == (s.len() == 0),
{
    reveal_with_fuel(encode_utf8, 2);
    if s.len() > 0 {
        assert(encode_utf8(s).len() > 0);
    }
}

pub open spec fn opt_ccv(c: Option<CommonContent>) -> Option<CcV> {
    match c {
        Some(x) => Some(ccv(x)),
        None => None,
    }
}

/// the state name is part of the invoke record only when the id has to be generated from it
pub open spec fn inv_parent(i: Invoke) -> Seq<u8> {
    if sb(i.invoke_id).len() == 0 { sb(i.parent_state_name) } else { Seq::<u8>::empty() }
}

pub open spec fn invv(i: Invoke) -> InvV {
    InvV {
        invoke_id: sb(i.invoke_id), parent: inv_parent(i), doc_id: i.doc_id, src_expr: i.src_expr, src: i.src, type_expr: i.type_expr,
        type_name: i.type_name, external_id_location: sb(i.external_id_location), autoforward: i.autoforward, finalize: i.finalize,
        content: opt_ccv(i.content), params: params_v(params_seq(i.params)), name_list: strs_v(i.name_list@),
    }
}

/// the state name is part of the send record only when an id is generated from it (idlocation set)
pub open spec fn send_parent(e: SendParameters) -> Seq<u8> {
    if sb(e.name_location).len() != 0 { sb(e.parent_state_name) } else { Seq::<u8>::empty() }
}

pub open spec fn sendv(e: SendParameters) -> SendV {
    SendV {
        name: sb(e.name), target: e.target, target_expr: e.target_expr, content: opt_ccv(e.content), name_list: strs_v(e.name_list@),
        name_location: sb(e.name_location), parent: send_parent(e), params: params_v(params_seq(e.params)), event: e.event,
        event_expr: e.event_expr, type_value: e.type_value, type_expr: e.type_expr, delay_ms: e.delay_ms, delay_expr: e.delay_expr,
    }
}

/// the send view of an element (an arbitrary SendV for the other kinds: only used on results of read_executable_content_send)
pub open spec fn ecb_send(v: EcV) -> SendV {
    match v {
        EcV::Send(x) => sendv(x),
        _ => arbitrary(),
    }
}

// ---- State ---------------------------------------------------------------------------------------------------
pub open spec fn fd_invoke() -> spec_fn(Seq<u8>) -> Dec<InvV> {
    |s: Seq<u8>| d_invoke(s)
}

pub open spec fn invs_v(v: Seq<Invoke>) -> Seq<InvV> {
    v.map_values(|i: Invoke| invv(i))
}

pub open spec fn d_pair(s: Seq<u8>) -> Dec<(Seq<u8>, DataArc)> {
    match d_str(s) {
        Dec::Ok(k, s1) => match d_data_arc(s1) {
            Dec::Ok(a, s2) => Dec::Ok((k, a), s2),
            Dec::Fail => Dec::Fail,
            Dec::Unknown => Dec::Unknown,
        },
        Dec::Fail => Dec::Fail,
        Dec::Unknown => Dec::Unknown,
    }
}

pub open spec fn fd_pair() -> spec_fn(Seq<u8>) -> Dec<(Seq<u8>, DataArc)> {
    |s: Seq<u8>| d_pair(s)
}

/// forget the value, keep what was consumed
pub open spec fn consumed<T>(d: Dec<T>) -> Dec<()> {
    match d {
        Dec::Ok(v, r) => Dec::Ok((), r),
        Dec::Fail => Dec::Fail,
        Dec::Unknown => Dec::Unknown,
    }
}

pub struct StV {
    pub id: u32,
    pub doc_id: u32,
    pub name: Seq<u8>,
    pub history_type: u8,
    pub is_parallel: bool,
    pub is_final: bool,
    pub initial: u32,
    pub states: Seq<u32>,
    pub onentry: Seq<u32>,
    pub onexit: Seq<u32>,
    pub transitions: Seq<u32>,
    pub invoke: Seq<InvV>,
    pub history: Seq<u32>,
    pub parent: u32,
    pub donedata: Option<DoneDataV>,
}

/// every persisted field of a state except the contents of the <data> map (value codec not under contract)
pub open spec fn stv(s: State) -> StV {
    StV {
        id: s.id, doc_id: s.doc_id, name: sb(s.name), history_type: history_type_ordinal(s.history_type), is_parallel: s.is_parallel,
        is_final: s.is_final, initial: s.initial, states: s.states@, onentry: s.onentry@, onexit: s.onexit@, transitions: s.transitions.data@,
        invoke: invs_v(s.invoke.data@), history: s.history.data@, parent: s.parent,
        donedata: match s.donedata { Some(d) => Some(ddv(d)), None => None },
    }
}

/// what read_state expects of the State it fills in (State::new)
pub open spec fn state_fresh(s: State) -> bool {
    s.initial == 0 && s.states@.len() == 0 && s.onentry@.len() == 0 && s.onexit@.len() == 0 && s.transitions.data@.len() == 0
        && s.invoke.data@.len() == 0 && s.history.data@.len() == 0
}

pub open spec fn ht_of(fl: u16) -> u8 {
    if fl & 3 == 1 { 1u8 } else if fl & 3 == 2 { 2u8 } else { 0u8 }
}

pub open spec fn d_opt_list<T>(present: bool, s: Seq<u8>, f: spec_fn(Seq<u8>) -> Dec<T>) -> Dec<Seq<T>> {
    if present { d_list(s, f) } else { Dec::Ok(Seq::<T>::empty(), s) }
}

pub open spec fn d_opt_done_data(present: bool, s: Seq<u8>) -> Dec<Option<DoneDataV>> {
    if present {
        match d_done_data(s) {
            Dec::Ok(v, r) => Dec::Ok(Some(v), r),
            Dec::Fail => Dec::Fail,
            Dec::Unknown => Dec::Unknown,
        }
    } else {
        Dec::Ok(None, s)
    }
}

pub open spec fn d_opt_pairs(present: bool, s: Seq<u8>) -> Dec<()> {
    if present { consumed(d_list(s, fd_pair())) } else { Dec::Ok((), s) }
}

pub open spec fn d_state(s: Seq<u8>) -> Dec<StV> {
    match d_id(s) { Dec::Ok(id, s1) => d_st1(id, s1), Dec::Fail => Dec::Fail, Dec::Unknown => Dec::Unknown }
}

pub open spec fn d_st1(id: u32, s: Seq<u8>) -> Dec<StV> {
    match d_id(s) { Dec::Ok(doc, s1) => d_st2(id, doc, s1), Dec::Fail => Dec::Fail, Dec::Unknown => Dec::Unknown }
}

pub open spec fn d_st2(id: u32, doc: u32, s: Seq<u8>) -> Dec<StV> {
    match d_str(s) { Dec::Ok(name, s1) => d_st3(id, doc, name, s1), Dec::Fail => Dec::Fail, Dec::Unknown => Dec::Unknown }
}

pub open spec fn d_st3(id: u32, doc: u32, name: Seq<u8>, s: Seq<u8>) -> Dec<StV> {
    match d_uint(s) { Dec::Ok(fl, s1) => d_st4(id, doc, name, fl as u16, s1), Dec::Fail => Dec::Fail, Dec::Unknown => Dec::Unknown }
}

pub open spec fn d_st4(id: u32, doc: u32, name: Seq<u8>, fl: u16, s: Seq<u8>) -> Dec<StV> {
    match d_opt_id((fl & 0x10) != 0, s) { Dec::Ok(ini, s1) => d_st5(id, doc, name, fl, ini, s1), Dec::Fail => Dec::Fail, Dec::Unknown => Dec::Unknown }
}

pub open spec fn d_st5(id: u32, doc: u32, name: Seq<u8>, fl: u16, ini: u32, s: Seq<u8>) -> Dec<StV> {
    match d_opt_list((fl & 0x10) != 0, s, fd_id()) { Dec::Ok(sts, s1) => d_st6(id, doc, name, fl, ini, sts, s1), Dec::Fail => Dec::Fail, Dec::Unknown => Dec::Unknown }
}

pub open spec fn d_st6(id: u32, doc: u32, name: Seq<u8>, fl: u16, ini: u32, sts: Seq<u32>, s: Seq<u8>) -> Dec<StV> {
    match d_opt_list((fl & 0x04) != 0, s, fd_id()) { Dec::Ok(en, s1) => d_st7(id, doc, name, fl, ini, sts, en, s1), Dec::Fail => Dec::Fail, Dec::Unknown => Dec::Unknown }
}

pub open spec fn d_st7(id: u32, doc: u32, name: Seq<u8>, fl: u16, ini: u32, sts: Seq<u32>, en: Seq<u32>, s: Seq<u8>) -> Dec<StV> {
    match d_opt_list((fl & 0x08) != 0, s, fd_id()) { Dec::Ok(ex, s1) => d_st8(id, doc, name, fl, ini, sts, en, ex, s1), Dec::Fail => Dec::Fail, Dec::Unknown => Dec::Unknown }
}

pub open spec fn d_st8(id: u32, doc: u32, name: Seq<u8>, fl: u16, ini: u32, sts: Seq<u32>, en: Seq<u32>, ex: Seq<u32>, s: Seq<u8>) -> Dec<StV> {
    match d_list(s, fd_id()) { Dec::Ok(tr, s1) => d_st9(id, doc, name, fl, ini, sts, en, ex, tr, s1), Dec::Fail => Dec::Fail, Dec::Unknown => Dec::Unknown }
}

pub open spec fn d_st9(id: u32, doc: u32, name: Seq<u8>, fl: u16, ini: u32, sts: Seq<u32>, en: Seq<u32>, ex: Seq<u32>, tr: Seq<u32>, s: Seq<u8>) -> Dec<StV> {
    match d_opt_list((fl & 0x100) != 0, s, fd_invoke()) { Dec::Ok(iv, s1) => d_st10(id, doc, name, fl, ini, sts, en, ex, tr, iv, s1), Dec::Fail => Dec::Fail, Dec::Unknown => Dec::Unknown }
}

pub open spec fn d_st10(id: u32, doc: u32, name: Seq<u8>, fl: u16, ini: u32, sts: Seq<u32>, en: Seq<u32>, ex: Seq<u32>, tr: Seq<u32>, iv: Seq<InvV>, s: Seq<u8>) -> Dec<StV> {
    match d_opt_list((fl & 0x400) != 0, s, fd_id()) { Dec::Ok(hi, s1) => d_st11(id, doc, name, fl, ini, sts, en, ex, tr, iv, hi, s1), Dec::Fail => Dec::Fail, Dec::Unknown => Dec::Unknown }
}

pub open spec fn d_st11(id: u32, doc: u32, name: Seq<u8>, fl: u16, ini: u32, sts: Seq<u32>, en: Seq<u32>, ex: Seq<u32>, tr: Seq<u32>, iv: Seq<InvV>, hi: Seq<u32>, s: Seq<u8>) -> Dec<StV> {
    match d_opt_pairs((fl & 0x200) != 0, s) { Dec::Ok(u, s1) => d_st12(id, doc, name, fl, ini, sts, en, ex, tr, iv, hi, s1), Dec::Fail => Dec::Fail, Dec::Unknown => Dec::Unknown }
}

pub open spec fn d_st12(id: u32, doc: u32, name: Seq<u8>, fl: u16, ini: u32, sts: Seq<u32>, en: Seq<u32>, ex: Seq<u32>, tr: Seq<u32>, iv: Seq<InvV>, hi: Seq<u32>, s: Seq<u8>) -> Dec<StV> {
    match d_id(s) { Dec::Ok(pa, s1) => d_st13(id, doc, name, fl, ini, sts, en, ex, tr, iv, hi, pa, s1), Dec::Fail => Dec::Fail, Dec::Unknown => Dec::Unknown }
}

pub open spec fn d_st13(id: u32, doc: u32, name: Seq<u8>, fl: u16, ini: u32, sts: Seq<u32>, en: Seq<u32>, ex: Seq<u32>, tr: Seq<u32>, iv: Seq<InvV>, hi: Seq<u32>, pa: u32, s: Seq<u8>) -> Dec<StV> {
    match d_opt_done_data((fl & 0x80) != 0, s) {
        Dec::Ok(dd, s1) => Dec::Ok(StV {
            id: id, doc_id: doc, name: name, history_type: ht_of(fl), is_parallel: (fl & 0x40) != 0, is_final: (fl & 0x20) != 0, initial: ini,
            states: sts, onentry: en, onexit: ex, transitions: tr, invoke: iv, history: hi, parent: pa, donedata: dd,
        }, s1),
        Dec::Fail => Dec::Fail,
        Dec::Unknown => Dec::Unknown,
    }
}

/// a sequence of length 0 is the empty sequence (keeps the extensionality reasoning out of the big functions)
pub proof fn lemma_len0_is_empty<T>(s: Seq<T>)
    requires
        s.len() == 0,
    ensures
        s == Seq::<T>::empty(),
{
    assert(s =~= Seq::<T>::empty());
}

pub proof fn lemma_map_empty<A, B>(s: Seq<A>, f: spec_fn(A) -> B)
    requires
        s.len() == 0,
    ensures
        s.map_values(f) == Seq::<B>::empty(),
{
    assert(s.map_values(f) =~= Seq::<B>::empty());
}

/// an executable-content element: type tag, then the record of that kind (tags above 8 are written by no FsmWriter)
pub open spec fn d_ec(s: Seq<u8>) -> Dec<EcB> {
    match d_uint(s) {
        Dec::Ok(t, r) => {
            let k = t as u8;
            if k == 0 { d_if(r) } else if k == 1 { d_expression(r) } else if k == 2 { d_script(r) } else if k == 3 { d_log(r) }
            else if k == 4 { d_for_each(r) } else if k == 5 {
                match d_send(r) {
                    Dec::Ok(v, r2) => Dec::Ok(EcB::Send(v), r2),
                    Dec::Fail => Dec::Fail,
                    Dec::Unknown => Dec::Unknown,
                }
            } else if k == 6 { d_raise(r) } else if k == 7 { d_cancel(r) } else if k == 8 { d_assign(r) } else { Dec::Unknown }
        },
        Dec::Fail => Dec::Fail,
        Dec::Unknown => Dec::Unknown,
    }
}
