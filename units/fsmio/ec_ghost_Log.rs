    open spec fn ecv(&self) -> EcV {
        EcV::Log(*self)
    }
