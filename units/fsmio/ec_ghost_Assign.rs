    open spec fn ecv(&self) -> EcV {
        EcV::Assign(*self)
    }
