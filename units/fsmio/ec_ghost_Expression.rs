    open spec fn ecv(&self) -> EcV {
        EcV::Expression(*self)
    }
