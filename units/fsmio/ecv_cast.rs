// TRUSTED stand-in for `ec.as_any().downcast_ref::<T>()` (src/serializer/fsm_writer.rs, get_executable_content_as): the
// concrete type behind a `&dyn ExecutableContent` is its ghost view `ecv()`; a failing downcast panics in the real code,
// hence the precondition.
pub trait EcCast: Sized {
    spec fn cast(v: EcV) -> Option<Self>;
}

impl EcCast for If { open spec fn cast(v: EcV) -> Option<Self> { match v { EcV::If(x) => Some(x), _ => None } } }
impl EcCast for Expression { open spec fn cast(v: EcV) -> Option<Self> { match v { EcV::Expression(x) => Some(x), _ => None } } }
impl EcCast for Script { open spec fn cast(v: EcV) -> Option<Self> { match v { EcV::Script(x) => Some(x), _ => None } } }
impl EcCast for Log { open spec fn cast(v: EcV) -> Option<Self> { match v { EcV::Log(x) => Some(x), _ => None } } }
impl EcCast for ForEach { open spec fn cast(v: EcV) -> Option<Self> { match v { EcV::ForEach(x) => Some(x), _ => None } } }
impl EcCast for SendParameters { open spec fn cast(v: EcV) -> Option<Self> { match v { EcV::Send(x) => Some(x), _ => None } } }
impl EcCast for Raise { open spec fn cast(v: EcV) -> Option<Self> { match v { EcV::Raise(x) => Some(x), _ => None } } }
impl EcCast for Cancel { open spec fn cast(v: EcV) -> Option<Self> { match v { EcV::Cancel(x) => Some(x), _ => None } } }
impl EcCast for Assign { open spec fn cast(v: EcV) -> Option<Self> { match v { EcV::Assign(x) => Some(x), _ => None } } }

#[verifier::external_body]
pub fn get_executable_content_as<T: 'static + EcCast>(ec: &dyn ExecutableContent) -> (r: &T)
    requires
        T::cast(ec.ecv()).is_some(),
    ensures
        Some(*r) == T::cast(ec.ecv()),
{
    unimplemented!()
}
