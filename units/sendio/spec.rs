// routing specification of the SCXML Event I/O Processor (W3C SCXML C.1), over the UTF-8 bytes of the target

pub enum Route {
    /// no target: the sender's own external queue
    OwnExternal,
    /// '#_internal': the sender's internal queue
    Internal,
    /// '#_parent': the external queue of the invoking session
    Parent,
    /// '#_scxml_<tail>': the session whose id is the decimal number <tail>
    Session(Seq<u8>),
    /// '#_<tail>': the child session created by the invoke with id <tail>
    Invoke(Seq<u8>),
    /// anything else is not a target of this processor
    Unsupported,
}

pub open spec fn route(t: Seq<u8>) -> Route {
    if t == "".spec_bytes() {
        Route::OwnExternal
    } else if t == SCXML_TARGET_INTERNAL.spec_bytes() {
        Route::Internal
    } else if t == SCXML_TARGET_PARENT.spec_bytes() {
        Route::Parent
    } else if SCXML_TARGET_SESSION_ID_PREFIX.spec_bytes().is_prefix_of(t) {
        Route::Session(t.subrange(SCXML_TARGET_SESSION_ID_PREFIX.spec_bytes().len() as int, t.len() as int))
    } else if SCXML_TARGET_INVOKE_ID_PREFIX.spec_bytes().is_prefix_of(t) {
        Route::Invoke(t.subrange(SCXML_TARGET_INVOKE_ID_PREFIX.spec_bytes().len() as int, t.len() as int))
    } else {
        Route::Unsupported
    }
}

/// the event as the processor hands it on: origintype is the SCXML processor, origin defaults to the sender's location;
/// (`loc`, so that the receiver can reply to the sender); name, sendid, invokeid and the payload are untouched
pub open spec fn stamped(e0: Event, e1: Event, loc: String) -> bool {
    e1.name == e0.name && e1.etype == e0.etype && e1.sendid == e0.sendid && e1.invoke_id == e0.invoke_id
        && e1.param_values == e0.param_values && e1.content == e0.content
        && e1.origin_type.is_some() && e1.origin_type.unwrap()@ == SCXML_EVENT_PROCESSOR@
        && e1.origin.is_some() && (e0.origin.is_some() ==> e1.origin == e0.origin) && (e0.origin.is_none() ==> e1.origin == Some(loc))
}

pub open spec fn is_error_communication(err: Event, about: Event) -> bool {
    err.name@ == "error.communication"@ && err.etype == EventType::platform && err.sendid == about.sendid && err.origin == about.origin
        && err.param_values.is_none() && err.content.is_none() && err.invoke_id == about.invoke_id && err.origin_type == about.origin_type
}

pub open spec fn is_error_execution(err: Event, sendid: Option<String>, invoke_id: Option<InvokeId>) -> bool {
    err.name@ == "error.execution"@ && err.etype == EventType::platform && err.sendid == sendid && err.origin.is_none()
        && err.param_values.is_none() && err.content.is_none() && err.invoke_id == invoke_id && err.origin_type.is_none()
}

/// everything of the session data except the two queues is untouched
pub open spec fn frame_queues(g0: GlobalData, g1: GlobalData) -> bool {
    g1.executor == g0.executor && g1.child_sessions == g0.child_sessions && g1.parent_session_id == g0.parent_session_id
        && g1.session_id == g0.session_id && g1.running == g0.running && g1.caller_invoke_id == g0.caller_invoke_id
        && g1.externalQueue.receiver == g0.externalQueue.receiver
}

/// nothing was queued in this session
pub open spec fn queues_same(g0: GlobalData, g1: GlobalData) -> bool {
    g1.internalQueue.data@ == g0.internalQueue.data@ && g1.externalQueue.sender.sent() == g0.externalQueue.sender.sent()
}

/// exactly one error.communication about `ev` was placed on the internal queue, nothing on the external one
pub open spec fn queued_error_communication(g0: GlobalData, g1: GlobalData, ev: Event) -> bool {
    g1.externalQueue.sender.sent() == g0.externalQueue.sender.sent() && g1.internalQueue.data@.len() == g0.internalQueue.data@.len() + 1
        && g1.internalQueue.data@.drop_last() == g0.internalQueue.data@ && is_error_communication(g1.internalQueue.data@.last(), ev)
}

/// outcome of handing `ev` to the executor for session `sid`: delivered (nothing queued here) or exactly one
/// error.communication; an unknown session is never "delivered"
pub open spec fn session_outcome(g0: GlobalData, g1: GlobalData, sid: SessionId, ev: Event, r: bool) -> bool {
    frame_queues(g0, g1) && (if r { queues_same(g0, g1) && g0.executor.unwrap().knows(sid) } else { queued_error_communication(g0, g1, ev) })
}

pub mod seq_axioms {
    use super::*;

    pub broadcast proof fn lemma_push_drop_last<T>(s: Seq<T>, e: T)
        ensures
            #[trigger] s.push(e).drop_last() == s,
    {
        assert(s.push(e).drop_last() =~= s);
    }
}
