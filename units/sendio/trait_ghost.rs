    // ghost member added by rule R15 (no executable text): the text get_location(id) returns
    spec fn location_of(&self, id: SessionId) -> String;
