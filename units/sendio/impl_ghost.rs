    // ghost member added by rule R15: the text `format!("{}{}", self.location, id)` (uninterpreted)
    uninterp spec fn location_of(&self, id: SessionId) -> String;
