// type aliases of src/fsm.rs / src/datamodel/mod.rs
pub type StateId = u32;
pub type DocumentId = u32;
pub type SessionId = u32;
pub type InvokeId = String;
/// R5: `GlobalDataLock<'a> = MutexGuard<'a, GlobalData>`: the locked session data seen as exclusively owned state (A1)
pub type GlobalDataLock = GlobalData;

/// the data-model value type: opaque in this unit (event payloads are only passed through)
#[verifier::external_body]
pub struct Data {
    _p: (),
}

impl Clone for Data {
    #[verifier::external_body]
    fn clone(&self) -> (r: Self)
        ensures
            r == *self,
    {
        unimplemented!()
    }
}

// TRUSTED stand-in (A4): a std::sync::mpsc::Sender handle.  `sent()` is the ghost sequence of values pushed through
// THIS handle; the real `send(&self, ..)` has interior mutability, modelled here as `&mut self` (the real call sites
// own the handle mutably).  Delivery to the receiving thread is the channel's business and not claimed.
#[verifier::external_body]
#[verifier::reject_recursive_types(T)]
pub struct VSender<T> {
    _p: std::marker::PhantomData<T>,
}

#[verifier::external_body]
#[verifier::reject_recursive_types(T)]
pub struct VReceiver<T> {
    _p: std::marker::PhantomData<T>,
}

impl<T> VSender<T> {
    pub uninterp spec fn sent(&self) -> Seq<T>;

    #[verifier::external_body]
    pub fn send(&mut self, t: T) -> (r: Result<(), SendError<T>>)
        ensures
            final(self).sent() == old(self).sent().push(t),
    {
        unimplemented!()
    }
}

/// stand-in for std::sync::mpsc::SendError (a public tuple struct)
pub struct SendError<T>(pub T);

// TRUSTED stand-in: a cloned Sender of another session as handed out by FsmExecutor::get_session_sender.  Sending
// through it reaches another thread's queue: no state of this session changes; the result is the channel's.
#[verifier::external_body]
pub struct SessionSender {
    _p: (),
}

impl SessionSender {
    #[verifier::external_body]
    pub fn send(&self, t: Box<Event>) -> (r: Result<(), SendError<Box<Event>>>) {
        unimplemented!()
    }
}

// TRUSTED stand-in: the executor (Arc<Mutex<ExecutorState>> with the session table).  `knows(id)`: a session with
// that id is registered.  get_session_sender's real body is `Some(self.state.lock().unwrap().sessions.get(&id)?.sender.clone())`.
#[verifier::external_body]
pub struct FsmExecutor {
    _p: (),
}

impl FsmExecutor {
    pub uninterp spec fn knows(&self, session_id: SessionId) -> bool;

    #[verifier::external_body]
    pub fn get_session_sender(&self, session_id: SessionId) -> (r: Option<SessionSender>)
        ensures
            r.is_some() == self.knows(session_id),
    {
        unimplemented!()
    }
}

impl Clone for Event {
    /// `#[derive(Clone)]` of Event
    #[verifier::external_body]
    fn clone(&self) -> (r: Self)
        ensures
            r == *self,
    {
        unimplemented!()
    }
}

/// R19: `s.starts_with(<&str>)` routed through a monomorphic wrapper (byte-prefix test)
#[verifier::external_body]
pub fn verif_starts_with_str(s: &str, p: &str) -> (r: bool)
    ensures
        r == p.spec_bytes().is_prefix_of(s.spec_bytes()),
{
    s.starts_with(p)
}

/// R19: `s.get(n..)`: the tail from byte n, None if n is beyond the end or not a character boundary
#[verifier::external_body]
pub fn verif_str_tail(s: &str, n: usize) -> (r: Option<&str>)
    ensures
        r.is_some() ==> n <= s.spec_bytes().len() && r.unwrap().spec_bytes() == s.spec_bytes().subrange(n as int, s.spec_bytes().len() as int),
        r.is_none() ==> n > s.spec_bytes().len() || !is_char_boundary(s.spec_bytes(), n as int),
{
    s.get(n..)
}

/// the number a decimal string denotes for `str::parse::<u32>` (uninterpreted; None if parse fails)
pub uninterp spec fn parse_u32(b: Seq<u8>) -> Option<u32>;

/// R19: `s.parse::<SessionId>()`
#[verifier::external_body]
pub fn verif_parse_session_id(s: &str) -> (r: Result<SessionId, ()>)
    ensures
        match r {
            Ok(v) => parse_u32(s.spec_bytes()) == Some(v),
            Err(_) => parse_u32(s.spec_bytes()).is_none(),
        },
{
    s.parse::<SessionId>().map_err(|_| ())
}

/// R19: `"literal".to_string()` / `String::to_string()`
#[verifier::external_body]
pub fn verif_to_string(a: &str) -> (r: String)
    ensures
        r@ == a@,
{
    a.to_string()
}

/// R19: `target == "<literal>"` (match on string literals) as byte-wise equality
#[verifier::external_body]
pub fn verif_str_eq(a: &str, b: &str) -> (r: bool)
    ensures
        r == (a.spec_bytes() == b.spec_bytes()),
{
    a == b
}



pub mod trusted_axioms {
    use super::*;

    /// A4: a real `str` never holds more than isize::MAX bytes (vstd's `str::len` clips to usize otherwise)
    #[verifier::external_body]
    pub broadcast proof fn axiom_str_len_fits(s: &str)
        ensures
            #[trigger] s.spec_bytes().len() <= usize::MAX,
    {
    }

    /// A4: `String` hashes and compares consistently (vstd ships this axiom for the integer types only)
    #[verifier::external_body]
    pub broadcast proof fn axiom_string_key_model()
        ensures
            #[trigger] vstd::std_specs::hash::obeys_key_model::<String>(),
    {
    }
}

/// TRUSTED (A4): a `str` is determined by its UTF-8 bytes (Verus encodes `match s { "lit" => .. }` as `s === "lit"` and
/// ships no extensionality axiom for str)
#[verifier::external_body]
pub proof fn axiom_str_ext(a: &str, b: &str)
    ensures
        (a === b) == (a.spec_bytes() == b.spec_bytes()),
{
}
