pub type SourceId = u32;
pub type InvokeId = String;

// TRUSTED stand-ins.  A DataArc is a handle to a shared value cell; `init()` is the value it was created with (nothing in
// this unit writes to a cell after creation), `readonly()` the DATA_FLAG_READONLY bit of the handle.
#[verifier::external_body]
pub struct DataArc {
    _p: (),
}

impl DataArc {
    pub uninterp spec fn init(&self) -> Data;

    pub uninterp spec fn readonly(&self) -> bool;

    #[verifier::external_body]
    pub fn is_readonly(&self) -> (r: bool)
        ensures
            r == self.readonly(),
    {
        unimplemented!()
    }

    /// sets / clears DATA_FLAG_READONLY (src/datamodel/mod.rs)
    #[verifier::external_body]
    pub fn set_readonly(&mut self, read_only: bool)
        ensures
            final(self).readonly() == read_only,
            final(self).init() == old(self).init(),
    {
        unimplemented!()
    }

    #[verifier::external_body]
    pub fn clone(&self) -> (r: DataArc)
        ensures
            r == *self,
    {
        unimplemented!()
    }
}

/// `DataArc { arc: Arc::new(Mutex::from(data)), flags: 0 }`
#[verifier::external_body]
pub fn create_data_arc(data: Data) -> (r: DataArc)
    ensures
        r.init() == data,
        !r.readonly(),
{
    unimplemented!()
}

/// the session's variables
pub struct DataStore {
    pub map: HashMap<String, DataArc>,
}

impl DataStore {
    /// `set_undefined_arc` (src/datamodel/mod.rs, HashMap entry API: outside Verus' subset): stores the value under the
    /// key unless the key is already bound to a read-only value
    #[verifier::external_body]
    pub fn set_undefined_arc(&mut self, key: String, data: DataArc)
        ensures
            final(self).map@ == (if old(self).map@.contains_key(key) && old(self).map@[key].readonly() { old(self).map@ } else { old(self).map@.insert(key, data) }),
    {
        unimplemented!()
    }
}

pub struct GlobalData {
    pub data: DataStore,
}

// the data model: `global_data` is the session's mutex-protected GlobalData seen as owned state (`.lock().unwrap()`
// rewritten, A1); resolve_source_data evaluates an event payload (oracle)
pub struct RFsmExpressionDatamodel {
    pub global_data: GlobalData,
    pub null_data: DataArc,
}

pub uninterp spec fn resolved(d: Data) -> Data;

impl Clone for Data {
    #[verifier::external_body]
    fn clone(&self) -> (r: Self)
        ensures
            r == *self,
    {
        unimplemented!()
    }
}

/// R19: `"literal".to_string()` / `CONST.to_string()`
#[verifier::external_body]
pub fn verif_to_string(s: &str) -> (r: String)
    ensures
        r@ == s@,
{
    unimplemented!()
}

pub mod trusted_axioms {
    use super::*;

    /// A4: `String` hashes and compares consistently (vstd ships this axiom for the integer types only)
    #[verifier::external_body]
    pub broadcast proof fn axiom_string_key_model()
        ensures
            #[trigger] vstd::std_specs::hash::obeys_key_model::<String>(),
    {
    }
}
