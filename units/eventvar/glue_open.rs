impl RFsmExpressionDatamodel {
    /// evaluates an event payload value (expression engine: oracle)
    #[verifier::external_body]
    fn resolve_source_data(&mut self, data: &Data) -> (r: Result<DataArc, String>)
        ensures
            final(self).global_data == old(self).global_data,
            final(self).null_data == old(self).null_data,
            r.is_ok() ==> r.unwrap().init() == resolved(*data),
    {
        unimplemented!()
    }

