/// `d` is the string value `t`
pub open spec fn is_text(d: Data, t: Seq<char>) -> bool {
    d matches Data::String(s) && s@ == t
}

/// `d` is the value of an optional text field of the event (`option_to_data_value`): the text, or null
pub open spec fn is_opt_text(d: Data, o: Option<String>) -> bool {
    match o {
        Some(s) => is_text(d, s@),
        None => d is Null,
    }
}

/// the map `m` binds a key spelled `name` to a READ-ONLY handle created with the string `t`
pub open spec fn field_text(m: Map<String, DataArc>, name: Seq<char>, t: Seq<char>) -> bool {
    exists|k: String| k@ == name && #[trigger] m.contains_key(k) && is_text(m[k].init(), t) && m[k].readonly()
}

/// the map `m` binds a key spelled `name` to a READ-ONLY handle created with the optional text `o`
pub open spec fn field_opt(m: Map<String, DataArc>, name: Seq<char>, o: Option<String>) -> bool {
    exists|k: String| k@ == name && #[trigger] m.contains_key(k) && is_opt_text(m[k].init(), o) && m[k].readonly()
}

/// the text of an event type (EventType::name)
pub open spec fn type_text(t: EventType) -> Seq<char> {
    match t {
        EventType::platform => "platform"@,
        EventType::internal => "internal"@,
        EventType::external => "external"@,
    }
}

/// `d` is the value of `_event` for `event`: a map binding the six standard text fields to the event's own values
/// (C09: name, type, sendid, origin, origintype, invokeid)
pub open spec fn event_fields(d: Data, event: Event) -> bool {
    match d {
        Data::Map(m) => {
            &&& field_text(m@, EVENT_VARIABLE_FIELD_NAME@, event.name@)
            &&& field_text(m@, EVENT_VARIABLE_FIELD_TYPE@, type_text(event.etype))
            &&& field_opt(m@, EVENT_VARIABLE_FIELD_SEND_ID@, event.sendid)
            &&& field_opt(m@, EVENT_VARIABLE_FIELD_ORIGIN@, event.origin)
            &&& field_opt(m@, EVENT_VARIABLE_FIELD_ORIGIN_TYPE@, event.origin_type)
            &&& field_opt(m@, EVENT_VARIABLE_FIELD_INVOKE_ID@, event.invoke_id)
        },
        _ => false,
    }
}

pub proof fn lemma_text_insert_same(m: Map<String, DataArc>, k: String, v: DataArc, t: Seq<char>)
    requires
        is_text(v.init(), t),
        v.readonly(),
    ensures
        field_text(m.insert(k, v), k@, t),
{
    assert(m.insert(k, v).contains_key(k));
}

pub proof fn lemma_opt_insert_same(m: Map<String, DataArc>, k: String, v: DataArc, o: Option<String>)
    requires
        is_opt_text(v.init(), o),
        v.readonly(),
    ensures
        field_opt(m.insert(k, v), k@, o),
{
    assert(m.insert(k, v).contains_key(k));
}

pub proof fn lemma_text_insert_other(m: Map<String, DataArc>, k: String, v: DataArc, name: Seq<char>, t: Seq<char>)
    requires
        field_text(m, name, t),
        k@ != name,
    ensures
        field_text(m.insert(k, v), name, t),
{
    let k0 = choose|k0: String| k0@ == name && #[trigger] m.contains_key(k0) && is_text(m[k0].init(), t) && m[k0].readonly();
    assert(m.insert(k, v).contains_key(k0));
}

pub proof fn lemma_opt_insert_other(m: Map<String, DataArc>, k: String, v: DataArc, name: Seq<char>, o: Option<String>)
    requires
        field_opt(m, name, o),
        k@ != name,
    ensures
        field_opt(m.insert(k, v), name, o),
{
    let k0 = choose|k0: String| k0@ == name && #[trigger] m.contains_key(k0) && is_opt_text(m[k0].init(), o) && m[k0].readonly();
    assert(m.insert(k, v).contains_key(k0));
}
/// the seven field names are pairwise different texts
pub proof fn lemma_field_names_differ()
    ensures
        EVENT_VARIABLE_FIELD_NAME@ != EVENT_VARIABLE_FIELD_TYPE@,
        EVENT_VARIABLE_FIELD_NAME@ != EVENT_VARIABLE_FIELD_SEND_ID@,
        EVENT_VARIABLE_FIELD_NAME@ != EVENT_VARIABLE_FIELD_ORIGIN@,
        EVENT_VARIABLE_FIELD_NAME@ != EVENT_VARIABLE_FIELD_ORIGIN_TYPE@,
        EVENT_VARIABLE_FIELD_NAME@ != EVENT_VARIABLE_FIELD_INVOKE_ID@,
        EVENT_VARIABLE_FIELD_NAME@ != EVENT_VARIABLE_FIELD_DATA@,
        EVENT_VARIABLE_FIELD_TYPE@ != EVENT_VARIABLE_FIELD_SEND_ID@,
        EVENT_VARIABLE_FIELD_TYPE@ != EVENT_VARIABLE_FIELD_ORIGIN@,
        EVENT_VARIABLE_FIELD_TYPE@ != EVENT_VARIABLE_FIELD_ORIGIN_TYPE@,
        EVENT_VARIABLE_FIELD_TYPE@ != EVENT_VARIABLE_FIELD_INVOKE_ID@,
        EVENT_VARIABLE_FIELD_TYPE@ != EVENT_VARIABLE_FIELD_DATA@,
        EVENT_VARIABLE_FIELD_SEND_ID@ != EVENT_VARIABLE_FIELD_ORIGIN@,
        EVENT_VARIABLE_FIELD_SEND_ID@ != EVENT_VARIABLE_FIELD_ORIGIN_TYPE@,
        EVENT_VARIABLE_FIELD_SEND_ID@ != EVENT_VARIABLE_FIELD_INVOKE_ID@,
        EVENT_VARIABLE_FIELD_SEND_ID@ != EVENT_VARIABLE_FIELD_DATA@,
        EVENT_VARIABLE_FIELD_ORIGIN@ != EVENT_VARIABLE_FIELD_ORIGIN_TYPE@,
        EVENT_VARIABLE_FIELD_ORIGIN@ != EVENT_VARIABLE_FIELD_INVOKE_ID@,
        EVENT_VARIABLE_FIELD_ORIGIN@ != EVENT_VARIABLE_FIELD_DATA@,
        EVENT_VARIABLE_FIELD_ORIGIN_TYPE@ != EVENT_VARIABLE_FIELD_INVOKE_ID@,
        EVENT_VARIABLE_FIELD_ORIGIN_TYPE@ != EVENT_VARIABLE_FIELD_DATA@,
        EVENT_VARIABLE_FIELD_INVOKE_ID@ != EVENT_VARIABLE_FIELD_DATA@,
{
    reveal_strlit("name");
    reveal_strlit("type");
    reveal_strlit("sendid");
    reveal_strlit("origin");
    reveal_strlit("origintype");
    reveal_strlit("invokeid");
    reveal_strlit("data");
    assert("name"@[0] == 'n' && "type"@[0] == 't' && "data"@[0] == 'd' && "sendid"@[0] == 's' && "origin"@[0] == 'o');
    assert("name"@.len() == 4 && "type"@.len() == 4 && "data"@.len() == 4 && "sendid"@.len() == 6 && "origin"@.len() == 6 && "origintype"@.len() == 10 && "invokeid"@.len() == 8);
}
