    /// what callers learn about a list: cells are only added or overwritten, never removed.  That the list is evaluated
    /// front to back and ends with the first failing expression is stated on `execute` itself (loop invariant
    /// `no_expression_has_failed_so_far`, loop postcondition `the_list_ends_with_the_first_failure_or_after_the_last_expression`)
    open spec fn sem(&self, c0: GlobalDataLock, c1: GlobalDataLock, allow_undefined: bool, r: ExpressionResult) -> bool {
        forall|c: int| c0.cells().contains_key(c) ==> c1.cells().contains_key(c)
    }

    open spec fn assignable(&self) -> bool {
        false
    }
