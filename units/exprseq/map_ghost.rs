    /// `{k0: v0, k1: v1, ..}`: for each member the key expression is evaluated, then the value expression, front to back;
    /// the first failure is the result.  Callers learn the frame only (cells are never removed); the order of
    /// evaluation and the early exit are obligations of `execute` (loop invariant `members_so_far`)
    open spec fn sem(&self, c0: GlobalDataLock, c1: GlobalDataLock, allow_undefined: bool, r: ExpressionResult) -> bool {
        forall|c: int| c0.cells().contains_key(c) ==> c1.cells().contains_key(c)
    }

    open spec fn assignable(&self) -> bool {
        false
    }
