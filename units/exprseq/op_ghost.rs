    /// `left op right`: the left operand is evaluated first, then the right one (both with the caller's flag); the
    /// first failure is the result and nothing further is evaluated; otherwise the result is a NEW cell holding
    /// `op` applied to the values the two operands have after both evaluations; no other cell changes
    open spec fn sem(&self, c0: GlobalDataLock, c1: GlobalDataLock, allow_undefined: bool, r: ExpressionResult) -> bool {
        exists|m1: GlobalDataLock, lr: ExpressionResult|
            #[trigger] self.left.sem(c0, m1, allow_undefined, lr) && match lr {
                Err(e) => r == Err::<DataArc, String>(e) && c1.cells() == m1.cells(),
                Ok(lv) => exists|m2: GlobalDataLock, rr: ExpressionResult| #[trigger] self.right.sem(m1, m2, allow_undefined, rr) && match rr {
                    Err(e) => r == Err::<DataArc, String>(e) && c1.cells() == m2.cells(),
                    Ok(rv) => r.is_ok() && !m2.cells().contains_key(r.unwrap().cell())
                        && m2.cells().contains_key(lv.cell()) && m2.cells().contains_key(rv.cell())
                        && (op_binary(self.operator) ==> c1.cells() == m2.cells().insert(r.unwrap().cell(), apply_op(self.operator, m2.cells()[lv.cell()], m2.cells()[rv.cell()]))),
                },
            }
    }

    open spec fn assignable(&self) -> bool {
        false
    }
