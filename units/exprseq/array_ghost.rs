    /// `[e0, e1, ..]`: the elements are evaluated front to back, each exactly once; the first failure is the result and
    /// the remaining elements are not evaluated; otherwise the result is a NEW cell holding the array of the elements'
    /// values (handles) in order, and no other cell changes
    open spec fn sem(&self, c0: GlobalDataLock, c1: GlobalDataLock, allow_undefined: bool, r: ExpressionResult) -> bool {
        exists|ctxs: Seq<GlobalDataLock>, vs: Seq<DataArc>|
            #[trigger] arr_chain(self.array@, ctxs, vs, allow_undefined) && ctxs[0] == c0 && match r {
                Ok(a) => vs.len() == self.array@.len() && !ctxs.last().cells().contains_key(a.cell()) && c1.cells().contains_key(a.cell())
                    && c1.cells()[a.cell()] is Array && c1.cells()[a.cell()]->Array_0@ == vs && c1.cells() == ctxs.last().cells().insert(a.cell(), c1.cells()[a.cell()]),
                Err(e) => vs.len() < self.array@.len() && exists|cm: GlobalDataLock| (#[trigger] self.array@[vs.len() as int].sem(ctxs.last(), cm, allow_undefined, Err::<DataArc, String>(e))) && c1.cells() == cm.cells(),
            }
    }

    open spec fn assignable(&self) -> bool {
        false
    }
