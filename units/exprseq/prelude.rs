// TRUSTED stand-ins for the expression engine's value model.  A `DataArc` is a shared, mutex-protected cell
// (`Arc<Mutex<Data>>` plus a flags word); the cells are modelled as a ghost heap `cells()` owned by the evaluation
// context, a DataArc as the address of its cell.  Locking (blocking, poisoning) is C11's subject and not modelled here.

pub type SourceId = u32;

/// `#[derive(Clone)]` of Data (the enum itself is extracted from src/datamodel/mod.rs)
impl Clone for Data {
    #[verifier::external_body]
    fn clone(&self) -> (r: Self)
        ensures
            r == *self,
    {
        unimplemented!()
    }
}

/// "not Data::Error and not Data::None": the values an assignment may store
pub open spec fn assignable_kind(d: Data) -> bool {
    !(d is Error) && !(d is None)
}

#[verifier::external_body]
pub struct DataArc {
    _p: (),
}

impl DataArc {
    /// the cell this handle points to
    pub uninterp spec fn cell(&self) -> int;

    /// DATA_FLAG_READONLY of this handle
    pub uninterp spec fn readonly(&self) -> bool;

    /// `(self.flags & DATA_FLAG_READONLY) != 0` (src/datamodel/mod.rs)
    #[verifier::external_body]
    pub fn is_readonly(&self) -> (r: bool)
        ensures
            r == self.readonly(),
    {
        unimplemented!()
    }

    /// Arc::clone: another handle to the same cell with the same flags
    #[verifier::external_body]
    pub fn clone(&self) -> (r: DataArc)
        ensures
            r == *self,
    {
        unimplemented!()
    }
}

/// the evaluation context (`MutexGuard<GlobalData>`): owns the ghost heap of cells
#[verifier::external_body]
pub struct GlobalDataLock {
    _p: (),
}

impl GlobalDataLock {
    pub uninterp spec fn cells(&self) -> Map<int, Data>;
}

/// R19: `x.lock().unwrap().clone()`: a copy of the value in x's cell
#[verifier::external_body]
pub fn verif_read(context: &GlobalDataLock, x: &DataArc) -> (r: Data)
    requires
        context.cells().contains_key(x.cell()),
    ensures
        r == context.cells()[x.cell()],
{
    unimplemented!()
}

/// R19: `value.clone_into(v.lock().unwrap().deref_mut())`: overwrite the value in v's cell
#[verifier::external_body]
pub fn verif_write(context: &mut GlobalDataLock, v: &DataArc, value: &Data)
    ensures
        final(context).cells() == old(context).cells().insert(v.cell(), *value),
{
    unimplemented!()
}

pub type ExpressionResult = Result<DataArc, String>;

// TRUSTED stand-in: an expression node.  `sem` is the node's meaning as a relation between the context before, the context
// after, the flag and the result (uninterpreted for the nodes not extracted here); every node returns a handle to an
// existing cell and never removes cells.
pub trait Expression {
    spec fn sem(&self, c0: GlobalDataLock, c1: GlobalDataLock, allow_undefined: bool, r: ExpressionResult) -> bool;

    spec fn assignable(&self) -> bool;

    fn execute(&self, context: &mut GlobalDataLock, allow_undefined: bool) -> (r: ExpressionResult)
        ensures
            self.sem(*old(context), *final(context), allow_undefined, r),
            r.is_ok() ==> final(context).cells().contains_key(r.unwrap().cell()),
            forall|c: int| old(context).cells().contains_key(c) ==> final(context).cells().contains_key(c);

    fn is_assignable(&self) -> (r: bool)
        ensures
            r == self.assignable();
}


/// R19: `create_data_arc(d)`: allocation of a new value cell; the heap of cells is owned by the evaluation context
#[verifier::external_body]
pub fn verif_new_cell(context: &mut GlobalDataLock, d: Data) -> (r: DataArc)
    ensures
        !old(context).cells().contains_key(r.cell()),
        final(context).cells() == old(context).cells().insert(r.cell(), d),
        final(context).calls() == old(context).calls(),
        final(context).vars() == old(context).vars(),
        !r.readonly(),
{
    unimplemented!()
}

/// R19: `matches!(value.lock().as_deref(), Ok(Data::Error(_)))`: the value in the cell is an error value
#[verifier::external_body]
pub fn verif_is_error_value(context: &GlobalDataLock, value: &DataArc) -> (r: bool)
    requires
        context.cells().contains_key(value.cell()),
    ensures
        r == (context.cells()[value.cell()] is Error),
{
    unimplemented!()
}

/// an evaluation that failed: an `Err`, or an error value (`Data::Error`), as `execute_internal_source` judges results
pub open spec fn failed(c: GlobalDataLock, r: ExpressionResult) -> bool {
    match r {
        Err(_) => true,
        Ok(v) => c.cells().contains_key(v.cell()) && c.cells()[v.cell()] is Error,
    }
}

// TRUSTED stand-ins: the operator functions of src/datamodel/mod.rs (their values are the subject of the Kani harnesses)
pub uninterp spec fn sp_multiply(l: Data, r: Data) -> Data;

#[verifier::external_body]
pub fn operation_multiply(left: &Data, right: &Data) -> (r: Data)
    ensures
        r == sp_multiply(*left, *right),
{
    unimplemented!()
}

pub uninterp spec fn sp_divide(l: Data, r: Data) -> Data;

#[verifier::external_body]
pub fn operation_divide(left: &Data, right: &Data) -> (r: Data)
    ensures
        r == sp_divide(*left, *right),
{
    unimplemented!()
}

pub uninterp spec fn sp_plus(l: Data, r: Data) -> Data;

#[verifier::external_body]
pub fn operation_plus(left: &Data, right: &Data) -> (r: Data)
    ensures
        r == sp_plus(*left, *right),
{
    unimplemented!()
}

pub uninterp spec fn sp_minus(l: Data, r: Data) -> Data;

#[verifier::external_body]
pub fn operation_minus(left: &Data, right: &Data) -> (r: Data)
    ensures
        r == sp_minus(*left, *right),
{
    unimplemented!()
}

pub uninterp spec fn sp_less(l: Data, r: Data) -> Data;

#[verifier::external_body]
pub fn operation_less(left: &Data, right: &Data) -> (r: Data)
    ensures
        r == sp_less(*left, *right),
{
    unimplemented!()
}

pub uninterp spec fn sp_less_equal(l: Data, r: Data) -> Data;

#[verifier::external_body]
pub fn operation_less_equal(left: &Data, right: &Data) -> (r: Data)
    ensures
        r == sp_less_equal(*left, *right),
{
    unimplemented!()
}

pub uninterp spec fn sp_greater(l: Data, r: Data) -> Data;

#[verifier::external_body]
pub fn operation_greater(left: &Data, right: &Data) -> (r: Data)
    ensures
        r == sp_greater(*left, *right),
{
    unimplemented!()
}

pub uninterp spec fn sp_greater_equal(l: Data, r: Data) -> Data;

#[verifier::external_body]
pub fn operation_greater_equal(left: &Data, right: &Data) -> (r: Data)
    ensures
        r == sp_greater_equal(*left, *right),
{
    unimplemented!()
}

pub uninterp spec fn sp_and(l: Data, r: Data) -> Data;

#[verifier::external_body]
pub fn operation_and(left: &Data, right: &Data) -> (r: Data)
    ensures
        r == sp_and(*left, *right),
{
    unimplemented!()
}

pub uninterp spec fn sp_or(l: Data, r: Data) -> Data;

#[verifier::external_body]
pub fn operation_or(left: &Data, right: &Data) -> (r: Data)
    ensures
        r == sp_or(*left, *right),
{
    unimplemented!()
}

pub uninterp spec fn sp_equal(l: Data, r: Data) -> Data;

#[verifier::external_body]
pub fn operation_equal(left: &Data, right: &Data) -> (r: Data)
    ensures
        r == sp_equal(*left, *right),
{
    unimplemented!()
}

pub uninterp spec fn sp_not_equal(l: Data, r: Data) -> Data;

#[verifier::external_body]
pub fn operation_not_equal(left: &Data, right: &Data) -> (r: Data)
    ensures
        r == sp_not_equal(*left, *right),
{
    unimplemented!()
}

pub uninterp spec fn sp_modulus(l: Data, r: Data) -> Data;

#[verifier::external_body]
pub fn operation_modulus(left: &Data, right: &Data) -> (r: Data)
    ensures
        r == sp_modulus(*left, *right),
{
    unimplemented!()
}

/// the README's operator table: which operation an operator token denotes
pub open spec fn apply_op(op: Operator, l: Data, r: Data) -> Data {
    match op {
        Operator::Multiply => sp_multiply(l, r),
        Operator::Divide => sp_divide(l, r),
        Operator::Plus => sp_plus(l, r),
        Operator::Minus => sp_minus(l, r),
        Operator::Less => sp_less(l, r),
        Operator::LessEqual => sp_less_equal(l, r),
        Operator::Greater => sp_greater(l, r),
        Operator::GreaterEqual => sp_greater_equal(l, r),
        Operator::And => sp_and(l, r),
        Operator::Or => sp_or(l, r),
        Operator::Equal => sp_equal(l, r),
        Operator::NotEqual => sp_not_equal(l, r),
        Operator::Modulus => sp_modulus(l, r),
        _ => l,
    }
}

pub open spec fn op_binary(op: Operator) -> bool {
    !(op is Assign) && !(op is AssignUndefined) && !(op is Not)
}

/// R19: `val.lock()`: the guard gives read access to the value in val's cell (blocking and poisoning are not modelled:
/// assumption A1; lock discipline is C11's subject and covered by the bounded replay only)
#[verifier::external_body]
pub struct VerifGuard {
    _p: (),
}

impl VerifGuard {
    pub uninterp spec fn value(&self) -> Data;

    #[verifier::external_body]
    pub fn deref(&self) -> (r: &Data)
        ensures
            *r == self.value(),
    {
        unimplemented!()
    }
}

#[verifier::external_body]
pub struct VerifPoison {
    _p: (),
}

impl VerifPoison {
    #[verifier::external_body]
    pub fn to_string(&self) -> (r: String) {
        unimplemented!()
    }
}

#[verifier::external_body]
pub fn verif_lock(context: &GlobalDataLock, v: &DataArc) -> (r: Result<VerifGuard, VerifPoison>)
    requires
        context.cells().contains_key(v.cell()),
    ensures
        r is Ok,
        r->Ok_0.value() == context.cells()[v.cell()],
{
    unimplemented!()
}

/// `"literal".to_string()`
#[verifier::external_body]
pub fn verif_to_string(s: &str) -> (r: String) {
    s.to_string()
}

/// the first vs.len() elements of es were evaluated in order, each starting where the previous one ended, and all succeeded
pub open spec fn arr_chain(es: Seq<Box<dyn Expression>>, ctxs: Seq<GlobalDataLock>, vs: Seq<DataArc>, allow_undefined: bool) -> bool {
    &&& ctxs.len() == vs.len() + 1
    &&& vs.len() <= es.len()
    &&& forall|j: int| 0 <= j < vs.len() ==> (#[trigger] es[j]).sem(ctxs[j], ctxs[j + 1], allow_undefined, Ok::<DataArc, String>(vs[j]))
}

impl GlobalDataLock {
    /// the session's variables (`context.data`, a DataStore): name -> handle of the value cell
    pub uninterp spec fn vars(&self) -> Map<Seq<char>, DataArc>;
}

/// R19: `context.data.get(&name)` (DataStore::get): the handle bound to the name, if any; bound handles point into the heap
#[verifier::external_body]
pub fn verif_var_get(context: &GlobalDataLock, name: &String) -> (r: Option<DataArc>)
    ensures
        r == (if context.vars().contains_key(name@) { Some(context.vars()[name@]) } else { None::<DataArc> }),
        r is Some ==> context.cells().contains_key(r.unwrap().cell()),
{
    unimplemented!()
}

/// R19: `context.data.set_undefined(name, d)` (DataStore::set_undefined) for a name that is not bound: binds it to a new cell
#[verifier::external_body]
pub fn verif_var_declare(context: &mut GlobalDataLock, name: String, d: Data)
    requires
        !old(context).vars().contains_key(name@),
    ensures
        final(context).vars().dom() == old(context).vars().dom().insert(name@),
        forall|k: Seq<char>| old(context).vars().contains_key(k) ==> final(context).vars()[k] == old(context).vars()[k],
        !old(context).cells().contains_key(final(context).vars()[name@].cell()),
        final(context).cells() == old(context).cells().insert(final(context).vars()[name@].cell(), d),
{
    unimplemented!()
}

pub mod trusted_axioms {
    use super::*;

    /// A4: `String` hashes and compares consistently (vstd ships this axiom for the integer types only)
    #[verifier::external_body]
    pub broadcast proof fn axiom_string_key_model()
        ensures
            #[trigger] vstd::std_specs::hash::obeys_key_model::<String>(),
    {
    }
}

/// the text a value prints as (Display of DataArc): the key a map literal stores an entry under
pub uninterp spec fn key_text(d: Data) -> Seq<char>;

/// R19: `key_val.to_string()`
#[verifier::external_body]
pub fn verif_key_text(context: &GlobalDataLock, k: &DataArc) -> (r: String)
    requires
        context.cells().contains_key(k.cell()),
    ensures
        r@ == key_text(context.cells()[k.cell()]),
{
    unimplemented!()
}

/// R19: `HashMap::with_capacity(n)`
#[verifier::external_body]
pub fn verif_new_map(n: usize) -> (r: HashMap<String, DataArc>)
    ensures
        r@ == Map::<String, DataArc>::empty(),
{
    HashMap::with_capacity(n)
}

/// the value an argument contributes to a method call: the value in the result's cell, or an error value for a failed evaluation
pub open spec fn arg_value(c: GlobalDataLock, r: ExpressionResult) -> Data {
    match r {
        Ok(a) => c.cells()[a.cell()],
        Err(e) => Data::Error(e),
    }
}

/// the first n arguments were evaluated in order, each exactly once and without the may-create flag, each starting where
/// the previous one ended; vals holds what they contributed
pub open spec fn arg_chain(es: Seq<Box<dyn Expression>>, ctxs: Seq<GlobalDataLock>, rs: Seq<ExpressionResult>, vals: Seq<Data>, n: int) -> bool {
    &&& 0 <= n <= es.len()
    &&& ctxs.len() == n + 1
    &&& rs.len() == n
    &&& vals.len() == n
    &&& forall|j: int| 0 <= j < n ==> (#[trigger] es[j]).sem(ctxs[j], ctxs[j + 1], false, rs[j])
    &&& forall|j: int| 0 <= j < n ==> #[trigger] vals[j] == arg_value(ctxs[j + 1], rs[j])
}

impl GlobalDataLock {
    /// the custom/built-in actions called so far: (name, argument values), in order (ghost)
    pub uninterp spec fn calls(&self) -> Seq<(Seq<char>, Seq<Data>)>;
}

/// R19: `context.actions.execute(name, arguments, context)`: one call of the named action with these argument values
#[verifier::external_body]
pub fn verif_call_action(context: &mut GlobalDataLock, name: &str, arguments: &[Data]) -> (r: Result<Data, String>)
    ensures
        final(context).calls() == old(context).calls().push((name@, arguments@)),
        final(context).cells() == old(context).cells(),
        final(context).vars() == old(context).vars(),
{
    unimplemented!()
}
