// TRUSTED stand-ins for the expression engine's value model.  A `DataArc` is a shared, mutex-protected cell
// (`Arc<Mutex<Data>>` plus a flags word); the cells are modelled as a ghost heap `cells()` owned by the evaluation
// context, a DataArc as the address of its cell.  Locking (blocking, poisoning) is C11's subject and not modelled here.

pub type SourceId = u32;

/// `#[derive(Clone)]` of Data (the enum itself is extracted from src/datamodel/mod.rs)
impl Clone for Data {
    #[verifier::external_body]
    fn clone(&self) -> (r: Self)
        ensures
            r == *self,
    {
        unimplemented!()
    }
}

/// "not Data::Error and not Data::None": the values an assignment may store
pub open spec fn assignable_kind(d: Data) -> bool {
    !(d is Error) && !(d is None)
}

#[verifier::external_body]
pub struct DataArc {
    _p: (),
}

impl DataArc {
    /// the cell this handle points to
    pub uninterp spec fn cell(&self) -> int;

    /// DATA_FLAG_READONLY of this handle
    pub uninterp spec fn readonly(&self) -> bool;

    /// `(self.flags & DATA_FLAG_READONLY) != 0` (src/datamodel/mod.rs)
    #[verifier::external_body]
    pub fn is_readonly(&self) -> (r: bool)
        ensures
            r == self.readonly(),
    {
        unimplemented!()
    }

    /// Arc::clone: another handle to the same cell with the same flags
    #[verifier::external_body]
    pub fn clone(&self) -> (r: DataArc)
        ensures
            r == *self,
    {
        unimplemented!()
    }
}

/// the evaluation context (`MutexGuard<GlobalData>`): owns the ghost heap of cells
#[verifier::external_body]
pub struct GlobalDataLock {
    _p: (),
}

impl GlobalDataLock {
    pub uninterp spec fn cells(&self) -> Map<int, Data>;
}

/// R19: `x.lock().unwrap().clone()`: a copy of the value in x's cell
#[verifier::external_body]
pub fn verif_read(context: &GlobalDataLock, x: &DataArc) -> (r: Data)
    requires
        context.cells().contains_key(x.cell()),
    ensures
        r == context.cells()[x.cell()],
{
    unimplemented!()
}

/// R19: `value.clone_into(v.lock().unwrap().deref_mut())`: overwrite the value in v's cell
#[verifier::external_body]
pub fn verif_write(context: &mut GlobalDataLock, v: &DataArc, value: &Data)
    ensures
        final(context).cells() == old(context).cells().insert(v.cell(), *value),
{
    unimplemented!()
}

pub type ExpressionResult = Result<DataArc, String>;

// TRUSTED stand-in: an expression node.  `sem` is the node's meaning as a relation between the context before, the context
// after, the flag and the result (uninterpreted for the nodes not extracted here); every node returns a handle to an
// existing cell and never removes cells.
pub trait Expression {
    spec fn sem(&self, c0: GlobalDataLock, c1: GlobalDataLock, allow_undefined: bool, r: ExpressionResult) -> bool;

    spec fn assignable(&self) -> bool;

    fn execute(&self, context: &mut GlobalDataLock, allow_undefined: bool) -> (r: ExpressionResult)
        ensures
            self.sem(*old(context), *final(context), allow_undefined, r),
            r.is_ok() ==> final(context).cells().contains_key(r.unwrap().cell()),
            forall|c: int| old(context).cells().contains_key(c) ==> final(context).cells().contains_key(c);

    fn is_assignable(&self) -> (r: bool)
        ensures
            r == self.assignable();
}


/// R19: `create_data_arc(d)`: allocation of a new value cell; the heap of cells is owned by the evaluation context
#[verifier::external_body]
pub fn verif_new_cell(context: &mut GlobalDataLock, d: Data) -> (r: DataArc)
    ensures
        !old(context).cells().contains_key(r.cell()),
        final(context).cells() == old(context).cells().insert(r.cell(), d),
        !r.readonly(),
{
    unimplemented!()
}

/// R19: `matches!(value.lock().as_deref(), Ok(Data::Error(_)))`: the value in the cell is an error value
#[verifier::external_body]
pub fn verif_is_error_value(context: &GlobalDataLock, value: &DataArc) -> (r: bool)
    requires
        context.cells().contains_key(value.cell()),
    ensures
        r == (context.cells()[value.cell()] is Error),
{
    unimplemented!()
}

/// an evaluation that failed: an `Err`, or an error value (`Data::Error`), as `execute_internal_source` judges results
pub open spec fn failed(c: GlobalDataLock, r: ExpressionResult) -> bool {
    match r {
        Err(_) => true,
        Ok(v) => c.cells().contains_key(v.cell()) && c.cells()[v.cell()] is Error,
    }
}
