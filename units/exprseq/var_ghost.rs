    /// a variable name: a declared variable yields its handle and changes nothing; an undeclared one is an error and
    /// changes nothing -- unless the caller allows creation (the left side of `?=`), then it is bound to a NEW cell
    /// holding the undefined value and nothing else changes
    open spec fn sem(&self, c0: GlobalDataLock, c1: GlobalDataLock, allow_undefined: bool, r: ExpressionResult) -> bool {
        if c0.vars().contains_key(self.name@) {
            r == Ok::<DataArc, String>(c0.vars()[self.name@]) && c1 == c0
        } else if allow_undefined {
            r.is_ok() && !c0.cells().contains_key(r.unwrap().cell()) && c1.vars().dom() == c0.vars().dom().insert(self.name@)
                && c1.vars()[self.name@] == r.unwrap() && c1.cells() == c0.cells().insert(r.unwrap().cell(), Data::None())
        } else {
            r.is_err() && c1 == c0
        }
    }

    open spec fn assignable(&self) -> bool {
        true
    }
