    /// a literal: a NEW cell holding the literal's value; nothing else changes (so a literal can never alias a variable)
    open spec fn sem(&self, c0: GlobalDataLock, c1: GlobalDataLock, allow_undefined: bool, r: ExpressionResult) -> bool {
        r.is_ok() && !c0.cells().contains_key(r.unwrap().cell()) && c1.cells() == c0.cells().insert(r.unwrap().cell(), self.data)
    }

    open spec fn assignable(&self) -> bool {
        false
    }
