    /// `!right`: the operand is evaluated once; a failure is the result; a Boolean value gives a NEW cell holding the
    /// negated value and no other cell changes; any other value is an error and no cell changes
    open spec fn sem(&self, c0: GlobalDataLock, c1: GlobalDataLock, allow_undefined: bool, r: ExpressionResult) -> bool {
        exists|m1: GlobalDataLock, vr: ExpressionResult|
            #[trigger] self.right.sem(c0, m1, allow_undefined, vr) && match vr {
                Err(e) => r == Err::<DataArc, String>(e) && c1.cells() == m1.cells(),
                Ok(v) => m1.cells().contains_key(v.cell()) && match m1.cells()[v.cell()] {
                    Data::Boolean(b) => r.is_ok() && !m1.cells().contains_key(r.unwrap().cell()) && c1.cells() == m1.cells().insert(r.unwrap().cell(), Data::Boolean(!b)),
                    _ => r.is_err() && c1.cells() == m1.cells(),
                },
            }
    }

    open spec fn assignable(&self) -> bool {
        false
    }
