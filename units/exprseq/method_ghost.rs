    /// `name(a0, a1, ..)`: every argument is evaluated once, in order, never creating variables (whatever flag the caller
    /// passes); a failed argument contributes an error value; then the named action is called exactly once with exactly
    /// these values
    open spec fn sem(&self, c0: GlobalDataLock, c1: GlobalDataLock, allow_undefined: bool, r: ExpressionResult) -> bool {
        exists|ctxs: Seq<GlobalDataLock>, rs: Seq<ExpressionResult>, vals: Seq<Data>|
            #[trigger] arg_chain(self.arguments@, ctxs, rs, vals, self.arguments@.len() as int) && ctxs[0] == c0
            && c1.calls() == ctxs.last().calls().push((self.method@, vals))
            && (forall|c: int| c0.cells().contains_key(c) ==> c1.cells().contains_key(c))
    }

    open spec fn assignable(&self) -> bool {
        false
    }
