
#[cfg(test)]
mod verif_replay_ecma {
    use super::*;
    use crate::actions::ActionWrapper;
    use crate::fsm;
    use crate::fsm::{Event, FinishMode};
    use crate::scxml_reader;
    use std::sync::mpsc::channel;
    use std::time::Duration;

    /// runs the document in its own session, feeds the external events in order; Err if the session thread panicked
    /// or did not terminate within 10 s, else the final configuration
    fn run(doc: &str, events: &[&str]) -> Result<Vec<String>, String> {
        let fsm = scxml_reader::parse_from_xml(doc.to_string()).unwrap();
        let executor = FsmExecutor::new_without_io_processor();
        let session = fsm::start_fsm_with_data_and_finish_mode(
            fsm,
            ActionWrapper::new(),
            Box::new(executor),
            &Vec::new(),
            FinishMode::KEEP_CONFIGURATION,
        );
        for e in events {
            let _ = session.sender.send(Box::new(Event::new_simple(e)));
        }
        let gd = session.global_data.clone();
        let th = session.thread.unwrap();
        let (tx, rx) = channel();
        std::thread::spawn(move || {
            let r = th.join();
            let _ = tx.send(r.is_ok());
        });
        match rx.recv_timeout(Duration::from_secs(10)) {
            Ok(true) => match gd.lock() {
                Ok(g) => Ok(g.final_configuration.clone().unwrap_or_default()),
                Err(_) => Err("session data poisoned".to_string()),
            },
            Ok(false) => Err("session thread panicked".to_string()),
            Err(_) => Err("session did not terminate (wedged)".to_string()),
        }
    }

    fn fin(s: &str) -> Result<Vec<String>, String> {
        Ok(vec![s.to_string()])
    }


    fn error_doc(content: &str) -> String {
        format!(
            r###"<scxml xmlns="http://www.w3.org/2005/07/scxml" initial="s0" version="1.0" datamodel="ecmascript">
 <datamodel><data id="v" expr="1"/><data id="arr" expr="[1,2,3]"/></datamodel>
 <state id="s0">
  <onentry>{}<raise event="after"/></onentry>
  <transition event="error.execution" target="s1"/>
  <transition event="*" target="noerror"/>
 </state>
 <state id="s1">
  <onentry><raise event="probe"/></onentry>
  <transition event="after" target="restran"/>
  <transition event="probe" target="pass"/>
 </state>
 <final id="pass"/><final id="noerror"/><final id="restran"/>
</scxml>"###,
            content
        )
    }

    /// C08 (ECMAScript data model): an evaluation error places error.execution on the internal queue and aborts the
    /// remainder of the enclosing block
    #[test]
    fn verif_replay_ecma_evaluation_errors() {
        for c in [
            r#"<script>nosuch + 1</script>"#,
            r#"<script>1 +</script>"#,
            r#"<log expr="nosuch + 1"/>"#,
            r#"<assign location="v" expr="nosuch + 1"/>"#,
            r#"<assign location="v" expr="1 +"/>"#,
            r#"<foreach array="nosuch" item="i"><raise event="x"/></foreach>"#,
            r#"<foreach array="v" item="i"><raise event="x"/></foreach>"#,
            r#"<send event="e" delayexpr="nosuch"/>"#,
            r#"<send eventexpr="nosuch"/>"#,
            r#"<send event="e" targetexpr="nosuch"/>"#,
            r#"<if cond="nosuch + 1"><raise event="x"/></if><send event="e" delayexpr="nosuch"/>"#,
        ] {
            assert_eq!(run(&error_doc(c), &[]), fin("pass"), "content {}", c);
        }
    }

    /// C09 (ECMAScript data model): In(id) is true exactly when the state is in the configuration
    #[test]
    fn verif_replay_ecma_in_predicate() {
        let doc = r###"<scxml xmlns="http://www.w3.org/2005/07/scxml" initial="P" version="1.0" datamodel="ecmascript">
 <parallel id="P">
  <state id="R1" initial="a1"><state id="a1"><transition event="go" target="a2"/></state><state id="a2"/></state>
  <state id="R2" initial="b1">
   <state id="b1"><transition event="check" cond="In('a2') &amp;&amp; In('R1') &amp;&amp; In('P') &amp;&amp; In('b1') &amp;&amp; !In('a1') &amp;&amp; !In('b2') &amp;&amp; !In('nosuchstate')" target="b2"/><transition event="check" target="wrong"/></state>
   <state id="b2"><transition cond="In('b2') &amp;&amp; !In('b1')" target="pass"/><transition target="wrong"/></state>
  </state>
 </parallel>
 <final id="pass"/><final id="wrong"/>
</scxml>"###;
        assert_eq!(run(doc, &["go", "check"]), fin("pass"));
    }

    /// C09 (ECMAScript data model): _event exposes name, type, sendid, origin, origintype, invokeid and data
    #[test]
    fn verif_replay_ecma_event_fields() {
        for g in [
            "_event.name == 'ping'",
            "_event.type == 'external'",
            "_event.sendid == 'sid1'",
            "_event.origintype == 'http://www.w3.org/TR/scxml/#SCXMLEventProcessor'",
            "_event.origin == '#_scxml_' + _sessionid",
            "_event.invokeid === undefined || _event.invokeid === null",
            "_event.data.p == 7",
        ] {
            let doc = format!(
                r###"<scxml xmlns="http://www.w3.org/2005/07/scxml" name="machine" initial="s0" version="1.0" datamodel="ecmascript">
 <state id="s0">
  <onentry><send event="ping" id="sid1"><param name="p" expr="7"/></send></onentry>
  <transition event="ping" cond="{}" target="pass"/>
  <transition event="ping" target="wrongfields"/>
 </state>
 <final id="pass"/><final id="wrongfields"/>
</scxml>"###,
                g.replace("&", "&amp;").replace("<", "&lt;")
            );
            assert_eq!(run(&doc, &[]), fin("pass"), "guard {}", g);
        }
    }

    fn silent_doc(content: &str, intact: &str) -> String {
        format!(
            r###"<scxml xmlns="http://www.w3.org/2005/07/scxml" name="machine" initial="s0" version="1.0" datamodel="ecmascript">
 <state id="s0">
  <onentry>{}<raise event="probe"/></onentry>
  <transition event="error.execution" cond="{}" target="pass"/>
  <transition event="error.execution" target="changed"/>
  <transition event="probe" target="silent"/>
 </state>
 <final id="pass"/><final id="changed"/><final id="silent"/>
</scxml>"###,
            content, intact
        )
    }

    /// C09, KNOWN FINDING (ECMAScript data model, default non-strict mode): a write to a system variable leaves the value
    /// intact but raises no error.execution (the engine's strict option repairs it)
    #[test]
    fn verif_replay_ecma_system_variable_write_is_reported() {
        assert_eq!(run(&silent_doc(r#"<assign location="_sessionid" expr="'x'"/>"#, "_sessionid != 'x'"), &[]), fin("pass"));
    }

    /// C08, KNOWN FINDING (ECMAScript data model, default non-strict mode): <assign> to an undeclared location creates a
    /// global instead of raising error.execution
    #[test]
    fn verif_replay_ecma_assign_to_undeclared_is_reported() {
        assert_eq!(run(&silent_doc(r#"<assign location="nosuchlocation" expr="1"/>"#, "true"), &[]), fin("pass"));
    }
}
