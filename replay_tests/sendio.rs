
#[cfg(test)]
mod verif_replay_sendio {
    use super::*;
    use crate::actions::ActionWrapper;
    use crate::fsm;
    use crate::fsm::FinishMode;
    use crate::scxml_reader;
    use std::sync::mpsc::channel;
    use std::time::Duration;

    /// runs the document in its own session; returns Err(..) if the session thread panicked or did not
    /// terminate within 10 s, else the final configuration
    fn run(doc: &str) -> Result<Vec<String>, String> {
        let fsm = scxml_reader::parse_from_xml(doc.to_string()).unwrap();
        let executor = FsmExecutor::new_without_io_processor();
        let session = fsm::start_fsm_with_data_and_finish_mode(
            fsm,
            ActionWrapper::new(),
            Box::new(executor),
            &Vec::new(),
            FinishMode::KEEP_CONFIGURATION,
        );
        let gd = session.global_data.clone();
        let th = session.thread.unwrap();
        let (tx, rx) = channel();
        std::thread::spawn(move || {
            let r = th.join();
            let _ = tx.send(r.is_ok());
        });
        match rx.recv_timeout(Duration::from_secs(10)) {
            Ok(true) => match gd.lock() {
                Ok(g) => Ok(g.final_configuration.clone().unwrap_or_default()),
                Err(_) => Err("session data poisoned (a thread panicked while holding the lock)".to_string()),
            },
            Ok(false) => Err("session thread panicked".to_string()),
            Err(_) => Err("session did not terminate (wedged)".to_string()),
        }
    }

    fn doc(target_attr: &str) -> String {
        format!(
            r###"<scxml xmlns="http://www.w3.org/2005/07/scxml" initial="s0" version="1.0" datamodel="rfsm-expression">
 <state id="s0">
  <onentry><send {} event="hello"/><send event="timeout" delay="5s"/></onentry>
  <transition event="error.communication" target="pass"/>
  <transition event="error.execution" target="exec"/>
  <transition event="hello" target="got"/>
  <transition event="timeout" target="fail"/>
 </state>
 <final id="pass"/><final id="exec"/><final id="got"/><final id="fail"/>
</scxml>"###,
            target_attr
        )
    }

    /// C12/C15: no target -> own external queue
    #[test]
    fn verif_replay_sendio_no_target() {
        assert_eq!(run(&doc("")), Ok(vec!["got".to_string()]));
    }

    /// C12: '#_parent' in a session without parent: error.communication, never a panic
    #[test]
    fn verif_replay_sendio_parent_without_parent() {
        assert_eq!(run(&doc(r##"target="#_parent""##)), Ok(vec!["pass".to_string()]));
    }

    /// C12: '#_scxml_<id>' of a session that does not exist: error.communication, never a panic
    #[test]
    fn verif_replay_sendio_unknown_session() {
        assert_eq!(run(&doc(r##"target="#_scxml_424242""##)), Ok(vec!["pass".to_string()]));
    }

    /// C12: '#_scxml_<garbage>': error.communication
    #[test]
    fn verif_replay_sendio_malformed_session() {
        assert_eq!(run(&doc(r##"target="#_scxml_abc""##)), Ok(vec!["pass".to_string()]));
    }

    /// C12: '#_<unknown invoke id>': error.communication
    #[test]
    fn verif_replay_sendio_unknown_invoke() {
        assert_eq!(run(&doc(r##"target="#_nochild""##)), Ok(vec!["pass".to_string()]));
    }

    /// C12: unsupported target form: error.execution
    #[test]
    fn verif_replay_sendio_bad_target() {
        assert_eq!(run(&doc(r##"target="somewhere""##)), Ok(vec!["exec".to_string()]));
    }

    /// C15: '#_internal' -> own internal queue
    #[test]
    fn verif_replay_sendio_internal() {
        assert_eq!(run(&doc(r##"target="#_internal""##)), Ok(vec!["got".to_string()]));
    }

    /// parent/child pair: the child sends `child.msg` with the given <send> attributes; the parent ends in "delivered"
    /// when it receives it, in "lost" after 5 s, the child itself reports `child.echo` when it gets its own event
    fn routed_doc(child_send_attrs: &str) -> String {
        format!(
            r###"<scxml xmlns="http://www.w3.org/2005/07/scxml" initial="s0" version="1.0" datamodel="rfsm-expression">
 <state id="s0">
  <onentry><send event="timeout" delay="5s"/></onentry>
  <invoke type="scxml" id="kid"><content><scxml xmlns="http://www.w3.org/2005/07/scxml" initial="c0" version="1.0" datamodel="rfsm-expression"><state id="c0"><onentry><send {} event="child.msg"/></onentry><transition event="child.msg" target="c1"/></state><state id="c1"><onentry><send target="#_parent" event="child.echo"/></onentry></state></scxml></content></invoke>
  <transition event="child.msg" target="delivered"/>
  <transition event="child.echo" target="misrouted"/>
  <transition event="timeout" target="lost"/>
 </state>
 <final id="delivered"/><final id="misrouted"/><final id="lost"/>
</scxml>"###,
            child_send_attrs
        )
    }

    /// C15: the target of a <send> decides where the event goes, whether it is literal or computed (targetexpr) and
    /// whether the send is immediate or delayed
    #[test]
    fn verif_replay_sendio_target_forms_reach_the_parent() {
        for attrs in [
            r##"target="#_parent""##,
            r##"targetexpr="'#_parent'""##,
            r##"target="#_parent" delay="100ms""##,
            r##"targetexpr="'#_parent'" delay="100ms""##,
            r##"targetexpr="'#_parent'" delayexpr="'100ms'""##,
        ] {
            assert_eq!(run(&routed_doc(attrs)), Ok(vec!["delivered".to_string()]), "child <send {}>", attrs);
        }
    }

    /// C15: a reply sent to _event.origin (immediately or delayed) reaches the session the event came from
    #[test]
    fn verif_replay_sendio_reply_to_origin() {
        for delay in ["", r#"delay="100ms""#] {
            let doc = format!(
                r###"<scxml xmlns="http://www.w3.org/2005/07/scxml" initial="s0" version="1.0" datamodel="rfsm-expression">
 <state id="s0">
  <onentry><send event="timeout" delay="5s"/></onentry>
  <invoke type="scxml" id="kid"><content><scxml xmlns="http://www.w3.org/2005/07/scxml" initial="c0" version="1.0" datamodel="rfsm-expression"><state id="c0"><onentry><send target="#_parent" event="child.question"/></onentry><transition event="answer" target="c1"/></state><state id="c1"><onentry><send target="#_parent" event="child.thanks"/></onentry></state></scxml></content></invoke>
  <transition event="child.question"><send event="answer" targetexpr="_event.origin" {}/></transition>
  <transition event="answer" target="misrouted"/>
  <transition event="child.thanks" target="delivered"/>
  <transition event="timeout" target="lost"/>
 </state>
 <final id="delivered"/><final id="misrouted"/><final id="lost"/>
</scxml>"###,
                delay
            );
            assert_eq!(run(&doc), Ok(vec!["delivered".to_string()]), "reply with <send {}>", delay);
        }
    }

    const TIMER_ORDER: &str = r###"<scxml xmlns="http://www.w3.org/2005/07/scxml" initial="s0" version="1.0" datamodel="rfsm-expression">
 <state id="s0">
  <onentry><send event="late" delay="600ms"/><send event="early" delay="200ms"/><send event="end" delay="1200ms"/><raise event="now"/></onentry>
  <transition event="now" target="s1"/>
  <transition event="*" target="delayed_before_internal"/>
 </state>
 <state id="s1">
  <transition event="early" target="s2"/>
  <transition event="*" target="wrongorder"/>
 </state>
 <state id="s2">
  <transition event="late" target="s3"/>
  <transition event="*" target="wrongorder2"/>
 </state>
 <state id="s3">
  <transition event="end" target="pass"/>
  <transition event="*" target="duplicate"/>
 </state>
 <final id="pass"/><final id="delayed_before_internal"/><final id="wrongorder"/><final id="wrongorder2"/><final id="duplicate"/>
</scxml>"###;

    /// C16 (bounded): delayed sends are delivered once each, in due-time order, and not before their delay has passed
    #[test]
    fn verif_replay_sendio_delayed_order_once_not_early() {
        let t0 = std::time::Instant::now();
        assert_eq!(run(TIMER_ORDER), Ok(vec!["pass".to_string()]));
        let ms = t0.elapsed().as_millis();
        assert!(ms >= 1200, "the session ended after {} ms although its last delayed event was due after 1200 ms", ms);
    }

    const TIMER_CANCEL: &str = r###"<scxml xmlns="http://www.w3.org/2005/07/scxml" initial="s0" version="1.0" datamodel="rfsm-expression">
 <state id="s0">
  <onentry>
   <send event="e.a" id="a" delay="300ms"/><send event="e.b" id="b" delay="300ms"/><send event="end" delay="900ms"/>
   <cancel sendid="a"/>
  </onentry>
  <transition event="e.b" target="s1"/>
  <transition event="e.a" target="notcancelled"/>
  <transition event="end" target="otherlost"/>
 </state>
 <state id="s1">
  <transition event="end" target="pass"/>
  <transition event="e.a" target="notcancelled"/>
 </state>
 <final id="pass"/><final id="notcancelled"/><final id="otherlost"/>
</scxml>"###;

    /// C16 (bounded): <cancel> with a send id prevents that delivery and no other
    #[test]
    fn verif_replay_sendio_cancel_only_that_send() {
        assert_eq!(run(TIMER_CANCEL), Ok(vec!["pass".to_string()]));
        let by_expr = TIMER_CANCEL.replace(r#"<cancel sendid="a"/>"#, r#"<cancel sendidexpr="'a'"/>"#);
        assert_eq!(run(&by_expr), Ok(vec!["pass".to_string()]));
        // the id generated for idlocation identifies the send just as well
        let generated = TIMER_CANCEL
            .replace(r#"<state id="s0">"#, r#"<datamodel><data id="loc"/></datamodel><state id="s0">"#)
            .replace(r#"<send event="e.a" id="a" delay="300ms"/>"#, r#"<send event="e.a" idlocation="loc" delay="300ms"/>"#)
            .replace(r#"<cancel sendid="a"/>"#, r#"<cancel sendidexpr="loc"/>"#);
        assert_eq!(run(&generated), Ok(vec!["pass".to_string()]));
    }

    const TIMER_DISCARD: &str = r###"<scxml xmlns="http://www.w3.org/2005/07/scxml" initial="s0" version="1.0" datamodel="rfsm-expression">
 <state id="s0">
  <invoke type="scxml" id="kid"><content><scxml xmlns="http://www.w3.org/2005/07/scxml" initial="c0" version="1.0" datamodel="rfsm-expression"><state id="c0"><onentry><send target="#_parent" event="child.late" delay="400ms"/></onentry><transition target="cf"/></state><final id="cf"/></scxml></content></invoke>
  <transition event="done.invoke" target="s1"/>
  <transition event="child.late" target="beforedone"/>
 </state>
 <state id="s1">
  <onentry><send event="end" delay="1s"/></onentry>
  <transition event="child.late" target="notdiscarded"/>
  <transition event="end" target="pass"/>
 </state>
 <final id="pass"/><final id="notdiscarded"/><final id="beforedone"/>
</scxml>"###;

    /// C16 (bounded): a session that terminates discards its undelivered delayed events
    #[test]
    fn verif_replay_sendio_terminated_session_discards_delayed() {
        assert_eq!(run(TIMER_DISCARD), Ok(vec!["pass".to_string()]));
    }

    fn delay_doc(send: &str) -> String {
        format!(
            r###"<scxml xmlns="http://www.w3.org/2005/07/scxml" initial="s0" version="1.0" datamodel="rfsm-expression">
 <state id="s0">
  <onentry>{}<raise event="after"/></onentry>
  <transition event="after" target="pass"/>
  <transition event="error.execution" target="pass"/>
 </state>
 <final id="pass"/>
</scxml>"###,
            send
        )
    }

    /// C12/C16: no delay value, however large or odd, makes the session thread panic or wedge: the send is either
    /// scheduled or reported as error.execution and the session carries on
    #[test]
    fn verif_replay_sendio_extreme_delays() {
        for c in [
            r#"<send event="late" delay="1e18ms"/>"#,
            r#"<send event="late" delay="100000000000d"/>"#,
            r#"<send event="late" delayexpr="'1e18ms'"/>"#,
            r#"<send event="late" delayexpr="'9223372036854775807ms'"/>"#,
            r#"<send event="late" delayexpr="'1e300d'"/>"#,
            r#"<send event="late" delayexpr="'100000000d'"/>"#,
            r#"<send event="late" delayexpr="'-5s'"/>"#,
            r#"<send event="late" delayexpr="'abc'"/>"#,
            r#"<send event="late" delayexpr="''"/>"#,
        ] {
            assert_eq!(run(&delay_doc(c)), Ok(vec!["pass".to_string()]), "content {}", c);
        }
    }

    /// C16 (bounded): a delay text denotes the same number of milliseconds in every unit the CSS2 format allows
    /// (the due time handed to the timer comes from this function)
    #[test]
    fn verif_replay_sendio_delay_units() {
        use crate::executable_content::parse_duration_to_milliseconds as p;
        for (text, ms) in [
            ("0ms", 0i64), ("1ms", 1), ("150ms", 150), ("1s", 1_000), ("1.5s", 1_500), ("0.25s", 250), ("2S", 2_000),
            ("1m", 60_000), ("0.5m", 30_000), ("90m", 5_400_000), ("2M", 120_000),
            ("1h", 3_600_000), ("1.5h", 5_400_000), ("0.0001h", 360), ("24H", 86_400_000), ("2H", 7_200_000),
            ("1d", 86_400_000), ("0.5d", 43_200_000), ("2D", 172_800_000), ("3MS", 3),
        ] {
            assert_eq!(p(text), ms, "delay `{}` in milliseconds", text);
        }
        assert_eq!(p("1h"), p("60m"), "1h and 60m");
        assert_eq!(p("1m"), p("60s"), "1m and 60s");
        assert_eq!(p("1d"), p("24h"), "1d and 24h");
        assert_eq!(p("1s"), p("1000ms"), "1s and 1000ms");
        assert_eq!(p(""), 0, "no delay");
        assert!(p("1x") < 0 && p("abc") < 0, "unknown unit / no number is illegal");
    }
}
