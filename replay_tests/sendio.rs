
#[cfg(test)]
mod verif_replay_sendio {
    use super::*;
    use crate::actions::ActionWrapper;
    use crate::fsm;
    use crate::fsm::FinishMode;
    use crate::scxml_reader;
    use std::sync::mpsc::channel;
    use std::time::Duration;

    /// runs the document in its own session; returns Err(..) if the session thread panicked or did not
    /// terminate within 10 s, else the final configuration
    fn run(doc: &str) -> Result<Vec<String>, String> {
        let fsm = scxml_reader::parse_from_xml(doc.to_string()).unwrap();
        let executor = FsmExecutor::new_without_io_processor();
        let session = fsm::start_fsm_with_data_and_finish_mode(
            fsm,
            ActionWrapper::new(),
            Box::new(executor),
            &Vec::new(),
            FinishMode::KEEP_CONFIGURATION,
        );
        let gd = session.global_data.clone();
        let th = session.thread.unwrap();
        let (tx, rx) = channel();
        std::thread::spawn(move || {
            let r = th.join();
            let _ = tx.send(r.is_ok());
        });
        match rx.recv_timeout(Duration::from_secs(10)) {
            Ok(true) => match gd.lock() {
                Ok(g) => Ok(g.final_configuration.clone().unwrap_or_default()),
                Err(_) => Err("session data poisoned (a thread panicked while holding the lock)".to_string()),
            },
            Ok(false) => Err("session thread panicked".to_string()),
            Err(_) => Err("session did not terminate (wedged)".to_string()),
        }
    }

    fn doc(target_attr: &str) -> String {
        format!(
            r###"<scxml xmlns="http://www.w3.org/2005/07/scxml" initial="s0" version="1.0" datamodel="rfsm-expression">
 <state id="s0">
  <onentry><send {} event="hello"/><send event="timeout" delay="2s"/></onentry>
  <transition event="error.communication" target="pass"/>
  <transition event="error.execution" target="exec"/>
  <transition event="hello" target="got"/>
  <transition event="timeout" target="fail"/>
 </state>
 <final id="pass"/><final id="exec"/><final id="got"/><final id="fail"/>
</scxml>"###,
            target_attr
        )
    }

    /// C12/C15: no target -> own external queue
    #[test]
    fn verif_replay_sendio_no_target() {
        assert_eq!(run(&doc("")), Ok(vec!["got".to_string()]));
    }

    /// C12: '#_parent' in a session without parent: error.communication, never a panic
    #[test]
    fn verif_replay_sendio_parent_without_parent() {
        assert_eq!(run(&doc(r##"target="#_parent""##)), Ok(vec!["pass".to_string()]));
    }

    /// C12: '#_scxml_<id>' of a session that does not exist: error.communication, never a panic
    #[test]
    fn verif_replay_sendio_unknown_session() {
        assert_eq!(run(&doc(r##"target="#_scxml_424242""##)), Ok(vec!["pass".to_string()]));
    }

    /// C12: '#_scxml_<garbage>': error.communication
    #[test]
    fn verif_replay_sendio_malformed_session() {
        assert_eq!(run(&doc(r##"target="#_scxml_abc""##)), Ok(vec!["pass".to_string()]));
    }

    /// C12: '#_<unknown invoke id>': error.communication
    #[test]
    fn verif_replay_sendio_unknown_invoke() {
        assert_eq!(run(&doc(r##"target="#_nochild""##)), Ok(vec!["pass".to_string()]));
    }

    /// C12: unsupported target form: error.execution
    #[test]
    fn verif_replay_sendio_bad_target() {
        assert_eq!(run(&doc(r##"target="somewhere""##)), Ok(vec!["exec".to_string()]));
    }

    /// C15: '#_internal' -> own internal queue
    #[test]
    fn verif_replay_sendio_internal() {
        assert_eq!(run(&doc(r##"target="#_internal""##)), Ok(vec!["got".to_string()]));
    }
}
