
#[cfg(test)]
mod verif_replay_fsmio {
    use super::*;
    use crate::scxml_reader;
    use crate::serializer::default_protocol_reader::DefaultProtocolReader;
    use crate::serializer::default_protocol_writer::DefaultProtocolWriter;
    use crate::serializer::fsm_writer::FsmWriter;

    const DOC: &str = r###"<?xml version="1.0" encoding="UTF-8"?>
<scxml xmlns="http://www.w3.org/2005/07/scxml" initial="s0" version="1.0" datamodel="rfsm-expression" binding="late" name="Doc">
 <datamodel><data id="x" expr="1"/><data id="l" expr="[1,2,3]"/></datamodel>
 <state id="s0">
  <onentry><log label="l" expr="'enter'"/><assign location="x" expr="x+1"/></onentry>
  <onexit><raise event="left"/></onexit>
  <transition event="go go.*" cond="x == 2" target="p" type="internal"><log expr="'t'"/></transition>
  <transition event="*" target="end"/>
  <state id="s01"><transition event="h" target="hist"/></state>
  <history id="hist" type="deep"><transition target="s01"/></history>
 </state>
 <parallel id="p">
  <state id="r1"><initial><transition target="r1a"/></initial><invoke typeexpr="'scxml'" idlocation="x" namelist="x" srcexpr="'child.scxml'"><param name="p" expr="1"/><param name="q" location="x"/></invoke><state id="r1a"><transition event="e1" target="r1f"/></state><final id="r1f"><donedata><param name="a" expr="x"/></donedata></final></state>
  <state id="r2">
   <onentry>
    <if cond="x == 1"><raise event="one"/><elseif cond="x == 2"/><raise event="two"/><else/><raise event="other"/></if>
    <foreach array="l" item="it" index="ix"><log expr="it"/></foreach>
    <send event="tick" delay="10ms" id="sid"><param name="p1" expr="x"/></send>
    <cancel sendid="sid"/>
    <send idlocation="x" targetexpr="'#_internal'" typeexpr="'scxml'" eventexpr="'ev' + x" delayexpr="'1s'" namelist="x l"/>
    <send event="withcontent" target="#_internal"><content>hello world</content></send>
    <script>x = 1</script>
   </onentry>
   <invoke type="scxml" id="inv1" autoforward="true"><content><scxml xmlns="http://www.w3.org/2005/07/scxml" initial="c"><final id="c"/></scxml></content><finalize><log expr="'fin'"/></finalize></invoke>
   <transition event="done.state.p" target="end"/>
  </state>
 </parallel>
 <final id="end"/>
</scxml>"###;

    fn image() -> (Box<Fsm>, Vec<u8>) {
        let fsm = scxml_reader::parse_from_xml(DOC.to_string()).unwrap();
        let mut writer: FsmWriter<Vec<u8>> = FsmWriter::new(Box::new(DefaultProtocolWriter::new(Vec::new())));
        writer.write(&fsm);
        writer.close();
        let buffer = writer.get_writer().clone();
        (fsm, buffer)
    }

    /// C05: the complete image reads back to a structurally identical model
    #[test]
    fn verif_replay_fsmio_roundtrip() {
        let (fsm, img) = image();
        let mut r = FsmReader::new(Box::new(DefaultProtocolReader::new(&img[..])));
        let back = r.read().expect("complete image must be readable");
        assert_eq!(fsm.name, back.name);
        assert_eq!(fsm.datamodel, back.datamodel);
        assert_eq!(fsm.binding, back.binding);
        assert_eq!(fsm.pseudo_root, back.pseudo_root);
        assert_eq!(fsm.states.len(), back.states.len());
        for (a, b) in fsm.states.iter().zip(back.states.iter()) {
            assert_eq!((a.id, a.doc_id, &a.name, a.initial, &a.states, a.is_parallel, a.is_final, a.history_type, &a.onentry, &a.onexit, a.parent),
                       (b.id, b.doc_id, &b.name, b.initial, &b.states, b.is_parallel, b.is_final, b.history_type, &b.onentry, &b.onexit, b.parent), "state {}", a.name);
            assert_eq!(a.transitions.size(), b.transitions.size());
            assert_eq!(a.invoke.size(), b.invoke.size());
            assert_eq!(a.history.size(), b.history.size());
            assert_eq!(a.donedata.is_some(), b.donedata.is_some());
            assert_eq!(a.data.len(), b.data.len());
        }
        assert_eq!(fsm.transitions.len(), back.transitions.len());
        for (id, a) in &fsm.transitions {
            let b = back.transitions.get(id).expect("transition id");
            assert_eq!((a.doc_id, &a.events, a.wildcard, a.source, &a.target, &a.transition_type, a.content), (b.doc_id, &b.events, b.wildcard, b.source, &b.target, &b.transition_type, b.content));
            assert_eq!(a.cond, b.cond);
        }
        assert_eq!(fsm.executableContent.len(), back.executableContent.len());
        for (id, a) in &fsm.executableContent {
            let b = back.executableContent.get(id).expect("content id");
            assert_eq!(a.len(), b.len());
            for (x, y) in a.iter().zip(b.iter()) {
                assert_eq!(dump_ec(x.as_ref()), dump_ec(y.as_ref()), "content region {}", id);
            }
        }
        // the rest of the states: invoke, data, donedata (canonical dump of every persisted field)
        for (a, b) in fsm.states.iter().zip(back.states.iter()) {
            assert_eq!(dump_state_rest(a), dump_state_rest(b), "state {}", a.name);
        }
    }

    fn dump_params(p: &Option<Vec<crate::fsm::Parameter>>) -> String {
        match p {
            None => "[]".to_string(),
            Some(v) => format!("{:?}", v.iter().map(|x| (x.name.clone(), x.expr.clone(), x.location.clone())).collect::<Vec<_>>()),
        }
    }

    fn dump_cc(c: &Option<crate::fsm::CommonContent>) -> String {
        match c {
            None => "-".to_string(),
            Some(c) => format!("({:?},{:?})", c.content, c.content_expr),
        }
    }

    /// every persisted field of an executable-content element
    fn dump_ec(ec: &dyn ExecutableContent) -> String {
        use crate::executable_content::*;
        let any = ec.as_any();
        if let Some(x) = any.downcast_ref::<If>() {
            format!("If({},{},{})", x.condition, x.content, x.else_content)
        } else if let Some(x) = any.downcast_ref::<Expression>() {
            format!("Expression({})", x.content)
        } else if let Some(x) = any.downcast_ref::<Script>() {
            format!("Script({:?})", x.content)
        } else if let Some(x) = any.downcast_ref::<Log>() {
            format!("Log({:?},{})", x.label, x.expression)
        } else if let Some(x) = any.downcast_ref::<ForEach>() {
            format!("ForEach({},{:?},{:?},{})", x.array, x.item, x.index, x.content)
        } else if let Some(x) = any.downcast_ref::<SendParameters>() {
            format!(
                "Send({:?},{:?},{:?},{},{},{},{},{},{},{},{},{:?},{},{})",
                x.name_location,
                x.name,
                if x.name_location.is_empty() { String::new() } else { x.parent_state_name.clone() },
                x.event,
                x.event_expr,
                x.target,
                x.target_expr,
                x.type_value,
                x.type_expr,
                x.delay_ms,
                x.delay_expr,
                x.name_list,
                dump_params(&x.params),
                dump_cc(&x.content)
            )
        } else if let Some(x) = any.downcast_ref::<Raise>() {
            format!("Raise({:?})", x.event)
        } else if let Some(x) = any.downcast_ref::<Cancel>() {
            format!("Cancel({:?},{})", x.send_id, x.send_id_expr)
        } else if let Some(x) = any.downcast_ref::<Assign>() {
            format!("Assign({},{})", x.location, x.expr)
        } else {
            panic!("unknown executable content type {}", ec.get_type())
        }
    }

    fn dump_state_rest(s: &crate::fsm::State) -> String {
        let mut out = String::new();
        for inv in s.invoke.iterator() {
            out.push_str(&format!(
                "Invoke({:?},{:?},{},{},{},{},{},{:?},{},{},{},{},{:?});",
                inv.invoke_id,
                if inv.invoke_id.is_empty() { inv.parent_state_name.clone() } else { String::new() },
                inv.doc_id,
                inv.src_expr,
                inv.src,
                inv.type_expr,
                inv.type_name,
                inv.external_id_location,
                inv.autoforward,
                inv.finalize,
                dump_cc(&inv.content),
                dump_params(&inv.params),
                inv.name_list
            ));
        }
        let mut keys: Vec<&String> = s.data.keys().collect();
        keys.sort();
        for k in keys {
            out.push_str(&format!("Data({:?}={});", k, s.data.get(k).unwrap()));
        }
        if let Some(dd) = &s.donedata {
            out.push_str(&format!("DoneData({},{});", dump_cc(&dd.content), dump_params(&dd.params)));
        }
        let h: Vec<&u32> = s.history.iterator().collect();
        let t: Vec<&u32> = s.transitions.iterator().collect();
        out.push_str(&format!("history={:?} transitions={:?}", h, t));
        out
    }

    /// C18: an image cut off at any byte boundary is reported as an error, never accepted, never a panic
    #[test]
    fn verif_replay_fsmio_truncated() {
        let (_fsm, img) = image();
        for cut in 0..img.len() {
            let part = img[..cut].to_vec();
            let r = std::panic::catch_unwind(move || {
                let mut r = FsmReader::new(Box::new(DefaultProtocolReader::new(&part[..])));
                r.read().is_ok()
            });
            match r {
                Ok(accepted) => assert!(!accepted, "image of {} bytes cut at {} was accepted as a complete model", img.len(), cut),
                Err(_) => panic!("reading an image of {} bytes cut at {} panicked", img.len(), cut),
            }
        }
    }

    /// C05: a <send idlocation=..> generates its id as "<state name>.<n>" (executable_content.rs, SendParameters::execute);
    /// the state name must survive the round trip, else the reloaded machine stores a different id
    #[test]
    fn verif_replay_fsmio_send_idlocation() {
        let doc = r###"<scxml xmlns="http://www.w3.org/2005/07/scxml" initial="s0" version="1.0" datamodel="rfsm-expression">
 <datamodel><data id="x"/></datamodel>
 <state id="s0"><onentry><send idlocation="x" event="e"/></onentry></state>
</scxml>"###;
        let fsm = scxml_reader::parse_from_xml(doc.to_string()).unwrap();
        let mut writer: FsmWriter<Vec<u8>> = FsmWriter::new(Box::new(DefaultProtocolWriter::new(Vec::new())));
        writer.write(&fsm);
        writer.close();
        let img = writer.get_writer().clone();
        let mut r = FsmReader::new(Box::new(DefaultProtocolReader::new(&img[..])));
        let back = r.read().expect("complete image must be readable");
        fn send_of(f: &Fsm) -> (String, String) {
            for (_id, v) in &f.executableContent {
                for ec in v {
                    if let Some(s) = ec.as_any().downcast_ref::<crate::executable_content::SendParameters>() {
                        return (s.name_location.clone(), s.parent_state_name.clone());
                    }
                }
            }
            panic!("no send");
        }
        let a = send_of(&fsm);
        let b = send_of(&back);
        assert_eq!(a.0, "x");
        assert_eq!(a, b, "generated send id prefix (state name) lost in the round trip");
    }
}
