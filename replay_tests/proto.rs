#[cfg(test)]
mod verif_replay_proto {
    use super::*;
    use crate::serializer::default_protocol_writer::DefaultProtocolWriter;
    use crate::serializer::protocol_writer::ProtocolWriter;

    /// sink that accepts at most `chunk` bytes per write call (a legal std::io::Write)
    struct Short { data: Vec<u8>, chunk: usize }
    impl std::io::Write for Short {
        fn write(&mut self, buf: &[u8]) -> std::io::Result<usize> {
            let n = buf.len().min(self.chunk);
            self.data.extend_from_slice(&buf[..n]);
            Ok(n)
        }
        fn flush(&mut self) -> std::io::Result<()> { Ok(()) }
    }

    #[test]
    fn verif_replay_short_write() {
        let mut w = DefaultProtocolWriter::new(Short { data: Vec::new(), chunk: 3 });
        w.write_str("hello world");
        let img = w.get_writer().data.clone();
        let mut full = DefaultProtocolWriter::new(Vec::new());
        full.write_str("hello world");
        assert!(w.has_error() || &img == full.get_writer(), "short sink: image {:?} incomplete and no error flagged", img);
    }

    #[test]
    fn verif_replay_long_string() {
        let s = "x".repeat(5000);
        let mut w = DefaultProtocolWriter::new(Vec::new());
        w.write_str(&s);
        let buf = w.get_writer().clone();
        let mut r = DefaultProtocolReader::new(&buf[..]);
        let x = r.read_string();
        assert!(w.has_error() || x == s, "5000-byte string read back as {} bytes, no error flagged", x.len());
    }
    #[test]
    fn verif_replay_long_string_char_boundary() {
        // 4096 + 1 bytes with a 2-byte char straddling offset (len & 0xFFF)
        let mut s = String::from("é");
        s.push_str(&"x".repeat(4095));
        let mut w = DefaultProtocolWriter::new(Vec::new());
        w.write_str(&s);
        assert!(w.has_error() || w.get_writer().len() > 4096);
    }

    fn boundary_values() -> Vec<u64> {
        let mut v = vec![0u64, 1, 7, 8, 9, u64::MAX, u64::MAX - 1, 0x1234_5678_9abc_def0, 0x8000_0000_0000_0000];
        for k in 0..9u32 {
            let b = 4 + 8 * k;
            if b < 64 {
                let p = 1u64 << b;
                v.extend_from_slice(&[p - 1, p, p + 1, p | 0x5, (p << 1).wrapping_sub(1), p + (p >> 1)]);
            }
        }
        for s in 0..64u32 {
            v.push(1u64 << s);
            v.push((1u64 << s).wrapping_sub(1));
            v.push(0xA5A5_A5A5_A5A5_A5A5u64 >> s);
        }
        v
    }

    #[test]
    fn verif_replay_uint_roundtrip() {
        for v in boundary_values() {
            let mut w = DefaultProtocolWriter::new(Vec::new());
            w.write_uint(v);
            w.write_uint(0x77); // something follows
            let buf = w.get_writer().clone();
            let mut r = DefaultProtocolReader::new(&buf[..]);
            let x = r.read_uint();
            let y = r.read_uint();
            assert!(!w.has_error() && !r.has_error() && x == v && y == 0x77,
                "write_uint({:#x}) -> bytes {:02x?} -> read_uint {:#x}, next {:#x}, reader error {}", v, buf, x, y, r.has_error());
        }
    }

    #[test]
    fn verif_replay_uint_cut_off() {
        for v in boundary_values() {
            let mut w = DefaultProtocolWriter::new(Vec::new());
            w.write_uint(v);
            let buf = w.get_writer().clone();
            for cut in 0..buf.len() {
                let mut r = DefaultProtocolReader::new(&buf[..cut]);
                let x = r.read_uint();
                assert!(r.has_error() && x == 0, "image of {:#x} cut at {} of {} read as {:#x} without error", v, cut, buf.len(), x);
            }
        }
    }

    #[test]
    fn verif_replay_str_roundtrip() {
        let mut samples: Vec<String> = Vec::new();
        for n in [0usize, 1, 2, 14, 15, 16, 17, 31, 255, 256, 257, 1000, 4094, 4095] {
            samples.push("a".repeat(n));
            if n >= 2 { samples.push(format!("{}é", "b".repeat(n - 2))); }
            if n >= 4 { samples.push(format!("😀{}", "c".repeat(n - 4))); }
        }
        for s in samples {
            let mut w = DefaultProtocolWriter::new(Vec::new());
            w.write_str(&s);
            w.write_option_string(&Some(s.clone()));
            w.write_option_string(&None);
            w.write_boolean(true);
            w.write_boolean(false);
            let buf = w.get_writer().clone();
            let mut r = DefaultProtocolReader::new(&buf[..]);
            let a = r.read_string();
            let b = r.read_option_string();
            let c = r.read_option_string();
            let d = r.read_boolean();
            let e = r.read_boolean();
            assert!(!w.has_error() && !r.has_error() && a == s && b == Some(s.clone()) && c.is_none() && d && !e,
                "string of {} bytes did not round trip (reader error {})", s.len(), r.has_error());
            for cut in 0..(1 + s.len()).min(buf.len()) {
                let mut r = DefaultProtocolReader::new(&buf[..cut]);
                let a = r.read_string();
                assert!(r.has_error() && a.is_empty(), "string image of {} bytes cut at {} read without error", s.len(), cut);
            }
        }
    }

    /// sink that fails at the n-th write call
    struct FailAt { data: Vec<u8>, calls: usize, fail_at: usize }
    impl std::io::Write for FailAt {
        fn write(&mut self, buf: &[u8]) -> std::io::Result<usize> {
            self.calls += 1;
            if self.calls == self.fail_at {
                return Err(std::io::Error::new(std::io::ErrorKind::Other, "injected"));
            }
            self.data.extend_from_slice(buf);
            Ok(buf.len())
        }
        fn flush(&mut self) -> std::io::Result<()> { Ok(()) }
    }

    #[test]
    fn verif_replay_failing_write_is_visible() {
        for fail_at in 1..12 {
            let mut w = DefaultProtocolWriter::new(FailAt { data: Vec::new(), calls: 0, fail_at });
            w.write_uint(0x12345);
            w.write_str("hello world, this is longer than 16");
            w.write_boolean(true);
            w.write_option_string(&None);
            let failed = w.get_writer().calls >= fail_at;
            assert!(!failed || w.has_error(), "write call {} failed but has_error() is false", fail_at);
        }
    }

    /// C05 (bounded): every scalar data value is read back as written (value codec: write_data / read_data), over the
    /// boundary values of the integer classes for source ids and numbers
    #[test]
    fn verif_replay_proto_data_value_roundtrip() {
        use crate::datamodel::{Data, SourceCode};
        use crate::serializer::protocol_reader::ProtocolReader;
        let mut values: Vec<Data> = vec![
            Data::Null(), Data::None(), Data::Boolean(true), Data::Boolean(false),
            Data::String(String::new()), Data::String("héllo wörld".to_string()), Data::String("x".repeat(300)),
            Data::Error("some error".to_string()),
            Data::Double(0.0), Data::Double(-1.5), Data::Double(1e300), Data::Double(1.0 / 3.0),
        ];
        for v in [0i64, 1, -1, 15, 16, 255, 256, 4095, 4096, i64::MAX, i64::MIN, 1 << 40] {
            values.push(Data::Integer(v));
        }
        for id in [0usize, 1, 15, 16, 255, 256, 257, 4095, 4096, 65535, 65536, 1 << 20, (1 << 28) + 3, u32::MAX as usize] {
            values.push(Data::Source(SourceCode::new("flag == 1", id)));
        }
        for v in values.iter() {
            let mut w = DefaultProtocolWriter::new(Vec::new());
            w.write_data(v);
            w.write_u8(7); // a following token must still be found where it was written
            assert!(!w.has_error(), "writing {:?} flagged an error", v);
            let buf = w.get_writer().clone();
            let mut r = DefaultProtocolReader::new(&buf[..]);
            let back = r.read_data();
            let next = r.read_u8();
            assert!(!r.has_error(), "reading {:?} back flagged an error", v);
            let same = match (v, &back) {
                (Data::Source(a), Data::Source(b)) => a.source == b.source && a.source_id == b.source_id,
                (Data::Null(), Data::Null()) | (Data::None(), Data::None()) => true,
                (Data::Double(a), Data::Double(b)) => a == b,
                (Data::Integer(a), Data::Integer(b)) => a == b,
                (Data::String(a), Data::String(b)) | (Data::Error(a), Data::Error(b)) => a == b,
                (Data::Boolean(a), Data::Boolean(b)) => a == b,
                _ => false,
            };
            assert!(same, "data value {:?} was read back as {:?}", v, back);
            assert_eq!(next, 7, "the token after {:?} was not found", v);
        }
    }
}
