#[cfg(test)]
mod verif_replay_proto {
    use super::*;
    use crate::serializer::default_protocol_writer::DefaultProtocolWriter;
    use crate::serializer::protocol_writer::ProtocolWriter;

    /// sink that accepts at most `chunk` bytes per write call (a legal std::io::Write)
    struct Short { data: Vec<u8>, chunk: usize }
    impl std::io::Write for Short {
        fn write(&mut self, buf: &[u8]) -> std::io::Result<usize> {
            let n = buf.len().min(self.chunk);
            self.data.extend_from_slice(&buf[..n]);
            Ok(n)
        }
        fn flush(&mut self) -> std::io::Result<()> { Ok(()) }
    }

    #[test]
    fn verif_replay_short_write() {
        let mut w = DefaultProtocolWriter::new(Short { data: Vec::new(), chunk: 3 });
        w.write_str("hello world");
        let img = w.get_writer().data.clone();
        let mut full = DefaultProtocolWriter::new(Vec::new());
        full.write_str("hello world");
        assert!(w.has_error() || &img == full.get_writer(), "short sink: image {:?} incomplete and no error flagged", img);
    }

    #[test]
    fn verif_replay_long_string() {
        let s = "x".repeat(5000);
        let mut w = DefaultProtocolWriter::new(Vec::new());
        w.write_str(&s);
        let buf = w.get_writer().clone();
        let mut r = DefaultProtocolReader::new(&buf[..]);
        let x = r.read_string();
        assert!(w.has_error() || x == s, "5000-byte string read back as {} bytes, no error flagged", x.len());
    }
    #[test]
    fn verif_replay_long_string_char_boundary() {
        // 4096 + 1 bytes with a 2-byte char straddling offset (len & 0xFFF)
        let mut s = String::from("é");
        s.push_str(&"x".repeat(4095));
        let mut w = DefaultProtocolWriter::new(Vec::new());
        w.write_str(&s);
        assert!(w.has_error() || w.get_writer().len() > 4096);
    }
}
