
#[cfg(test)]
mod verif_replay_expr_dm {
    use super::*;
    use crate::datamodel::{create_data_arc, create_global_data_arc, Data, Datamodel, SourceCode};

    fn dm_with(name: &str, v: Data) -> RFsmExpressionDatamodel {
        let gd = create_global_data_arc();
        RFsmExpressionDatamodel::add_internal_functions_to_wrapper(&mut gd.lock().unwrap().actions);
        gd.lock().unwrap().data.map.insert(name.to_string(), create_data_arc(v));
        RFsmExpressionDatamodel::new(gd)
    }

    /// C11/C12: a guard over any Integer value evaluates to a boolean, it never panics
    #[test]
    fn verif_replay_condition_on_extreme_integers() {
        for v in [0i64, 1, -1, i64::MAX, i64::MIN, i64::MIN + 1] {
            let r = std::panic::catch_unwind(|| {
                let mut dm = dm_with("v", Data::Integer(v));
                dm.execute_condition(&Data::Source(SourceCode::new("v", 0)))
            });
            match r {
                Ok(Ok(b)) => assert_eq!(b, v != 0, "guard `v` with v = {} evaluated to {}", v, b),
                Ok(Err(e)) => panic!("guard `v` with v = {} returned error {}", v, e),
                Err(_) => panic!("guard `v` with v = {} panicked", v),
            }
        }
    }
}
