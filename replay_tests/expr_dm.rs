
#[cfg(test)]
mod verif_replay_expr_dm {
    use super::*;
    use crate::datamodel::{create_data_arc, create_global_data_arc, Data, Datamodel, SourceCode};

    fn dm_with(name: &str, v: Data) -> RFsmExpressionDatamodel {
        let gd = create_global_data_arc();
        RFsmExpressionDatamodel::add_internal_functions_to_wrapper(&mut gd.lock().unwrap().actions);
        gd.lock().unwrap().data.map.insert(name.to_string(), create_data_arc(v));
        RFsmExpressionDatamodel::new(gd)
    }

    /// C11/C12: a guard over any Integer value evaluates to a boolean, it never panics
    #[test]
    fn verif_replay_condition_on_extreme_integers() {
        for v in [0i64, 1, -1, i64::MAX, i64::MIN, i64::MIN + 1] {
            let r = std::panic::catch_unwind(|| {
                let mut dm = dm_with("v", Data::Integer(v));
                dm.execute_condition(&Data::Source(SourceCode::new("v", 0)))
            });
            match r {
                Ok(Ok(b)) => assert_eq!(b, v != 0, "guard `v` with v = {} evaluated to {}", v, b),
                Ok(Err(e)) => panic!("guard `v` with v = {} returned error {}", v, e),
                Err(_) => panic!("guard `v` with v = {} panicked", v),
            }
        }
    }

    fn eval(src: &str) -> Result<String, String> {
        use crate::expression_engine::parser::ExpressionParser;
        let gd = create_global_data_arc();
        RFsmExpressionDatamodel::add_internal_functions_to_wrapper(&mut gd.lock().unwrap().actions);
        let mut g = gd.lock().unwrap();
        g.data.map.insert("a".to_string(), create_data_arc(Data::Integer(0)));
        g.data.map.insert("b".to_string(), create_data_arc(Data::Integer(0)));
        match ExpressionParser::execute(src.to_string(), &mut g) {
            Ok(v) => Ok(v.lock().unwrap().to_string()),
            Err(e) => Err(e),
        }
    }

    /// C10: equal-precedence binary operators group left to right
    #[test]
    fn verif_replay_left_to_right_grouping() {
        for (src, want) in [
            ("10 - 3 - 2", "5"),
            ("2 - 1 + 1", "2"),
            ("100 / 10 / 5", "2"),
            ("8 / 4 * 2", "4"),
            ("7 % 4 % 2", "1"),
            ("10 - 3 - 2 - 1", "4"),
            ("1 + 2 * 3 - 4", "3"),
            ("(10 - 3) - 2", "5"),
            ("10 - (3 - 2)", "9"),
        ] {
            assert_eq!(eval(src), Ok(want.to_string()), "value of `{}`", src);
        }
    }

    /// C10: prefix '!' and the assignment operators still nest to the right
    #[test]
    fn verif_replay_right_nesting_operators() {
        assert_eq!(eval("!!true"), Ok("true".to_string()));
        assert_eq!(eval("!!!true"), Ok("false".to_string()));
        assert_eq!(eval("a = b = 3"), Ok("3".to_string()));
    }

    /// evaluates `src` on its own thread; Err("timeout") if it does not come back within 5 s (self-deadlock)
    fn eval_with_timeout(src: &'static str) -> Result<Result<String, String>, String> {
        let (tx, rx) = std::sync::mpsc::channel();
        let _worker = std::thread::Builder::new().name("verif_replay_aliased_operands_terminate".to_string()).spawn(move || {
            use crate::expression_engine::parser::ExpressionParser;
            let gd = create_global_data_arc();
            RFsmExpressionDatamodel::add_internal_functions_to_wrapper(&mut gd.lock().unwrap().actions);
            let mut g = gd.lock().unwrap();
            g.data.map.insert("a".to_string(), create_data_arc(Data::Integer(7)));
            g.data.map.insert("v".to_string(), create_data_arc(Data::Array(vec![create_data_arc(Data::Integer(1))])));
            g.data.map.insert("m".to_string(), create_data_arc(Data::Map(std::collections::HashMap::new())));
            let r = match ExpressionParser::execute(src.to_string(), &mut g) {
                Ok(v) => Ok(v.lock().unwrap().to_string()),
                Err(e) => Err(e),
            };
            let _ = tx.send(r);
        });
        rx.recv_timeout(std::time::Duration::from_secs(5)).map_err(|_| "timeout".to_string())
    }

    /// C11: expressions whose operands alias the same stored value terminate (no self-deadlock on the value's lock)
    #[test]
    fn verif_replay_aliased_operands_terminate() {
        for src in [
            "a = a", "a ?= a", "v[v]", "m[m]", "a + a", "a == a", "v + v", "v == v",
            // aliasing one level down: the literal [v] holds the very value stored under v
            "w ?= [v]; w == v", "w ?= [v]; v == w", "w ?= [v]; w + v", "w ?= {'k':v}; w == v", "w ?= [v]; w[0] == v", "w ?= [v,v]; w[0] == w[1]",
        ] {
            let r = eval_with_timeout(src);
            assert!(r.is_ok(), "evaluation of `{}` did not terminate (blocked on its own data lock)", src);
        }
        assert_eq!(eval_with_timeout("a = a"), Ok(Ok("7".to_string())));
    }

    /// C11: indexing at, beyond and below the bounds of an array (and with odd index types) returns an error, never a panic,
    /// and leaves the array usable afterwards
    #[test]
    fn verif_replay_index_bounds() {
        for src in ["[][0]", "[1,2,4][3]", "[1,2,4][4]", "[1,2,4][0-1]", "[1,2,4][3.0]", "[1,2,4]['x']", "[1,2,4][[1]]", "v[1]", "v[9223372036854775807]"] {
            let r = std::panic::catch_unwind(|| eval_with_timeout(src));
            match r {
                Ok(Ok(v)) => assert!(v.is_err(), "`{}` evaluated to {:?} instead of an error", src, v),
                Ok(Err(e)) => panic!("`{}`: {}", src, e),
                Err(_) => panic!("`{}` panicked", src),
            }
        }
        assert_eq!(eval_with_timeout("[1,2,4][2]"), Ok(Ok("4".to_string())));
        assert_eq!(eval_with_timeout("v[0]"), Ok(Ok("1".to_string())));
    }

    /// C10: the value does not depend on incidental whitespace or redundant parentheses
    #[test]
    fn verif_replay_whitespace_and_parentheses() {
        for (a, b) in [
            ("10 - 3 - 2", "10-3-2"),
            ("10 - 3", "10-3"),
            ("1 + 2 * 3", "1+2*3"),
            ("1 + 2 * 3", " 1 +  2\t* 3 "),
            ("1 + 2 * 3", "1 + (2 * 3)"),
            ("1 + 2 * 3", "((1) + ((2) * (3)))"),
            ("2 * -3", "2*-3"),
            ("4 - -3", "4--3"),
            ("1 < 2", "1<2"),
            ("a = 5", "a=5"),
        ] {
            assert_eq!(eval(a), eval(b), "`{}` and `{}` must have the same value", a, b);
            assert!(eval(a).is_ok(), "`{}` must evaluate: {:?}", a, eval(a));
        }
    }

    /// reference grouping: binary operators with their documented priority class (smaller binds tighter), all of them
    /// grouping left to right; returns the fully parenthesised text of `operands[0] ops[0] operands[1] ...`
    fn reference_grouping(operands: &[&str], ops: &[(&str, u8)]) -> String {
        // precedence climbing over the flat list
        fn climb(operands: &[&str], ops: &[(&str, u8)], pos: &mut usize, max_prio: u8) -> String {
            let mut left = operands[*pos].to_string();
            while *pos < ops.len() && ops[*pos].1 <= max_prio {
                let (sym, prio) = ops[*pos];
                *pos += 1;
                // right operand: everything that binds strictly tighter than this operator
                let right = climb(operands, ops, pos, prio - 1);
                left = format!("({} {} {})", left, sym, right);
            }
            left
        }
        let mut pos = 0usize;
        climb(operands, ops, &mut pos, u8::MAX)
    }

    /// C10 (bounded-exhaustive): every sequence of one, two or three binary operators, over several operand tuples,
    /// has the value of its fully parenthesised form under the documented precedence
    /// (`* / : % &` before `+ - |` before `< <= > >=` before `== !=`), equal precedence grouping left to right
    #[test]
    fn verif_replay_precedence_exhaustive() {
        let ops: [(&str, u8); 14] = [
            ("*", 5), ("/", 5), (":", 5), ("%", 5), ("&", 5),
            ("+", 6), ("-", 6), ("|", 6),
            ("<", 9), ("<=", 9), (">", 9), (">=", 9),
            ("==", 10), ("!=", 10),
        ];
        let tuples: [[&str; 5]; 5] = [
            ["7", "4", "2", "3", "5"],
            ["1", "8", "5", "2", "3"],
            ["9", "2", "2", "1", "4"],
            ["true", "false", "true", "false", "true"],
            ["1.5", "2", "0.5", "4", "3"],
        ];
        let mut checked = 0usize;
        let mut distinguishing = 0usize;
        // thorough tier: sequences of up to four operators
        let max_ops = if std::env::var("VERIF_THOROUGH").is_ok() { 4usize } else { 3usize };
        for n in 1..=max_ops {
            let mut idx = vec![0usize; n];
            loop {
                let seq: Vec<(&str, u8)> = idx.iter().map(|i| ops[*i]).collect();
                for t in tuples.iter() {
                    let mut flat = t[0].to_string();
                    for k in 0..n {
                        flat.push_str(&format!(" {} {}", seq[k].0, t[k + 1]));
                    }
                    let grouped = reference_grouping(&t[..n + 1], &seq);
                    let a = eval(&flat);
                    let b = eval(&grouped);
                    match (&a, &b) {
                        (Ok(x), Ok(y)) => {
                            assert_eq!(x, y, "`{}` evaluates to {} but its documented grouping `{}` to {}", flat, x, grouped, y);
                            distinguishing += 1;
                        }
                        (Err(_), Err(_)) => {}
                        _ => panic!("`{}` gives {:?} but its documented grouping `{}` gives {:?}", flat, a, grouped, b),
                    }
                    checked += 1;
                }
                // next operator sequence
                let mut k = 0;
                while k < n {
                    idx[k] += 1;
                    if idx[k] < ops.len() {
                        break;
                    }
                    idx[k] = 0;
                    k += 1;
                }
                if k == n {
                    break;
                }
            }
        }
        assert_eq!(checked, (14 + 14 * 14 + 14 * 14 * 14 + if max_ops == 4 { 14 * 14 * 14 * 14 } else { 0 }) * 5);
        assert!(distinguishing > 1000, "only {} expressions evaluated without error", distinguishing);
    }

    /// C11 (bounded-exhaustive): every sequence of up to four tokens out of 20 of the expression language, and of five
    /// tokens out of the first 10, well formed or not, is either evaluated or rejected with an error; none panics (a
    /// panic would poison the session's data store) and none blocks.  268,420 texts.
    #[test]
    fn verif_replay_malformed_expressions_never_panic() {
        use crate::expression_engine::parser::ExpressionParser;
        use std::sync::{Arc, Mutex};
        const TOKENS: [&str; 20] = [
            "1", "a", "[", "]", "(", ")", ",", ";", ".", "!", "-", "==", "'s'", "{", "}", ":", "*", "=", "?=", "<",
        ];
        let current = Arc::new(Mutex::new(String::new()));
        let panicked: Arc<Mutex<Vec<String>>> = Arc::new(Mutex::new(Vec::new()));
        let (tx, rx) = std::sync::mpsc::channel();
        let (cur2, pan2) = (current.clone(), panicked.clone());
        let _worker = std::thread::Builder::new().name("verif_replay_malformed_expressions_never_panic".to_string()).spawn(move || {
            let fresh = || {
                let gd = create_global_data_arc();
                RFsmExpressionDatamodel::add_internal_functions_to_wrapper(&mut gd.lock().unwrap().actions);
                gd.lock().unwrap().data.map.insert("a".to_string(), create_data_arc(Data::Integer(7)));
                gd
            };
            let mut gd = fresh();
            let mut count = 0usize;
            let deep = std::env::var("VERIF_THOROUGH").is_ok(); // thorough tier: length 5 over all 20 tokens
            for (n, alphabet) in [(1usize, 20usize), (2, 20), (3, 20), (4, 20), (5, if deep { 20 } else { 10 })] {
                let mut idx = vec![0usize; n];
                loop {
                    let text = idx.iter().map(|i| TOKENS[*i]).collect::<Vec<&str>>().join(" ");
                    *cur2.lock().unwrap() = text.clone();
                    let (t2, g2) = (text.clone(), gd.clone());
                    let r = std::panic::catch_unwind(std::panic::AssertUnwindSafe(move || {
                        let mut g = g2.lock().unwrap();
                        let _ = ExpressionParser::execute(t2, &mut g);
                    }));
                    if r.is_err() {
                        let mut p = pan2.lock().unwrap();
                        if p.len() < 5 {
                            p.push(text);
                        }
                        gd = fresh();
                    }
                    count += 1;
                    let mut k = 0;
                    while k < n {
                        idx[k] += 1;
                        if idx[k] < alphabet {
                            break;
                        }
                        idx[k] = 0;
                        k += 1;
                    }
                    if k == n {
                        break;
                    }
                }
            }
            let _ = tx.send(count);
        });
        match rx.recv_timeout(std::time::Duration::from_secs(900)) {
            Ok(count) => assert!(count == 20 + 400 + 8000 + 160000 + 100000 || count == 20 + 400 + 8000 + 160000 + 3200000),
            Err(_) => panic!("evaluation of `{}` did not terminate", current.lock().unwrap()),
        }
        let p = panicked.lock().unwrap();
        assert!(p.is_empty(), "evaluating these texts panicked instead of returning an error: {:?}", *p);
    }

    /// C10: the values the language defines for its operators (README of the expression engine and the property
    /// statement): Integer arithmetic stays Integer and saturates, division yields Double, Double contagion, '+'
    /// aggregates strings, arrays and maps, structural equality, comparisons on numbers and strings, member / index access
    #[test]
    fn verif_replay_operator_values() {
        for (src, want) in [
            ("2 * 3", "6"),
            ("7 / 2", "3.5"),
            ("6 / 3", "2"),
            ("6 : 3", "2"),
            ("1 + 2.5", "3.5"),
            ("2.5 * 2", "5"),
            ("7 - 2.5", "4.5"),
            ("9223372036854775807 + 1", "9223372036854775807"),
            ("-9223372036854775807 - 5", "-9223372036854775808"),
            ("9223372036854775807 * 2", "9223372036854775807"),
            ("7 % 4", "3"),
            ("0 - 7 % 4", "-3"),
            ("7.5 % 2", "1.5"),
            ("'a' + 'b'", "ab"),
            ("'a' + 1", "a1"),
            ("1 + 'a'", "1a"),
            ("[1,2] + 3", "[1,2,3]"),
            ("['a'] + ['b'] + 'c' == ['a','b'] + ['c']", "true"),
            ("{'b':'abc'} + {'a':123} == {'a':123, 'b':'abc'}", "true"),
            ("{'a':1} == {'a':2} + {'a':1}", "true"),
            ("[1,2] == [1,2]", "true"),
            ("[1,2] == [2,1]", "false"),
            ("[1,[2]] == [1,[2]]", "true"),
            ("1 == 1.0", "true"),
            ("1 != 1", "false"),
            ("'a' == 'a'", "true"),
            ("'a' == 'b'", "false"),
            ("null == null", "true"),
            ("'a' < 'b'", "true"),
            ("'2' < '10'", "false"),
            ("2 < 10", "true"),
            ("1 <= 1", "true"),
            ("2 >= 3", "false"),
            ("1.5 > 1", "true"),
            ("true & false", "false"),
            ("true | false", "true"),
            ("!false", "true"),
            ("[1,[2,3]][1][0]", "2"),
            ("{'k':{'j':5}}.k.j", "5"),
            ("{'k':5}['k']", "5"),
            ("a = 5; a + 1", "6"),
            ("c ?= 3; c + 1", "4"),
        ] {
            assert_eq!(eval(src), Ok(want.to_string()), "value of `{}`", src);
        }
        // '=' needs a declared variable
        assert!(eval("undeclared = 1").is_err() || eval("undeclared = 1").unwrap().starts_with("Error"));
    }

    /// C10: the value is the same whether the expression is compiled afresh or served from the session's compilation
    /// cache (same source id): a cached expression sees the current data, not the data at compile time
    #[test]
    fn verif_replay_compilation_cache() {
        let mut dm = dm_with("v", Data::Integer(1));
        let src = Data::Source(SourceCode::new("v + 1", 77));
        let first = dm.execute(&src).map(|d| d.lock().unwrap().to_string());
        assert_eq!(first, Ok("2".to_string()));
        dm.set("v", Data::Integer(5), false);
        let second = dm.execute(&src).map(|d| d.lock().unwrap().to_string());
        assert_eq!(second, Ok("6".to_string()), "cached evaluation of `v + 1` after v changed to 5");
        let fresh = dm.execute(&Data::Source(SourceCode::new("v + 1", 0))).map(|d| d.lock().unwrap().to_string());
        assert_eq!(fresh, second);
    }

    /// C11 (bounded-exhaustive): every built-in function called with 0..3 arguments out of seven values of different
    /// types, as `f(args)` and as `first.f(rest)`, returns a value or an error; none panics (5,600 calls)
    #[test]
    fn verif_replay_builtin_functions_never_panic() {
        use crate::expression_engine::parser::ExpressionParser;
        let functions = ["indexOf", "length", "isDefined", "abs", "toString", "log", "nosuchfunction"];
        let values = ["'abc'", "1", "[1,2]", "{'k':1}", "null", "true", "1.5"];
        let fresh = || {
            let gd = create_global_data_arc();
            RFsmExpressionDatamodel::add_internal_functions_to_wrapper(&mut gd.lock().unwrap().actions);
            gd
        };
        let mut gd = fresh();
        let mut panicked: Vec<String> = Vec::new();
        let mut calls = 0usize;
        for f in functions {
            for n in 0..=3usize {
                let mut idx = vec![0usize; n];
                loop {
                    let args: Vec<&str> = idx.iter().map(|i| values[*i]).collect();
                    let mut texts = vec![format!("{}({})", f, args.join(", "))];
                    if n >= 1 {
                        texts.push(format!("{}.{}({})", args[0], f, args[1..].join(", ")));
                    }
                    for text in texts {
                        let (t2, g2) = (text.clone(), gd.clone());
                        let r = std::panic::catch_unwind(std::panic::AssertUnwindSafe(move || {
                            let mut g = g2.lock().unwrap();
                            let _ = ExpressionParser::execute(t2, &mut g);
                        }));
                        if r.is_err() {
                            if panicked.len() < 5 {
                                panicked.push(text);
                            }
                            gd = fresh();
                        }
                        calls += 1;
                    }
                    let mut k = 0;
                    while k < n {
                        idx[k] += 1;
                        if idx[k] < values.len() {
                            break;
                        }
                        idx[k] = 0;
                        k += 1;
                    }
                    if k == n {
                        break;
                    }
                }
            }
        }
        assert!(calls > 5000);
        assert!(panicked.is_empty(), "these calls panicked instead of returning an error: {:?}", panicked);
    }

    /// C10 (bounded-exhaustive over the first letter): member access works for member names starting with any letter
    /// or '_' (in particular 'e' / 'E', which a number lexer may take for an exponent), alone and chained
    #[test]
    fn verif_replay_member_names_any_initial() {
        let mut initials: Vec<char> = ('a'..='z').collect();
        initials.extend('A'..='Z');
        initials.push('_');
        for c in initials {
            for name in [format!("{}", c), format!("{}x", c), format!("{}1", c), format!("{}nd", c)] {
                let direct = format!("{{'{}':41}}.{} + 1", name, name);
                assert_eq!(eval(&direct), Ok("42".to_string()), "value of `{}`", direct);
                let chained = format!("{{'o':{{'{}':41}}}}.o.{} + 1", name, name);
                assert_eq!(eval(&chained), Ok("42".to_string()), "value of `{}`", chained);
                let spaced = format!("{{'{}':41}} . {} + 1", name, name);
                assert_eq!(eval(&spaced), eval(&direct), "`{}` and `{}`", spaced, direct);
            }
        }
        // numbers keep their exponent syntax
        assert_eq!(eval("1.5e2 + 1"), Ok("151".to_string()));
        assert_eq!(eval("2e2"), Ok("200".to_string()));
        assert_eq!(eval(".5 + 1"), Ok("1.5".to_string()));
    }

    /// C10: string literals follow the JSON escapes the README refers to (fixed defects eb89b0b: \u with hex digits,
    /// 3c0d8a4: \' inside strings) and a name starting with 'e' may follow a minus directly (8855ca1)
    #[test]
    fn verif_replay_string_escapes_and_minus_before_names() {
        assert_eq!(eval(r"'caf\u00e9'"), Ok("café".to_string()), "\\u escape with hex digits");
        assert_eq!(eval(r"'\u0041\u00DF'"), Ok("Aß".to_string()), "\\u escape with upper-case hex digits");
        assert_eq!(eval(r"'it\'s'"), Ok("it's".to_string()), "escaped single quote");
        assert_eq!(eval(r#""say \"hi\"""#), Ok("say \"hi\"".to_string()), "escaped double quote");
        assert_eq!(eval(r"'a\\b\/c'"), Ok("a\\b/c".to_string()), "escaped backslash and slash");
        assert!(eval(r"'\u00g1'").is_err(), "a non-hex digit in \\u must be an error");
        let with_e = |src: &str| -> Result<String, String> {
            use crate::expression_engine::parser::ExpressionParser;
            let gd = create_global_data_arc();
            let mut g = gd.lock().unwrap();
            g.data.map.insert("a".to_string(), create_data_arc(Data::Integer(10)));
            g.data.map.insert("e".to_string(), create_data_arc(Data::Integer(3)));
            g.data.map.insert("Ex".to_string(), create_data_arc(Data::Integer(4)));
            match ExpressionParser::execute(src.to_string(), &mut g) {
                Ok(v) => Ok(v.lock().unwrap().to_string()),
                Err(e) => Err(e),
            }
        };
        assert_eq!(with_e("a - e"), Ok("7".to_string()));
        assert_eq!(with_e("a-e"), with_e("a - e"), "`a-e` and `a - e`");
        assert_eq!(with_e("a-Ex"), with_e("a - Ex"), "`a-Ex` and `a - Ex`");
        assert_eq!(with_e("a -e"), with_e("a - e"), "`a -e` and `a - e`");
    }

    /// child half of `verif_replay_deep_expressions_do_not_overflow_the_stack`: does nothing unless asked through the environment
    #[test]
    fn verif_replay_depth_child() {
        let Ok(spec) = std::env::var("VERIF_DEPTH_CHILD") else { return };
        let (kind, n) = spec.split_once(':').unwrap();
        let n: usize = n.parse().unwrap();
        let text = match kind {
            "parens" => "(".repeat(n) + "1" + &")".repeat(n),
            "brackets" => "[".repeat(n) + &"]".repeat(n),
            "braces" => "{'k':".repeat(n) + "1" + &"}".repeat(n),
            "chain" => "1".to_string() + &"+1".repeat(n),
            "not" => "!".repeat(n) + "true",
            "calls" => "abs(".repeat(n) + "1" + &")".repeat(n),
            _ => panic!("unknown kind"),
        };
        // a session thread has the default stack of a spawned thread
        let h = std::thread::Builder::new().name("depth".to_string()).spawn(move || {
            let _ = eval(&text);
        }).unwrap();
        let _ = h.join();
    }

    /// C11 (bounded): parsing and evaluating deeply nested or very long expressions ends with a value or an error,
    /// it does not overflow the stack.  Each text runs in a child process (a stack overflow aborts the process).
    #[test]
    fn verif_replay_deep_expressions_do_not_overflow_the_stack() {
        let exe = std::env::current_exe().unwrap();
        let mut failed = Vec::new();
        for kind in ["parens", "brackets", "braces", "calls", "chain", "not"] {
            for n in [50usize, 20_000] {
                let st = std::process::Command::new(&exe)
                    .args(["verif_replay_depth_child", "--test-threads", "1"])
                    .env("VERIF_DEPTH_CHILD", format!("{}:{}", kind, n))
                    .stdout(std::process::Stdio::null())
                    .stderr(std::process::Stdio::null())
                    .status()
                    .unwrap();
                if !st.success() {
                    failed.push(format!("{} x {} ({})", kind, n, st));
                }
            }
        }
        assert!(failed.is_empty(), "the process died (stack overflow) while parsing/evaluating: {}", failed.join(", "));
    }
}
