
#[cfg(test)]
mod verif_replay_namematch {
    use super::*;

    fn tr(descs: &[&str], wildcard: bool) -> Transition {
        Transition {
            id: 1,
            doc_id: 1,
            events: descs.iter().map(|s| s.to_string()).collect(),
            wildcard,
            cond: Data::Null(),
            source: 1,
            target: vec![],
            transition_type: TransitionType::External,
            content: 0,
        }
    }

    /// C19 (W3C 3.12.1): the descriptor's tokens are a prefix of the name's tokens
    fn spec_match(d: &str, n: &str) -> bool {
        n == d || (n.len() > d.len() && n.starts_with(d) && n.as_bytes()[d.len()] == b'.')
    }

    fn all_strings(alphabet: &[char], max: usize) -> Vec<String> {
        let mut out = vec![String::new()];
        let mut last = vec![String::new()];
        for _ in 0..max {
            let mut next = Vec::new();
            for s in &last {
                for c in alphabet {
                    let mut t = s.clone();
                    t.push(*c);
                    next.push(t);
                }
            }
            out.extend(next.iter().cloned());
            last = next;
        }
        out
    }

    /// bounded-exhaustive: every descriptor and every name over {a, b, '.', 'ȟ'} up to 4 characters
    #[test]
    fn verif_replay_namematch_exhaustive_small() {
        // thorough tier: strings up to 5 characters (1,365 x 1,365 pairs) instead of 4 (341 x 341)
        let depth = if std::env::var("VERIF_THOROUGH").is_ok() { 5 } else { 4 };
        let strings = all_strings(&['a', 'b', '.', '\u{21f}'], depth);
        for d in &strings {
            if d.is_empty() {
                continue;
            }
            let t = tr(&[d.as_str()], false);
            for n in &strings {
                assert_eq!(t.nameMatch(n), spec_match(d, n), "descriptor {:?} against event name {:?}", d, n);
            }
        }
    }

    /// the W3C examples and the descriptor-longer-than-name cases
    #[test]
    fn verif_replay_namematch_examples() {
        let t = tr(&["error", "foo"], false);
        for n in ["error", "error.send", "error.send.failed", "foo", "foo.bar"] {
            assert!(t.nameMatch(n), "{}", n);
        }
        for n in ["errors.my.custom", "errorhandler.mistake", "foobar", "err", "Error", ""] {
            assert!(!t.nameMatch(n), "{}", n);
        }
        let t = tr(&["error.send", "done.state.s1", "a.b.c"], false);
        for n in ["error", "done.state", "done", "a", "a.b", "error.sen"] {
            assert!(!t.nameMatch(n), "a descriptor with more tokens than the name {:?} must not match", n);
        }
        assert!(tr(&[], true).nameMatch("anything.at.all"));
        assert!(!tr(&[], false).nameMatch("x"));
    }

    /// C19 (bounded): equivalent spellings of a descriptor ('e', 'e.', 'e.*', 'e.*.', 'e.*.*') give the same stored
    /// descriptor and hence the same matches; '*' sets the wildcard flag
    #[test]
    fn verif_replay_namematch_normalised_spellings() {
        for spelling in ["e", "e.", "e.*", "e.*.", "e.*.*", "  e.*  "] {
            let doc = format!(
                r###"<scxml xmlns="http://www.w3.org/2005/07/scxml" initial="s0" version="1.0" datamodel="null">
 <state id="s0"><transition event="{} other.x.*" target="s1"/><transition event="*" target="s1"/></state>
 <final id="s1"/>
</scxml>"###,
                spelling
            );
            let fsm = crate::scxml_reader::parse_from_xml(doc).unwrap();
            let mut seen = 0;
            let mut wildcards = 0;
            for t in fsm.transitions.values() {
                if t.wildcard {
                    wildcards += 1;
                }
                if t.events.is_empty() && !t.wildcard {
                    // eventless (the transition generated for initial="s0")
                    continue;
                }
                if t.events.is_empty() || t.events == vec!["*".to_string()] {
                    // the `*` transition
                    assert!(t.wildcard && t.nameMatch("anything"), "spelling {:?}: the '*' transition", spelling);
                    seen += 1;
                } else {
                    assert_eq!(t.events, vec!["e".to_string(), "other.x".to_string()], "spelling {:?}", spelling);
                    assert!(!t.wildcard, "spelling {:?}: a descriptor with an insignificant '.*' suffix must not become the wildcard", spelling);
                    for n in ["e", "e.sub", "e.sub.sub", "other.x", "other.x.y"] {
                        assert!(t.nameMatch(n), "spelling {:?} must match {:?}", spelling, n);
                    }
                    for n in ["ex", "e2.sub", "other", "other.xy", "E", "anything", "done"] {
                        assert!(!t.nameMatch(n), "spelling {:?} must not match {:?}", spelling, n);
                    }
                    seen += 1;
                }
            }
            assert_eq!(wildcards, 1, "spelling {:?}: exactly the '*' transition is a wildcard", spelling);
            assert_eq!(seen, 2);
        }
    }

    /// C19 (bounded-exhaustive): '*' matches every name wherever it stands in the event attribute: all lists of one to
    /// three descriptors over {a, b.c, a.*, *}; a list without '*' never becomes a wildcard
    #[test]
    fn verif_replay_namematch_wildcard_position() {
        let alphabet = ["a", "b.c", "a.*", "*"];
        let mut lists: Vec<Vec<&str>> = Vec::new();
        for x in alphabet {
            lists.push(vec![x]);
            for y in alphabet {
                lists.push(vec![x, y]);
                for z in alphabet {
                    lists.push(vec![x, y, z]);
                }
            }
        }
        for l in lists {
            let attr = l.join(" ");
            let doc = format!(
                r###"<scxml xmlns="http://www.w3.org/2005/07/scxml" initial="s0" version="1.0" datamodel="null">
 <state id="s0"><transition event="{}" target="s1"/></state>
 <final id="s1"/>
</scxml>"###,
                attr
            );
            let fsm = crate::scxml_reader::parse_from_xml(doc).unwrap();
            let t = fsm.transitions.values().find(|t| !t.events.is_empty() || t.wildcard).expect("the transition");
            let has_star = l.contains(&"*");
            assert_eq!(t.wildcard, has_star, "event=\"{}\": wildcard flag", attr);
            for n in ["zzz", "q.r", "done.state.s0", "ab"] {
                assert_eq!(t.nameMatch(n), has_star, "event=\"{}\" and name {:?}", attr, n);
            }
            assert!(t.nameMatch("a.x") && t.nameMatch("a") || !l.iter().any(|d| *d == "a" || *d == "a.*" || *d == "*"), "event=\"{}\": 'a' descriptors", attr);
        }
    }
}
