
#[cfg(test)]
mod verif_replay_namematch {
    use super::*;

    fn tr(descs: &[&str], wildcard: bool) -> Transition {
        Transition {
            id: 1,
            doc_id: 1,
            events: descs.iter().map(|s| s.to_string()).collect(),
            wildcard,
            cond: Data::Null(),
            source: 1,
            target: vec![],
            transition_type: TransitionType::External,
            content: 0,
        }
    }

    /// C19 (W3C 3.12.1): the descriptor's tokens are a prefix of the name's tokens
    fn spec_match(d: &str, n: &str) -> bool {
        n == d || (n.len() > d.len() && n.starts_with(d) && n.as_bytes()[d.len()] == b'.')
    }

    fn all_strings(alphabet: &[char], max: usize) -> Vec<String> {
        let mut out = vec![String::new()];
        let mut last = vec![String::new()];
        for _ in 0..max {
            let mut next = Vec::new();
            for s in &last {
                for c in alphabet {
                    let mut t = s.clone();
                    t.push(*c);
                    next.push(t);
                }
            }
            out.extend(next.iter().cloned());
            last = next;
        }
        out
    }

    /// bounded-exhaustive: every descriptor and every name over {a, b, '.', 'ȟ'} up to 4 characters
    #[test]
    fn verif_replay_namematch_exhaustive_small() {
        let strings = all_strings(&['a', 'b', '.', '\u{21f}'], 4);
        for d in &strings {
            if d.is_empty() {
                continue;
            }
            let t = tr(&[d.as_str()], false);
            for n in &strings {
                assert_eq!(t.nameMatch(n), spec_match(d, n), "descriptor {:?} against event name {:?}", d, n);
            }
        }
    }

    /// the W3C examples and the descriptor-longer-than-name cases
    #[test]
    fn verif_replay_namematch_examples() {
        let t = tr(&["error", "foo"], false);
        for n in ["error", "error.send", "error.send.failed", "foo", "foo.bar"] {
            assert!(t.nameMatch(n), "{}", n);
        }
        for n in ["errors.my.custom", "errorhandler.mistake", "foobar", "err", "Error", ""] {
            assert!(!t.nameMatch(n), "{}", n);
        }
        let t = tr(&["error.send", "done.state.s1", "a.b.c"], false);
        for n in ["error", "done.state", "done", "a", "a.b", "error.sen"] {
            assert!(!t.nameMatch(n), "a descriptor with more tokens than the name {:?} must not match", n);
        }
        assert!(tr(&[], true).nameMatch("anything.at.all"));
        assert!(!tr(&[], false).nameMatch("x"));
    }
}
