
#[cfg(test)]
mod verif_replay_interp {
    use super::*;
    use crate::actions::ActionWrapper;
    use crate::fsm;
    use crate::fsm::{Event, FinishMode};
    use crate::scxml_reader;
    use std::sync::mpsc::channel;
    use std::time::Duration;

    /// runs the document in its own session, feeds the external events in order; Err if the session thread panicked
    /// or did not terminate within 10 s, else the final configuration
    fn run(doc: &str, events: &[&str]) -> Result<Vec<String>, String> {
        let fsm = scxml_reader::parse_from_xml(doc.to_string()).unwrap();
        let executor = FsmExecutor::new_without_io_processor();
        let session = fsm::start_fsm_with_data_and_finish_mode(
            fsm,
            ActionWrapper::new(),
            Box::new(executor),
            &Vec::new(),
            FinishMode::KEEP_CONFIGURATION,
        );
        for e in events {
            let _ = session.sender.send(Box::new(Event::new_simple(e)));
        }
        let gd = session.global_data.clone();
        let th = session.thread.unwrap();
        let (tx, rx) = channel();
        std::thread::spawn(move || {
            let r = th.join();
            let _ = tx.send(r.is_ok());
        });
        match rx.recv_timeout(Duration::from_secs(10)) {
            Ok(true) => match gd.lock() {
                Ok(g) => Ok(g.final_configuration.clone().unwrap_or_default()),
                Err(_) => Err("session data poisoned".to_string()),
            },
            Ok(false) => Err("session thread panicked".to_string()),
            Err(_) => Err("session did not terminate (wedged)".to_string()),
        }
    }

    fn fin(s: &str) -> Result<Vec<String>, String> {
        Ok(vec![s.to_string()])
    }

    const HIST: &str = r###"<scxml xmlns="http://www.w3.org/2005/07/scxml" initial="P" version="1.0" datamodel="rfsm-expression">
 <state id="P" initial="A">
  <history id="H" type="TYPE"><transition target="A"/></history>
  <state id="A"><transition event="next" target="B"/><transition event="check" target="FailA"/></state>
  <state id="B" initial="B1">
   <state id="B1"><transition event="deeper" target="B2"/><transition event="check" target="FailB1"/></state>
   <state id="B2"><transition event="check" target="PassB2"/></state>
   <transition event="next" target="C"/>
  </state>
  <state id="C"><transition event="check" target="PassC"/></state>
  <transition event="leave" target="Out"/>
 </state>
 <state id="Out"><transition event="back" target="H"/></state>
 <final id="FailA"/><final id="FailB1"/><final id="PassB2"/><final id="PassC"/>
</scxml>"###;

    /// C06: history restores the children active at the LAST exit (second recording replaces the first)
    #[test]
    fn verif_replay_interp_history_rerecorded() {
        let doc = HIST.replace("TYPE", "shallow");
        assert_eq!(run(&doc, &["next", "leave", "back", "next", "leave", "back", "check"]), fin("PassC"));
    }

    /// C06: never-visited history takes its default transition
    #[test]
    fn verif_replay_interp_history_default() {
        let doc = HIST.replace("TYPE", "shallow");
        assert_eq!(run(&doc, &["leave", "back", "check"]), fin("FailA"));
    }

    /// C06: deep history restores the atomic descendant, shallow history only the child (its initial descendant)
    #[test]
    fn verif_replay_interp_history_deep_vs_shallow() {
        let deep = HIST.replace("TYPE", "deep");
        assert_eq!(run(&deep, &["next", "deeper", "leave", "back", "check"]), fin("PassB2"));
        let shallow = HIST.replace("TYPE", "shallow");
        assert_eq!(run(&shallow, &["next", "deeper", "leave", "back", "check"]), fin("FailB1"));
    }

    const PAR: &str = r###"<scxml xmlns="http://www.w3.org/2005/07/scxml" initial="p" version="1.0" datamodel="rfsm-expression">
 <parallel id="p">
  <transition event="e" target="viaParent"/>
  <state id="r1" initial="a1"><state id="a1"/></state>
  <state id="r2" initial="b1">
   <state id="b1"><transition event="e" target="b2"/></state>
   <state id="b2"><transition event="f" target="viaChild"/></state>
  </state>
 </parallel>
 <final id="viaParent"/><final id="viaChild"/>
</scxml>"###;

    /// C02: a transition whose source is a descendant of a conflicting earlier transition's source pre-empts it
    #[test]
    fn verif_replay_interp_descendant_preempts() {
        assert_eq!(run(PAR, &["e", "f"]), fin("viaChild"));
    }

    const ORDER: &str = r###"<scxml xmlns="http://www.w3.org/2005/07/scxml" initial="s" version="1.0" datamodel="rfsm-expression">
 <datamodel><data id="log" expr="''"/></datamodel>
 <state id="s" initial="s1">
  <onentry><assign location="log" expr="log + 'S'"/></onentry>
  <onexit><assign location="log" expr="log + 's'"/></onexit>
  <state id="s1">
   <onentry><assign location="log" expr="log + 'A'"/></onentry>
   <onexit><assign location="log" expr="log + 'a'"/></onexit>
   <transition event="go" target="t1"><assign location="log" expr="log + '-'"/></transition>
  </state>
 </state>
 <state id="t" initial="t1">
  <onentry><assign location="log" expr="log + 'T'"/></onentry>
  <state id="t1">
   <onentry><assign location="log" expr="log + 'B'"/></onentry>
   <transition cond="log == 'SAas-TB'" target="Pass"/>
   <transition target="Fail"/>
  </state>
 </state>
 <final id="Pass"/><final id="Fail"/>
</scxml>"###;

    /// C01/C03: exit in reverse document order (children first), transition content, entry in document order (parents first);
    /// the eventless transitions of t1 are checked in document order
    #[test]
    fn verif_replay_interp_microstep_order() {
        assert_eq!(run(ORDER, &["go"]), fin("Pass"));
    }

    const DONE: &str = r###"<scxml xmlns="http://www.w3.org/2005/07/scxml" initial="p" version="1.0" datamodel="rfsm-expression">
 <parallel id="p">
  <state id="r1" initial="a"><state id="a"><transition event="x" target="af"/></state><final id="af"/></state>
  <state id="r2" initial="b"><state id="b"><transition event="y" target="bf"/></state><final id="bf"/></state>
  <transition event="done.state.p" target="Pass"/>
  <transition event="z" target="Early"/>
 </parallel>
 <final id="Pass"/><final id="Early"/>
</scxml>"###;

    /// C07: done.state.<parallel> is raised only when ALL regions are in a final state
    #[test]
    fn verif_replay_interp_done_parallel() {
        assert_eq!(run(DONE, &["x", "y"]), fin("Pass"));
        assert_eq!(run(DONE, &["x", "z"]), fin("Early"));
    }

    const EVENTLESS_FIRST: &str = r###"<scxml xmlns="http://www.w3.org/2005/07/scxml" initial="s0" version="1.0" datamodel="rfsm-expression">
 <state id="s0"><transition event="go" target="s1"><raise event="int1"/></transition></state>
 <state id="s1"><transition target="s2"/><transition event="int1" target="fail"/></state>
 <state id="s2"><transition event="int1" target="pass"/><transition event="ext2" target="late"/></state>
 <final id="pass"/><final id="fail"/><final id="late"/>
</scxml>"###;

    /// C03: inside a macrostep an enabled eventless transition is taken before the next internal event is dequeued,
    /// and internal events before the next external one
    #[test]
    fn verif_replay_interp_eventless_before_internal() {
        assert_eq!(run(EVENTLESS_FIRST, &["go", "ext2"]), fin("pass"));
    }

    const INVOKE_TRANSIENT: &str = r###"<scxml xmlns="http://www.w3.org/2005/07/scxml" initial="s0" version="1.0" datamodel="rfsm-expression">
 <state id="s0">
  <invoke type="scxml" id="ghost"><content><scxml xmlns="http://www.w3.org/2005/07/scxml" initial="c0" version="1.0" datamodel="rfsm-expression"><state id="c0"><onentry><send target="#_parent" event="child.alive"/></onentry></state></scxml></content></invoke>
  TRANSITION
 </state>
 <state id="s1">
  <onentry><send event="check" delay="1s"/></onentry>
  <transition event="child.alive" target="alive"/>
  <transition event="check" target="quiet"/>
 </state>
 <final id="alive"/><final id="quiet"/>
</scxml>"###;

    /// C14: the <invoke> of a state entered and exited within one macrostep is never started;
    /// the invoke of a state that is still active at the end of the macrostep is (control)
    #[test]
    fn verif_replay_interp_invoke_only_for_stable_states() {
        let transient = INVOKE_TRANSIENT.replace("TRANSITION", r#"<transition target="s1"/>"#);
        assert_eq!(run(&transient, &[]), fin("quiet"));
        let stable = INVOKE_TRANSIENT.replace("TRANSITION", r#"<transition event="child.alive" target="alive"/>"#);
        assert_eq!(run(&stable, &[]), fin("alive"));
    }

    fn if_doc(cond: &str) -> String {
        format!(
            r###"<scxml xmlns="http://www.w3.org/2005/07/scxml" initial="s0" version="1.0" datamodel="rfsm-expression">
 <datamodel><data id="x" expr="1"/></datamodel>
 <state id="s0">
  <onentry>
   <if cond="{}"><raise event="then"/><else/><raise event="else"/></if>
   <raise event="after"/>
  </onentry>
  <transition event="error.execution" target="s1"/>
  <transition event="*" target="noerror"/>
 </state>
 <state id="s1">
  <transition event="else" target="s2"/>
  <transition event="*" target="wrongbranch"/>
 </state>
 <state id="s2">
  <transition event="after" target="pass"/>
  <transition event="*" target="aborted"/>
 </state>
 <final id="pass"/><final id="noerror"/><final id="wrongbranch"/><final id="aborted"/>
</scxml>"###,
            cond
        )
    }

    /// C08: an <if> condition that cannot be evaluated places error.execution on the internal queue, counts as
    /// false (the else branch runs) and the rest of the block still runs
    #[test]
    fn verif_replay_interp_if_condition_error() {
        assert_eq!(run(&if_doc("nosuchvariable == 1"), &[]), fin("pass"));
        assert_eq!(run(&if_doc("1 +"), &[]), fin("pass"));
    }

    const LATE: &str = r###"<scxml xmlns="http://www.w3.org/2005/07/scxml" initial="A" version="1.0" datamodel="rfsm-expression" binding="BINDING">
 <state id="A">
  <datamodel><data id="cnt" expr="0"/></datamodel>
  <onentry><assign location="cnt" expr="cnt + 1"/></onentry>
  <transition event="go" target="B"/>
  <transition event="check" cond="cnt == 2" target="C"/>
  <transition event="check" target="reinitialised"/>
 </state>
 <state id="B"><transition target="A"/></state>
 <state id="C">
  <datamodel><data id="c" expr="40"/></datamodel>
  <onentry><assign location="c" expr="c + 2"/></onentry>
  <transition cond="(c == 42) &amp; In('C') &amp; (!In('A'))" target="pass"/>
  <transition target="wrongC"/>
 </state>
 <final id="pass"/><final id="reinitialised"/><final id="wrongC"/>
</scxml>"###;

    /// C09: late-bound data are initialised at the first entry of their state, before its onentry content, and not again
    /// on re-entry; In() reflects the configuration at the moment of evaluation
    #[test]
    fn verif_replay_interp_late_binding_and_in() {
        assert_eq!(run(&LATE.replace("BINDING", "late"), &["go", "check"]), fin("pass"));
        assert_eq!(run(&LATE.replace("BINDING", "early"), &["go", "check"]), fin("pass"));
    }

    const DOCORDER: &str = r###"<scxml xmlns="http://www.w3.org/2005/07/scxml" initial="P" version="1.0" datamodel="rfsm-expression">
 <parallel id="P">
  <state id="R1" initial="A1">
   <state id="A1"><transition event="step" target="A2"/></state>
   <state id="A2"><transition event="go" target="WinA"/><transition event="auto" target="A3"/></state>
   <state id="A3"><transition cond="true" target="WinA"/></state>
  </state>
  <state id="R2" initial="B1">
   <state id="B1"><transition event="go" target="WinB"/><transition event="auto" target="B2"/></state>
   <state id="B2"><transition cond="true" target="WinB"/></state>
  </state>
 </parallel>
 <final id="WinA"/><final id="WinB"/>
</scxml>"###;

    /// C02: candidate transitions are collected over the atomic states in DOCUMENT order (not in the order the states
    /// happened to be entered): after region R1 moved, its state is still considered before R2's, for events and for
    /// eventless transitions alike
    #[test]
    fn verif_replay_interp_selection_in_document_order() {
        assert_eq!(run(DOCORDER, &["step", "go"]), fin("WinA"));
        assert_eq!(run(DOCORDER, &["step", "auto"]), fin("WinA"));
    }

    const AUTOFORWARD: &str = r###"<scxml xmlns="http://www.w3.org/2005/07/scxml" initial="s0" version="1.0" datamodel="rfsm-expression">
 <state id="s0">
  <onentry><send event="timeout" delay="5s"/></onentry>
  <invoke type="scxml" id="kid" autoforward="AUTOFORWARD"><content><scxml xmlns="http://www.w3.org/2005/07/scxml" initial="c0" version="1.0" datamodel="rfsm-expression"><state id="c0"><transition event="ping" target="c1"/></state><state id="c1"><onentry><send target="#_parent" event="child.gotping"/></onentry></state></scxml></content></invoke>
  <transition event="child.gotping" target="forwarded"/>
  <transition event="timeout" target="notforwarded"/>
 </state>
 <final id="forwarded"/><final id="notforwarded"/>
</scxml>"###;

    /// C14: an external event the parent receives from outside is forwarded to a child invoked with autoforward="true",
    /// and is not forwarded without autoforward (control)
    #[test]
    fn verif_replay_interp_autoforward() {
        assert_eq!(run(&AUTOFORWARD.replace("AUTOFORWARD", "true"), &["ping"]), fin("forwarded"));
        assert_eq!(run(&AUTOFORWARD.replace("AUTOFORWARD", "false"), &["ping"]), fin("notforwarded"));
    }

    const FINALIZE: &str = r###"<scxml xmlns="http://www.w3.org/2005/07/scxml" initial="s0" version="1.0" datamodel="rfsm-expression">
 <datamodel><data id="seen" expr="0"/></datamodel>
 <state id="s0">
  <onentry><send event="timeout" delay="6s"/></onentry>
  <invoke type="scxml" INVOKEID><content><scxml xmlns="http://www.w3.org/2005/07/scxml" initial="c0" version="1.0" datamodel="rfsm-expression"><state id="c0"><onentry><send target="#_parent" event="child.hello"/></onentry></state></scxml></content>
   <finalize><assign location="seen" expr="seen + 1"/></finalize>
  </invoke>
  <transition event="child.hello" cond="seen == 1" target="finalized"/>
  <transition event="child.hello" target="notfinalized"/>
  <transition event="timeout" target="nochildevent"/>
 </state>
 <final id="finalized"/><final id="notfinalized"/><final id="nochildevent"/>
</scxml>"###;

    /// C14: the <finalize> of the invoke an event comes from runs (once) before transitions are selected for that event,
    /// for an invoke with an author-given id and for one with a generated id
    #[test]
    fn verif_replay_interp_finalize_before_selection() {
        assert_eq!(run(&FINALIZE.replace("INVOKEID", r#"id="kid""#), &[]), fin("finalized"));
        assert_eq!(run(&FINALIZE.replace("INVOKEID", ""), &[]), fin("finalized"));
    }

    const FOREACH: &str = r###"<scxml xmlns="http://www.w3.org/2005/07/scxml" initial="s0" version="1.0" datamodel="rfsm-expression">
 <datamodel>
  <data id="arr" expr="[4,5,6]"/><data id="it" expr="0"/><data id="ix" expr="0"/>
  <data id="items" expr="0"/><data id="idxs" expr="0"/><data id="after" expr="0"/><data id="tail" expr="0"/>
 </datamodel>
 <state id="s0">
  <onentry>
   <foreach array="arr" item="it" index="ix">
    <assign location="items" expr="items * 10 + it"/>
    <assign location="idxs" expr="idxs * 10 + ix + 1"/>
    BODY
    <assign location="after" expr="after * 10 + it"/>
   </foreach>
   <assign location="tail" expr="1"/>
  </onentry>
  <transition cond="EXPECT" target="s1"/>
  <transition target="wrongvalues"/>
 </state>
 <state id="s1">
  <onentry><raise event="probe"/></onentry>
  <transition event="error.execution" target="sawerror"/>
  <transition event="probe" target="noerror"/>
 </state>
 <final id="sawerror"/><final id="noerror"/><final id="wrongvalues"/>
</scxml>"###;

    /// C08: <foreach> visits the items in order, binding item and index; an evaluation error in its body raises
    /// error.execution and ends the foreach and the rest of the enclosing block (and only that: the session carries on)
    #[test]
    fn verif_replay_interp_foreach_order_and_abort() {
        let all = FOREACH
            .replace("BODY", "")
            .replace("EXPECT", "(items == 456) &amp; (idxs == 123) &amp; (after == 456) &amp; (tail == 1)");
        assert_eq!(run(&all, &[]), fin("noerror"));
        let failing = FOREACH
            .replace("BODY", r#"<if cond="it == 5"><assign location="items" expr="nosuchvariable + 1"/></if>"#)
            .replace("EXPECT", "(items == 45) &amp; (idxs == 12) &amp; (after == 4) &amp; (tail == 0)");
        assert_eq!(run(&failing, &[]), fin("sawerror"));
    }

    const GLOBAL_SCRIPT: &str = r###"<scxml xmlns="http://www.w3.org/2005/07/scxml" initial="s0" version="1.0" datamodel="rfsm-expression" binding="BINDING">
 <datamodel><data id="v" expr="1"/></datamodel>
 <script>v = v + 1</script>
 <state id="s0">
  <datamodel><data id="w" expr="10"/></datamodel>
  <onentry><raise event="probe"/></onentry>
  <transition event="error.execution" target="scripterror"/>
  <transition event="probe" cond="v == 2" target="pass"/>
  <transition event="probe" target="wrongvalue"/>
 </state>
 <final id="pass"/><final id="scripterror"/><final id="wrongvalue"/>
</scxml>"###;

    /// C09: with early binding the data have their values before the global <script> runs (which runs before the
    /// initial states are entered).  (With late binding the property only speaks about the data of states.)
    #[test]
    fn verif_replay_interp_data_before_global_script() {
        assert_eq!(run(&GLOBAL_SCRIPT.replace("BINDING", "early"), &[]), fin("pass"));
    }

    fn error_doc(content: &str) -> String {
        format!(
            r###"<scxml xmlns="http://www.w3.org/2005/07/scxml" initial="s0" version="1.0" datamodel="rfsm-expression">
 <datamodel><data id="v" expr="1"/><data id="zero" expr="0"/></datamodel>
 <state id="s0">
  <onentry>{}<raise event="after"/></onentry>
  <transition event="error.execution" target="s1"/>
  <transition event="*" target="noerror"/>
 </state>
 <state id="s1">
  <onentry><raise event="probe"/></onentry>
  <transition event="after" target="restran"/>
  <transition event="probe" target="pass"/>
 </state>
 <final id="pass"/><final id="noerror"/><final id="restran"/>
</scxml>"###,
            content
        )
    }

    /// C08: an evaluation error in any kind of executable content (value, location, script, send argument, foreach
    /// array) places error.execution on the internal queue and aborts the remainder of the enclosing block; the session
    /// carries on
    #[test]
    fn verif_replay_interp_evaluation_errors() {
        for c in [
            r#"<script>nosuch + 1</script>"#,
            r#"<script>v = nosuch</script>"#,
            r#"<script>1 +</script>"#,
            r#"<log expr="nosuch + 1"/>"#,
            r#"<log expr="1 +"/>"#,
            r#"<assign location="v" expr="nosuch + 1"/>"#,
            r#"<assign location="v" expr="1 +"/>"#,
            r#"<assign location="nosuch" expr="1"/>"#,
            r#"<foreach array="nosuch" item="i"><raise event="x"/></foreach>"#,
            r#"<foreach array="v" item="i"><raise event="x"/></foreach>"#,
            r#"<send event="e" delayexpr="nosuch"/>"#,
            r#"<send eventexpr="nosuch"/>"#,
            r#"<send event="e" targetexpr="nosuch"/>"#,
            // expressions that evaluate to an error VALUE (not a failed evaluation)
            r#"<log expr="10 % zero"/>"#,
            r#"<script>10 % zero</script>"#,
            r#"<log expr="0 / zero"/>"#,
            r#"<log expr="true + 1"/>"#,
            r#"<assign location="v" expr="10 % zero"/>"#,
        ] {
            assert_eq!(run(&error_doc(c), &[]), fin("pass"), "content {}", c);
        }
    }

    /// C08: an evaluation error anywhere in an expression list (`a; b; c`), not only in its last expression, places
    /// error.execution on the internal queue; the expressions after the failing one are not evaluated
    #[test]
    fn verif_replay_interp_error_inside_expression_list() {
        for c in [
            r#"<script>nosuch = 1; v = 2</script>"#,
            r#"<script>v = nosuch; v = 2</script>"#,
            r#"<script>10 % zero; v = 2</script>"#,
            r#"<script>abs('x'); v = 2</script>"#,
            r#"<script>v = 1; nosuch = 3; v = 2</script>"#,
            r#"<log expr="nosuch; 5"/>"#,
            r#"<assign location="v" expr="nosuch; 5"/>"#,
        ] {
            assert_eq!(run(&error_doc(c), &[]), fin("pass"), "content {}", c);
        }
        // ... and the rest of the list is not evaluated: v keeps the value it had when the error occurred
        for (c, g) in [
            (r#"<script>nosuch = 1; v = 2</script>"#, "v == 1"),
            (r#"<script>v = 5; nosuch = 3; v = 2</script>"#, "v == 5"),
        ] {
            assert_eq!(run(&sysvar_doc(c, g), &[]), fin("pass"), "content {} then guard {}", c, g);
        }
        // a list without errors evaluates every expression in order
        assert_eq!(run(&sysvar_doc(r#"<script>v = 5; v = v + 1; v = v * 2</script><raise event="error.execution"/>"#, "v == 12"), &[]), fin("pass"));
    }

    fn sysvar_doc(content: &str, guard: &str) -> String {
        format!(
            r###"<scxml xmlns="http://www.w3.org/2005/07/scxml" name="machine" initial="s0" version="1.0" datamodel="rfsm-expression">
 <datamodel><data id="v" expr="1"/></datamodel>
 <state id="s0">
  <onentry>{}</onentry>
  <transition event="error.execution" target="s1"/>
  <transition event="*" target="noerror"/>
 </state>
 <state id="s1">
  <transition cond="{}" target="pass"/>
  <transition target="changed"/>
 </state>
 <final id="pass"/><final id="noerror"/><final id="changed"/>
</scxml>"###,
            content, guard
        )
    }

    /// C09: _sessionid, _name, _ioprocessors and _event cannot be modified by content: the attempt raises
    /// error.execution and leaves the value intact (rfsm-expression data model)
    #[test]
    fn verif_replay_interp_system_variables_read_only() {
        for (c, g) in [
            (r#"<assign location="_sessionid" expr="'x'"/>"#, "_sessionid != 'x'"),
            (r#"<assign location="_name" expr="'x'"/>"#, "_name == 'machine'"),
            (r#"<assign location="_ioprocessors" expr="'x'"/>"#, "_ioprocessors != 'x'"),
            (r#"<assign location="_event" expr="'x'"/>"#, "_event != 'x'"),
            (r#"<script>_sessionid = 'x'</script>"#, "_sessionid != 'x'"),
            (r#"<script>_name = 'x'</script>"#, "_name == 'machine'"),
            (r#"<script>_sessionid ?= 'x'</script>"#, "_sessionid != 'x'"),
            (r#"<script>_name ?= 'x'</script>"#, "_name == 'machine'"),
        ] {
            assert_eq!(run(&sysvar_doc(c, g), &[]), fin("pass"), "content {}", c);
        }
        // control: content that does not fail raises no error.execution
        assert_eq!(run(&sysvar_doc(r#"<raise event="r"/>"#, "true"), &[]), fin("noerror"));
    }

    fn event_doc(guard: &str) -> String {
        format!(
            r###"<scxml xmlns="http://www.w3.org/2005/07/scxml" name="machine" initial="s0" version="1.0" datamodel="rfsm-expression">
 <state id="s0">
  <onentry><send event="ping" id="sid1"><param name="p" expr="7"/></send></onentry>
  <transition event="ping" cond="{}" target="pass"/>
  <transition event="ping" target="wrongfields"/>
 </state>
 <final id="pass"/><final id="wrongfields"/>
</scxml>"###,
            guard
        )
    }

    /// C09: while an event is processed, an attempt to overwrite _event (with '=' or with '?=') raises error.execution
    #[test]
    fn verif_replay_interp_event_variable_read_only() {
        for script in ["_event = 'x'", "_event ?= 'x'", "_event.name = 'x'", "_event.name ?= 'x'", "_event.extra ?= 1", "_event['extra'] ?= 1", "_event.data = 5"] {
            let doc = format!(
                r###"<scxml xmlns="http://www.w3.org/2005/07/scxml" initial="s0" version="1.0" datamodel="rfsm-expression">
 <state id="s0">
  <onentry><send event="ping"/><send event="timeout" delay="5s"/></onentry>
  <transition event="ping" target="s1"><script>{}</script></transition>
 </state>
 <state id="s1">
  <transition event="error.execution" cond="_event.name == 'error.execution'" target="pass"/>
  <transition event="error.execution" target="stale"/>
  <transition event="timeout" target="modified"/>
 </state>
 <final id="pass"/><final id="stale"/><final id="modified"/>
</scxml>"###,
                script
            );
            assert_eq!(run(&doc, &[]), fin("pass"), "script {}", script);
        }
    }

    /// C09: while an event is processed _event exposes its name, type, sendid, origin, origintype, invokeid and data
    #[test]
    fn verif_replay_interp_event_fields() {
        for g in [
            "_event.name == 'ping'",
            "_event.type == 'external'",
            "_event.sendid == 'sid1'",
            "_event.origintype == 'http://www.w3.org/TR/scxml/#SCXMLEventProcessor'",
            "_event.origin == '#_scxml_' + _sessionid",
            "_event.invokeid == null",
            "_event.data.p == 7",
        ] {
            assert_eq!(run(&event_doc(g), &[]), fin("pass"), "guard {}", g);
        }
    }

    const CANCEL: &str = r###"<scxml xmlns="http://www.w3.org/2005/07/scxml" initial="s0" version="1.0" datamodel="rfsm-expression">
 <state id="s0">
  <onentry><send event="nochild" delay="6s"/></onentry>
  <invoke type="scxml" id="ticker"><content><scxml xmlns="http://www.w3.org/2005/07/scxml" initial="c0" version="1.0" datamodel="rfsm-expression"><state id="c0"><onentry><send target="#_parent" event="tick"/><send event="again" delay="100ms"/></onentry><transition event="again" target="c0"/></state></scxml></content></invoke>
  <transition event="tick" target="s1"/>
  <transition event="nochild" target="childsilent"/>
 </state>
 <state id="s1">
  <onentry><send event="quiet" delay="1s"/></onentry>
  <transition event="tick" target="notcancelled"/>
  <transition event="quiet" target="cancelled"/>
 </state>
 <final id="cancelled"/><final id="notcancelled"/><final id="childsilent"/>
</scxml>"###;

    /// C14: a child that keeps sending events is cancelled when the invoking state is exited, and the parent processes
    /// no event of that child afterwards
    #[test]
    fn verif_replay_interp_invoke_cancelled_on_exit() {
        assert_eq!(run(CANCEL, &[]), fin("cancelled"));
    }

    fn delay_doc(send: &str) -> String {
        format!(
            r###"<scxml xmlns="http://www.w3.org/2005/07/scxml" initial="s0" version="1.0" datamodel="rfsm-expression">
 <state id="s0">
  <onentry>{}<raise event="after"/></onentry>
  <transition event="after" target="pass"/>
  <transition event="error.execution" target="pass"/>
 </state>
 <final id="pass"/>
</scxml>"###,
            send
        )
    }

    /// C12: no delay value, however large or odd, makes the session thread panic or wedge: the send is either
    /// scheduled or reported as error.execution and the session carries on
    #[test]
    fn verif_replay_interp_extreme_delays() {
        for c in [
            r#"<send event="late" delay="1e18ms"/>"#,
            r#"<send event="late" delayexpr="'1e18ms'"/>"#,
            r#"<send event="late" delayexpr="'9223372036854775807ms'"/>"#,
            r#"<send event="late" delayexpr="'1e300d'"/>"#,
            r#"<send event="late" delayexpr="'100000000d'"/>"#,
            r#"<send event="late" delayexpr="'-5s'"/>"#,
            r#"<send event="late" delayexpr="'abc'"/>"#,
            r#"<send event="late" delayexpr="''"/>"#,
        ] {
            assert_eq!(run(&delay_doc(c), &[]), fin("pass"), "content {}", c);
        }
    }

    const DONE_INTERNAL: &str = r###"<scxml xmlns="http://www.w3.org/2005/07/scxml" initial="s0" version="1.0" datamodel="rfsm-expression">
 <state id="s0"><onentry><send event="ext"/></onentry><transition target="p"/></state>
 <parallel id="p">
  <state id="r1" initial="a1"><state id="a1"><transition target="f1"/></state><final id="f1"/></state>
  <state id="r2" initial="a2"><state id="a2"><transition target="f2"/></state><final id="f2"/></state>
  <transition event="done.state.p" target="pass"/>
  <transition event="ext" target="extfirst"/>
 </parallel>
 <state id="c" initial="c1">
  <state id="c1"><transition target="cf"/></state><final id="cf"/>
 </state>
 <final id="pass"/><final id="extfirst"/>
</scxml>"###;

    /// C03/C07: done.state events (of a compound state and of a parallel) are internal events: they are processed
    /// within the macrostep, before an external event that was already waiting
    #[test]
    fn verif_replay_interp_done_events_before_external() {
        assert_eq!(run(DONE_INTERNAL, &[]), fin("pass"));
        let compound = DONE_INTERNAL
            .replace(r#"<transition target="p"/>"#, r#"<transition target="c"/>"#)
            .replace(
                r#"<state id="c" initial="c1">"#,
                r#"<state id="c" initial="c1"><transition event="done.state.c" target="pass"/><transition event="ext" target="extfirst"/>"#,
            );
        assert_eq!(run(&compound, &[]), fin("pass"));
    }

    // ---- C01 / C02 / C06: pseudo-random conformant documents, legality of the configuration after every macrostep ----

    struct Rng(u64);
    impl Rng {
        fn next(&mut self, n: usize) -> usize {
            self.0 = self.0.wrapping_mul(6364136223846793005).wrapping_add(1442695040888963407);
            ((self.0 >> 33) as usize) % n
        }
    }

    #[derive(Clone, Copy, PartialEq, Debug)]
    enum Kind {
        Atomic,
        Compound,
        Parallel,
        Final,
        History,
    }

    struct Node {
        name: String,
        kind: Kind,
        parent: Option<usize>,
        children: Vec<usize>,
    }

    /// builds a random state tree below the root (index 0 = <scxml>), depth <= 3; a compound state's first child is a
    /// proper state, finals and histories come last; children of a parallel are states (plus an optional history)
    fn gen_tree(rng: &mut Rng) -> Vec<Node> {
        fn add(nodes: &mut Vec<Node>, parent: usize, kind: Kind) -> usize {
            let id = nodes.len();
            nodes.push(Node { name: format!("n{}", id), kind, parent: Some(parent), children: Vec::new() });
            nodes[parent].children.push(id);
            id
        }
        fn fill(nodes: &mut Vec<Node>, rng: &mut Rng, me: usize, depth: usize) {
            let in_parallel = nodes[me].kind == Kind::Parallel;
            let n_states = if in_parallel { 2 + rng.next(2) } else { 1 + rng.next(3) };
            for _ in 0..n_states {
                let kind = if depth >= 3 {
                    Kind::Atomic
                } else {
                    match rng.next(6) {
                        0 | 1 => Kind::Compound,
                        2 => Kind::Parallel,
                        _ => Kind::Atomic,
                    }
                };
                let c = add(nodes, me, kind);
                if kind == Kind::Compound || kind == Kind::Parallel {
                    fill(nodes, rng, c, depth + 1);
                }
            }
            if !in_parallel && rng.next(3) == 0 {
                add(nodes, me, Kind::Final);
            }
            if me != 0 && rng.next(3) == 0 {
                add(nodes, me, Kind::History);
            }
        }
        let mut nodes = vec![Node { name: "root".to_string(), kind: Kind::Compound, parent: None, children: Vec::new() }];
        fill(&mut nodes, rng, 0, 1);
        nodes
    }

    fn render(nodes: &Vec<Node>, rng: &mut Rng) -> String {
        fn targets(nodes: &Vec<Node>) -> Vec<usize> {
            (1..nodes.len()).collect()
        }
        fn emit(nodes: &Vec<Node>, rng: &mut Rng, me: usize, out: &mut String) {
            let n = &nodes[me];
            match n.kind {
                Kind::Final => {
                    out.push_str(&format!("<final id=\"{}\"/>\n", n.name));
                }
                Kind::History => {
                    let p = n.parent.unwrap();
                    let sibs: Vec<usize> = nodes[p].children.iter().cloned().filter(|c| nodes[*c].kind != Kind::History && nodes[*c].kind != Kind::Final).collect();
                    let t = sibs[rng.next(sibs.len())];
                    let ty = if rng.next(2) == 0 { "shallow" } else { "deep" };
                    out.push_str(&format!("<history id=\"{}\" type=\"{}\"><transition target=\"{}\"/></history>\n", n.name, ty, nodes[t].name));
                }
                _ => {
                    let tag = if n.kind == Kind::Parallel { "parallel" } else { "state" };
                    let mut attrs = String::new();
                    if n.kind == Kind::Compound && rng.next(2) == 0 {
                        let cs: Vec<usize> = n.children.iter().cloned().filter(|c| nodes[*c].kind != Kind::History && nodes[*c].kind != Kind::Final).collect();
                        attrs = format!(" initial=\"{}\"", nodes[cs[rng.next(cs.len())]].name);
                    }
                    out.push_str(&format!("<{} id=\"{}\"{}>\n", tag, n.name, attrs));
                    let all = targets(nodes);
                    for _ in 0..rng.next(3) {
                        let ev = ["e1", "e2", "e3"][rng.next(3)];
                        let t = all[rng.next(all.len())];
                        let ty = if rng.next(3) == 0 { " type=\"internal\"" } else { "" };
                        out.push_str(&format!("<transition event=\"{}\" target=\"{}\"{}/>\n", ev, nodes[t].name, ty));
                    }
                    for c in n.children.clone() {
                        emit(nodes, rng, c, out);
                    }
                    out.push_str(&format!("</{}>\n", tag));
                }
            }
        }
        let mut out = String::from("<scxml xmlns=\"http://www.w3.org/2005/07/scxml\" version=\"1.0\" datamodel=\"rfsm-expression\">\n");
        for c in nodes[0].children.clone() {
            emit(nodes, rng, c, &mut out);
        }
        out.push_str("</scxml>");
        out
    }

    /// None if `config` (state names) is a legal configuration of the tree, else what is wrong
    fn illegal(nodes: &Vec<Node>, config: &Vec<String>) -> Option<String> {
        // the <scxml> element itself is part of the reported configuration under a generated name
        let config: Vec<String> = config.iter().filter(|n| !n.starts_with("__id")).cloned().collect();
        let config = &config;
        let active = |i: usize| config.iter().any(|n| *n == nodes[i].name);
        for name in config {
            if !nodes.iter().any(|n| n.name == *name) {
                return Some(format!("unknown state {}", name));
            }
        }
        if nodes[0].children.iter().filter(|c| active(**c)).count() != 1 {
            return Some("not exactly one active child of the root".to_string());
        }
        for i in 1..nodes.len() {
            if !active(i) {
                continue;
            }
            let n = &nodes[i];
            if n.kind == Kind::History {
                return Some(format!("history {} is active", n.name));
            }
            if let Some(p) = n.parent {
                if p != 0 && !active(p) {
                    return Some(format!("{} is active but its parent is not", n.name));
                }
            }
            let kids: Vec<usize> = n.children.iter().cloned().filter(|c| nodes[*c].kind != Kind::History).collect();
            let act = kids.iter().filter(|c| active(**c)).count();
            match n.kind {
                Kind::Compound if act != 1 => return Some(format!("compound {} has {} active children", n.name, act)),
                Kind::Parallel if act != kids.len() => return Some(format!("parallel {} has {} of {} children active", n.name, act, kids.len())),
                _ => {}
            }
        }
        None
    }

    /// runs the document, feeds the events, then the platform cancel event: the reported final configuration is the
    /// configuration after the last macrostep (or the top-level final that ended the session earlier)
    fn config_after(doc: &str, events: &[&str]) -> Result<Vec<String>, String> {
        let mut evs: Vec<&str> = events.to_vec();
        evs.push(crate::fsm::EVENT_CANCEL_SESSION);
        run(doc, &evs)
    }

    /// C01 (bounded, pseudo-random): for 150 (thorough tier: 500) generated conformant documents and every event sequence of length <= 2 over
    /// three event names (plus 3 longer ones), the configuration after each macrostep is legal; C02: running the same
    /// document and history again gives the same configuration
    #[test]
    fn verif_replay_interp_random_documents_legal_configurations() {
        let deep = std::env::var("VERIF_THOROUGH").is_ok();
        let docs = if deep { 500 } else { 150 };
        let mut rng = Rng(0x5eed_2026);
        let names = ["e1", "e2", "e3"];
        for d in 0..docs {
            let nodes = gen_tree(&mut rng);
            let doc = render(&nodes, &mut rng);
            let mut seqs: Vec<Vec<&str>> = vec![vec![]];
            for a in names {
                seqs.push(vec![a]);
                for b in names {
                    seqs.push(vec![a, b]);
                }
            }
            for _ in 0..3 {
                seqs.push((0..(3 + rng.next(4))).map(|_| names[rng.next(3)]).collect());
            }
            for seq in &seqs {
                let c1 = config_after(&doc, seq);
                match &c1 {
                    Ok(cfg) => {
                        if let Some(why) = illegal(&nodes, cfg) {
                            panic!("document #{} after events {:?}: illegal configuration {:?}: {}\n{}", d, seq, cfg, why, doc);
                        }
                    }
                    Err(e) => panic!("document #{} with events {:?}: {}\n{}", d, seq, e, doc),
                }
                if seq.len() == 2 {
                    let c2 = config_after(&doc, seq);
                    assert_eq!(c1, c2, "document #{} with events {:?} is not reproducible\n{}", d, seq, doc);
                }
            }
        }
    }

    const SECOND_EVENT: &str = r###"<scxml xmlns="http://www.w3.org/2005/07/scxml" initial="s0" version="1.0" datamodel="rfsm-expression">
 <state id="s0">
  <onentry><send event="first" id="one"><param name="p" expr="1"/></send><send event="second" id="two" delay="100ms"><param name="p" expr="2"/></send><raise event="third"/></onentry>
  <transition event="third" cond="(_event.name == 'third') &amp; (_event.type == 'internal')" target="s1"/>
  <transition event="*" target="stale0"/>
 </state>
 <state id="s1">
  <transition event="first" cond="(_event.name == 'first') &amp; (_event.sendid == 'one') &amp; (_event.data.p == 1) &amp; (_event.type == 'external')" target="s2"/>
  <transition event="*" target="stale1"/>
 </state>
 <state id="s2">
  <transition event="second" cond="(_event.name == 'second') &amp; (_event.sendid == 'two') &amp; (_event.data.p == 2)" target="pass"/>
  <transition event="*" target="stale2"/>
 </state>
 <final id="pass"/><final id="stale0"/><final id="stale1"/><final id="stale2"/>
</scxml>"###;

    /// C09: _event describes the event being processed, for every event of the session (not only the first)
    #[test]
    fn verif_replay_interp_event_variable_follows_each_event() {
        assert_eq!(run(SECOND_EVENT, &[]), fin("pass"));
    }

    const TWO_INVOKES: &str = r###"<scxml xmlns="http://www.w3.org/2005/07/scxml" initial="s0" version="1.0" datamodel="rfsm-expression">
 <datamodel><data id="ida"/><data id="idb"/></datamodel>
 <state id="s0">
  <onentry><send event="timeout" delay="5s"/></onentry>
  <invoke type="scxml" idlocation="ida"><content><scxml xmlns="http://www.w3.org/2005/07/scxml" initial="c0" version="1.0" datamodel="rfsm-expression"><state id="c0"><transition target="cf"/></state><final id="cf"/></scxml></content></invoke>
  <invoke type="scxml" idlocation="idb"><content><scxml xmlns="http://www.w3.org/2005/07/scxml" initial="c0" version="1.0" datamodel="rfsm-expression"><state id="c0"><onentry><send target="#_parent" event="from.b" delay="400ms"/></onentry></state></scxml></content></invoke>
  <transition event="from.b" cond="ida != idb" target="pass"/>
  <transition event="from.b" target="sameid"/>
  <transition event="timeout" target="lost"/>
 </state>
 <final id="pass"/><final id="sameid"/><final id="lost"/>
</scxml>"###;

    /// C14/C15: two <invoke>s without an id get distinct generated invoke ids, so the end of one child does not
    /// unregister the other (its later event is still accepted)
    #[test]
    fn verif_replay_interp_generated_invoke_ids_are_distinct() {
        assert_eq!(run(TWO_INVOKES, &[]), fin("pass"));
    }

    /// C07: done.state.<parent> carries the evaluated <donedata> of the final state (params or content); a child that
    /// reaches a top-level final (with donedata) makes the parent receive done.invoke.<id> with that invoke id
    /// (the donedata of the child is not forwarded by this implementation: a TODO in returnDoneEvent, outside C07's text)
    #[test]
    fn verif_replay_interp_donedata() {
        for (donedata, guard) in [
            (r#"<donedata><param name="answer" expr="40 + 2"/><param name="text" expr="'x' + 'y'"/></donedata>"#, "(_event.data.answer == 42) &amp; (_event.data.text == 'xy')"),
            (r#"<donedata><content expr="'hello'"/></donedata>"#, "_event.data == 'hello'"),
            ("", "_event.data == null"),
        ] {
            let doc = format!(
                r###"<scxml xmlns="http://www.w3.org/2005/07/scxml" initial="p" version="1.0" datamodel="rfsm-expression">
 <state id="p" initial="a">
  <state id="a"><transition target="f"/></state>
  <final id="f">{}</final>
  <transition event="done.state.p" cond="{}" target="pass"/>
  <transition event="done.state.p" target="wrongdata"/>
 </state>
 <final id="pass"/><final id="wrongdata"/>
</scxml>"###,
                donedata, guard
            );
            assert_eq!(run(&doc, &[]), fin("pass"), "donedata {}", donedata);
        }
        let parent = r###"<scxml xmlns="http://www.w3.org/2005/07/scxml" initial="s0" version="1.0" datamodel="rfsm-expression">
 <state id="s0">
  <onentry><send event="timeout" delay="5s"/></onentry>
  <invoke type="scxml" id="kid"><content><scxml xmlns="http://www.w3.org/2005/07/scxml" initial="c0" version="1.0" datamodel="rfsm-expression"><state id="c0"><transition target="cf"/></state><final id="cf"><donedata><param name="answer" expr="6 * 7"/></donedata></final></scxml></content></invoke>
  <transition event="done.invoke.kid" cond="_event.invokeid == 'kid'" target="pass"/>
  <transition event="done.invoke" target="wrongdata"/>
  <transition event="timeout" target="nodone"/>
 </state>
 <final id="pass"/><final id="wrongdata"/><final id="nodone"/>
</scxml>"###;
        assert_eq!(run(parent, &[]), fin("pass"));
    }

    /// C03: an event sent to #_internal is an internal event: it is processed before an external event that was already
    /// waiting, and in FIFO order with raised events
    #[test]
    fn verif_replay_interp_internal_send_is_internal() {
        let doc = r###"<scxml xmlns="http://www.w3.org/2005/07/scxml" initial="s0" version="1.0" datamodel="rfsm-expression">
 <state id="s0">
  <onentry><send event="ext"/><send target="#_internal" event="a"/><raise event="b"/></onentry>
  <transition event="a" target="s1"/>
  <transition event="*" target="a_not_first"/>
 </state>
 <state id="s1">
  <transition event="b" target="s2"/>
  <transition event="*" target="b_not_second"/>
 </state>
 <state id="s2">
  <transition event="ext" target="pass"/>
 </state>
 <final id="pass"/><final id="a_not_first"/><final id="b_not_second"/>
</scxml>"###;
        assert_eq!(run(doc, &[]), fin("pass"));
    }

    /// C14 (W3C test 229): an event that comes from an autoforward child is forwarded back to that child as well
    #[test]
    fn verif_replay_interp_autoforward_echo() {
        let doc = r###"<scxml xmlns="http://www.w3.org/2005/07/scxml" initial="s0" version="1.0" datamodel="rfsm-expression">
 <state id="s0">
  <onentry><send event="timeout" delay="5s"/></onentry>
  <invoke type="scxml" id="kid" autoforward="true"><content><scxml xmlns="http://www.w3.org/2005/07/scxml" initial="c0" version="1.0" datamodel="rfsm-expression"><state id="c0"><onentry><send target="#_parent" event="child.to.parent"/></onentry><transition event="child.to.parent" target="c1"/></state><state id="c1"><onentry><send target="#_parent" event="child.got.echo"/></onentry></state></scxml></content></invoke>
  <transition event="child.got.echo" target="pass"/>
  <transition event="timeout" target="noecho"/>
 </state>
 <final id="pass"/><final id="noecho"/>
</scxml>"###;
        assert_eq!(run(doc, &[]), fin("pass"));
    }

    /// C08: an erroneous <param expr> / <content expr> of a <send> places error.execution on the internal queue once
    /// (the name/value is ignored and the block carries on), not once per layer that noticed the failure
    #[test]
    fn verif_replay_interp_single_error_event() {
        for c in [
            r#"<send event="e"><param name="p" expr="nosuch"/></send>"#,
            r#"<send event="e"><content expr="nosuch"/></send>"#,
        ] {
            let doc = format!(
                r###"<scxml xmlns="http://www.w3.org/2005/07/scxml" initial="s0" version="1.0" datamodel="rfsm-expression">
 <state id="s0"><onentry>{}<raise event="probe"/></onentry>
  <transition event="error.execution" target="s1"/><transition event="probe" target="none"/></state>
 <state id="s1"><transition event="error.execution" target="twice"/><transition event="probe" target="once"/></state>
 <final id="none"/><final id="once"/><final id="twice"/>
</scxml>"###,
                c
            );
            assert_eq!(run(&doc, &[]), fin("once"), "content {}", c);
        }
    }
}
